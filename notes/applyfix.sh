#!/bin/bash
# usage: applyfix.sh <patch file>...   applies draft repairs to /repo as separate commits and runs the repo suite (hooks off)
set -e
export GOFLAGS=-mod=mod GOPROXY=off GOSUMDB=off GOTOOLCHAIN=local
for p in "$@"; do
  git -C /repo am -3 "$(readlink -f "$p")" >/dev/null || { echo "FAILED to apply $p"; git -C /repo am --abort; exit 1; }
  echo "applied: $(git -C /repo log -1 --format=%s | cut -c1-100)"
done
(cd /repo && go build ./... && go test -vet=off -count=1 ./... 2>&1 | tail -8)
