#!/bin/bash
# usage: revtest.sh <commit-ish in /repo> <check id> [seed]   -- reverts one fix in the working tree, runs the check, restores
c=$1; id=$2; seed=${3:-1}
git -C /repo diff --quiet || { echo "/repo working tree not clean"; exit 2; }
git -C /repo show $c | git -C /repo apply -R || { echo "cannot revert $c"; exit 2; }
cd /verif && VERIF_SEED=$seed ./check $id 2>&1 | grep -v '^built' | grep -v KNOWN | cut -c1-260 | head -7
git -C /repo checkout -- .
