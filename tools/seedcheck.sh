#!/bin/bash
# usage: seedcheck.sh <seed id> <check ids...>      (VERIF_SEED / VERIF_TIER are passed through)
# applies /verif/seeded/<seed id>/patch.diff to a scratch worktree of /repo's HEAD under /tmp, runs the checks against
# that tree (VERIF_REPO; evidence and replays go to a scratch directory), prints one line per check and removes the
# worktree.  /repo itself is not touched.
sid=$1; shift
export GOFLAGS=-mod=mod GOPROXY=off GOSUMDB=off GOTOOLCHAIN=local
wt=$(mktemp -d /tmp/seedcheck.XXXXXX); rmdir $wt
git -C /repo worktree add -q --detach $wt HEAD || exit 2
trap 'git -C /repo worktree remove --force $wt; rm -rf $wt.out' EXIT
git -C $wt apply /verif/seeded/$sid/patch.diff || { echo "$sid: PATCH-DOES-NOT-APPLY"; exit 2; }
cd /verif
for c in "$@"; do
  res=$(VERIF_REPO=$wt VERIF_EVIDENCE_DIR=$wt.out/ev VERIF_REPLAY_DIR=$wt.out/rp ./check $c 2>&1 | grep -v '^built\|KNOWN-FINDING' | cut -c1-240 | head -2 | tr '\n' ' ')
  echo "$sid $c: $res"
done
