#!/bin/bash
# usage: seedtest_multi.sh <worktree> <outdir> <check> <seeds...>
wt=$1; out=$2; c=$3; shift 3
cd $wt; git checkout -q -- .; git apply $out/patch.diff || exit 2
cd /verif
for sd in "$@"; do tmp=$(mktemp -d /tmp/stm.XXXXXX); res=$(VERIF_SEED=$sd VERIF_REPO=$wt VERIF_EVIDENCE_DIR=$tmp/ev VERIF_REPLAY_DIR=$tmp/rp ./check $c 2>&1 | grep -v '^built\|KNOWN-FINDING' | cut -c1-220 | head -2 | tr '\n' ' '); echo "seed $sd $c: $res"; rm -rf $tmp; done
cd $wt; git checkout -q -- .
