#!/bin/bash
# usage: sweep.sh "<seeds>" [checks...]   -- runs quick checks for several seeds, prints only what is not OK
seeds=$1; shift
checks=${@:-C01 C02 C03 C04 C05 C06 C07 C08 C09 C10 C11 C12 C13 C14 C15 C16 C17 C18 C19 C20}
for s in $seeds; do for c in $checks; do
  out=$(VERIF_SEED=$s ./check $c 2>&1 | grep -v '^built\|KNOWN-FINDING')
  echo "$out" | grep -q '^OK' || echo "seed $s $c: $(echo "$out" | cut -c1-300 | head -4 | tr '\n' ' ')"
done; done; echo "sweep done"
