#!/bin/bash
# Development aid, not a check: which statements of olareg do the quick workloads never execute?
# usage: tools/linecov.sh [out dir, default /tmp/linecov] [checks...]
# go build -cover writes nothing for binaries whose main package exists only in an overlay (go1.23.5), so this tool
# builds from a scratch copy of /repo with the harness packages copied in and the shim imports rewritten in place
# (line numbers are preserved).  One copy per build variant; removed at the end.
export GOFLAGS=-mod=mod GOPROXY=off GOSUMDB=off GOTOOLCHAIN=local
out=${1:-/tmp/linecov}; shift
checks=${@:-C01 C02 C03 C04 C05 C06 C07 C08 C09 C10 C11 C12 C14 C15 C16 C17 C18 C19 C20}
V=$(cd "$(dirname "$0")/.." && pwd)
rm -rf "$out"; mkdir -p "$out/data"
MP=github.com/olareg/olareg
pkgs=$MP,$MP/internal/store,$MP/internal/cache,$MP/types,$MP/config,$MP/internal/httplog,$MP/internal/sloghandle
mkcopy() { # variant
  local d=$out/src-$1
  [ -d $d ] && return
  mkdir -p $d; rsync -a --exclude .git /repo/ $d/
  mkdir -p $d/internal/verif; cp -r $V/harness/* $d/internal/verif/
  (cd $d && echo "require github.com/anishathalye/porcupine v1.3.0" >> go.mod)
  case $1 in
    vfs) for f in $d/internal/store/*.go; do case $f in *_test.go) ;; *) sed -i -E 's#^(\s*)"os"\s*$#\1os "'$MP'/internal/verif/vfs"#' $f;; esac; done;;
    vsync) for f in $d/*.go $d/internal/store/*.go $d/internal/cache/*.go; do case $f in *_test.go) ;; *) sed -i -E 's#^(\s*)"sync"\s*$#\1sync "'$MP'/internal/verif/vsync"#' $f;; esac; done;;
  esac
}
python3 - "$V" $checks > $out/plan.txt <<'EOF'
import sys, re
V = sys.argv[1]
src = open(V + '/check').read()
ns = {}
exec(src.split('# ---------------------------------------------------------------------------------------------\n\ndef log')[0].split('CHECKS = {}')[1].join(['CHECKS = {}', '']) if False else '', ns)
import importlib.machinery, importlib.util
loader = importlib.machinery.SourceFileLoader('chk', V + '/check')
spec = importlib.util.spec_from_loader('chk', loader); m = importlib.util.module_from_spec(spec); loader.exec_module(m)
for c in sys.argv[2:]:
    for i, (pkg, variant, env) in enumerate(m.CHECKS[c]['runs']):
        v = {'race': 'plain', 'vsyncrace': 'vsync'}.get(variant, variant)
        print(c, i, pkg, v, variant, ' '.join('%s=%s' % kv for kv in env.items()))
EOF
go build -o $out/olareg /repo/cmd/olareg 2>/dev/null || (cd /repo && go build -o $out/olareg ./cmd/olareg)
while read c i pkg v variant env; do
  mkcopy $v
  bin=$out/bin-$pkg-$v
  [ -x $bin ] || (cd $out/src-$v && go build -tags verif -cover -covermode=atomic -coverpkg=./... -o $bin ./internal/verif/$pkg) || { echo "build failed $pkg $v"; continue; }
  w=$out/run-$c-$i; mkdir -p $w $out/data/$c
  (cd $w && env $env GOCOVERDIR=$out/data/$c VERIF_ID=$c VERIF_SEED=1 VERIF_TIER=quick VERIF_WORK=$w VERIF_OUT=$w/out.jsonl VERIF_VARIANT=$variant VERIF_REPO=/repo VERIF_DIR=$V VERIF_OLAREG=$out/olareg timeout 900 $bin >stdout.txt 2>stderr.txt; echo "$c/$i $pkg [$variant] exit $?")
  rm -rf $w
done < $out/plan.txt
all=$(ls -d $out/data/* | tr '\n' ',' | sed 's/,$//')
go tool covdata textfmt -i=$all -o $out/all.txt
for c in $checks; do go tool covdata textfmt -i=$out/data/$c -o $out/$c.txt; done
python3 - $out <<'EOF'
import sys, collections
out = sys.argv[1]
blocks = collections.OrderedDict()
for l in open(out + '/all.txt'):
    if l.startswith('mode:'): continue
    loc, n, cnt = l.rsplit(' ', 2)
    blocks[loc] = blocks.get(loc, 0) + int(cnt)
byfile = collections.defaultdict(list)
tot = cov = 0
for loc, cnt in blocks.items():
    f, r = loc.split(':')
    if '/internal/verif/' in f: continue
    tot += 1; cov += cnt > 0
    if cnt == 0: byfile[f].append(r)
print('blocks %d covered %d (%.1f%%)' % (tot, cov, 100.0 * cov / tot))
with open(out + '/uncovered.txt', 'w') as o:
    for f in sorted(byfile):
        o.write('%s: %d uncovered blocks\n' % (f, len(byfile[f])))
        for r in sorted(byfile[f], key=lambda r: int(r.split('.')[0])):
            o.write('   %s\n' % r)
print('see', out + '/uncovered.txt')
EOF
rm -rf $out/src-* $out/bin-* $out/olareg
