import json,subprocess,sys
h=subprocess.check_output(['git','-C','/repo','rev-parse','--short','HEAD'],text=True).strip()
k=json.load(open('/verif/known_findings.json'))
k['fixed'].append(sys.argv[1].replace('%s',h,1))
json.dump(k,open('/verif/known_findings.json','w'),indent=1)
print(h)
