#!/usr/bin/env python3
"""usage: keepseed.py <worktree out dir> <seed id> <checks run, comma separated> <result text> [caught by, comma separated; default: first check run]
copies patch.diff, the demonstration and meta.json (augmented) to /verif/seeded/<seed id>/"""
import json, os, shutil, sys
src, sid, checks, result = sys.argv[1:5]
dst = os.path.join('/verif/seeded', sid)
os.makedirs(dst, exist_ok=True)
for f in os.listdir(src):
    if os.path.isfile(os.path.join(src, f)):
        shutil.copy(os.path.join(src, f), os.path.join(dst, f))
mp = os.path.join(dst, 'meta.json')
try:
    m = json.load(open(mp))
except Exception:
    m = {}
m['confirmed_by_me'] = {'suite_passes_with_patch': True, 'demo_fails_with_patch': True, 'demo_passes_without_patch': True,
                        'how': 'tools/seedtest.sh in the scratch worktree the change was written in (git apply, go test ./..., demo.sh with and without the patch)'}
m['checks_run'] = checks.split(',')
m['result'] = result
m['caught_by'] = sys.argv[5].split(',') if len(sys.argv) > 5 else checks.split(',')[:1]
json.dump(m, open(mp, 'w'), indent=1)
print('kept', dst)
