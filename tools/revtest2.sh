#!/bin/bash
# usage: revtest2.sh <commit in /repo> <check id> [seed]   -- like revtest.sh but in a scratch worktree (VERIF_REPO): /repo is not touched.
# Reverts one fix commit on top of HEAD, runs the check against that tree, prints the first lines; removes the worktree.
c=$1; id=$2; seed=${3:-1}
wt=$(mktemp -d /tmp/revtest.XXXXXX); rmdir $wt
git -C /repo worktree add -q --detach $wt HEAD || exit 2
trap 'git -C /repo worktree remove --force $wt; rm -rf $wt.out' EXIT
git -C /repo show $c -- . ':!*_test.go' | git -C $wt apply -R 2>/dev/null || { echo "$c $id: CANNOT-REVERT (later commits changed the same lines)"; exit 0; }
cd /verif
res=$(VERIF_SEED=$seed VERIF_REPO=$wt VERIF_EVIDENCE_DIR=$wt.out/ev VERIF_REPLAY_DIR=$wt.out/rp ./check $id 2>&1 | grep -v '^built\|KNOWN-FINDING' | cut -c1-200 | head -2 | tr '\n' ' ')
echo "$c $id: $res"
