#!/bin/bash
# usage: seedtest.sh <worktree> <out dir with patch.diff demo.sh> <check ids...>
# 1) confirms in the scratch worktree: patch applies, suite passes, demo fails with / passes without the patch
# 2) applies the patch to /repo, runs the given checks, restores /repo
wt=$1; out=$2; shift 2
export GOFLAGS=-mod=mod GOPROXY=off GOSUMDB=off GOTOOLCHAIN=local
cd $wt || exit 2
git checkout -q -- . ; git status --short | grep -v '^??' && { echo "worktree dirty"; exit 2; }
git apply $out/patch.diff || { echo "PATCH-DOES-NOT-APPLY"; exit 2; }
go build ./... || { echo "BUILD-FAILS"; git checkout -q -- .; exit 2; }
if go test -vet=off -count=1 ./... >/tmp/seed_suite.log 2>&1; then echo "suite: pass with patch"; else echo "suite: FAILS with patch"; grep -- '--- FAIL' /tmp/seed_suite.log | head -3; fi
(bash $out/demo.sh >/tmp/seed_demo1.log 2>&1); echo "demo with patch: exit $?"
git checkout -q -- .
(bash $out/demo.sh >/tmp/seed_demo0.log 2>&1); echo "demo without patch: exit $?"
git checkout -q -- . ; git clean -fdq -e out
git -C /repo diff --quiet || { echo "/repo dirty"; exit 2; }
git -C /repo apply $out/patch.diff || { echo "PATCH-DOES-NOT-APPLY-TO-REPO"; exit 2; }
cd /verif
for c in "$@"; do
  res=$(./check $c 2>&1 | grep -v '^built\|KNOWN-FINDING' | cut -c1-220 | head -3 | tr '\n' ' ')
  echo "check $c: $res"
done
git -C /repo checkout -q -- .
