#!/bin/bash
# usage: seedtest.sh <worktree> <out dir with patch.diff demo.sh> <check ids...>
# 1) confirms in the scratch worktree: patch applies, suite passes, demo fails with / passes without the patch
# 2) runs the given checks against the worktree with the patch applied (VERIF_REPO), evidence and replays go to a
#    scratch directory; /repo is not touched, so several of these can run side by side
wt=$1; out=$2; shift 2
export GOFLAGS=-mod=mod GOPROXY=off GOSUMDB=off GOTOOLCHAIN=local
cd $wt || exit 2
git checkout -q -- . ; git status --short | grep -v '^??' && { echo "worktree dirty"; exit 2; }
git checkout -q --detach $(git -C /repo rev-parse HEAD) || { echo "cannot move worktree to /repo HEAD"; exit 2; }
git apply $out/patch.diff || { echo "PATCH-DOES-NOT-APPLY"; exit 2; }
go build ./... || { echo "BUILD-FAILS"; git checkout -q -- .; exit 2; }
tmp=$(mktemp -d /tmp/seedtest.XXXXXX)
if go test -vet=off -count=1 ./... >$tmp/suite.log 2>&1; then echo "suite: pass with patch"; else echo "suite: FAILS with patch"; grep -- '--- FAIL' $tmp/suite.log | head -3; fi
(bash $out/demo.sh >$tmp/demo1.log 2>&1); echo "demo with patch: exit $?"
git checkout -q -- .
(bash $out/demo.sh >$tmp/demo0.log 2>&1); echo "demo without patch: exit $?"
git checkout -q -- . ; git clean -fdq -e out
git apply $out/patch.diff
cd /verif
for c in "$@"; do
  res=$(VERIF_REPO=$wt VERIF_EVIDENCE_DIR=$tmp/ev VERIF_REPLAY_DIR=$tmp/rp ./check $c 2>&1 | grep -v '^built\|KNOWN-FINDING' | cut -c1-260 | head -3 | tr '\n' ' ')
  echo "check $c: $res"
done
cd $wt; git checkout -q -- .
rm -rf $tmp
