#!/usr/bin/env python3
"""usage: agentprompt.py seed|hunt <property id> <worktree>
prints the prompt for a sub-agent (property text only, nothing from /verif's machinery).
seed: asks for two changes that break the property; hunt: asks for violations on the unchanged tree."""
import glob, json, os, sys
kind, pid, wt = sys.argv[1:4]
prop = None
for l in open('/verif/properties.jsonl'):
    p = json.loads(l)
    if p['id'] == pid:
        prop = p
text = "Title: %s\n\nStatement: %s\n\nQuantifier: %s\n\nWhy the tests cannot settle it: %s\n\nAnchors in the code: %s" % (
    prop['title'], prop['statement'], prop['quantifier'], prop['why_tests_cant'], json.dumps(prop['anchors']))
titles = []
for d in sorted(glob.glob('/verif/seeded/%s-*' % pid)):
    try:
        titles.append('- ' + json.load(open(d + '/meta.json')).get('title', '')[:200])
    except Exception:
        pass
env = "export GOFLAGS=-mod=mod GOPROXY=off GOSUMDB=off GOTOOLCHAIN=local"
common = f"""You are working in a scratch git worktree of the Go project olareg/olareg (a minimal OCI container registry: HTTP handler in the root package, stores in internal/store, a bounded cache in internal/cache, index data structure in types/) at {wt}. Work ONLY inside {wt}; never touch /repo or /verif, do not read anything under /verif. There is no network. Before every go command run: `{env}`. The project's test suite is `go test -vet=off -count=1 ./...` (about 10 s; the test internal/store TestGarbageCollectUpload/Dir_GC is timing-sensitive under CPU load on the unchanged code as well - ignore it if it flakes). Keep CPU use moderate (other jobs share the machine): no `-count` above 20, no long stress loops.

The property of olareg you are concerned with:

{text}
"""
if kind == 'seed':
    print(common + f"""
Task: produce TWO independent, realistic changes to the non-test Go sources (the kind of slip or well-meant refactoring a maintainer could commit) that each BREAK this property while the project still compiles and the complete existing test suite still passes. Each change must need something specific to manifest - a particular interleaving, a crash or failing call at a particular point, a multi-step sequence of operations, an unusual but legal input or configuration, a rarely used request form, or two cooperating sites that each look fine alone - not something ordinary use exposes at once. The change must violate THIS property's statement (say which clause), not merely some other expectation.

Earlier changes already collected for this property (choose OTHER sites, clauses, stores, configurations and mechanisms):
{chr(10).join(titles)}

Hints for fresh ground: the memory store and the memory store over a directory (read-only and writable), the read-only directory store, error and early-return paths, configuration corners that are legal (limits, disabled APIs, grace periods), sha512 digests, Docker media types, index manifests / nested indexes, referrers with filters and paging, upload sessions in unusual orders, shutdown/Close, repository cache expiry, and code touched by recent `fix:` commits (see `git log`).

For each change i in 1,2 write into {wt}/out/<i>/ :
- patch.diff : `git diff` of the change alone against the worktree's HEAD (non-test sources only; must apply with `git apply` on a clean checkout)
- a demonstration: a Go test file (named zz_demo_<i>_test.go, guarded with `//go:build zzdemo`, to be copied into the right package directory) or a small program, plus demo.sh which, run from the worktree root, copies the file in place, runs it (`go test -vet=off -count=1 -tags zzdemo -run ... <pkg>`), removes it again and exits non-zero exactly when the property is violated. demo.sh must FAIL with the change applied and PASS on the unchanged code, reliably (if a schedule is needed, make the demonstration force it, e.g. by retrying up to a bounded number of times).
- meta.json : {{"property": "{pid}", "title": one line, "what_breaks": which clause and how, "needs": what is needed for it to manifest, "files": [...], "demo": how the demonstration works, "verified": {{"suite_passes_with_patch": bool, "demo_fails_with_patch": bool, "demo_passes_without_patch": bool}}}}

Verify all three facts yourself for each change (apply, run the whole suite, run demo.sh; revert, run demo.sh). Leave the worktree clean (git checkout -- . ; no stray files except out/) when you finish. In your final answer give, per change, a five-line summary. Also add a short section "remarks about the unchanged code": anything you noticed where the UNCHANGED code already seems to violate this property (input/sequence and what happens) - these remarks are valuable even without a demonstration.""")
else:
    known = sys.argv[4] if len(sys.argv) > 4 else ''
    print(common + f"""
Task: find ways in which the code AS IT IS violates this property. Read the anchored code and everything it depends on, then look for an input, sequence of requests, configuration, interleaving, crash point or history for which the statement does not hold, and demonstrate each finding with a Go test (or small program) that FAILS on this code because of the violation. Think about what the statement demands literally, clause by clause, and about each element of the quantifier - every store kind (directory, memory, memory over a directory, each read-only or writable), every legal configuration value, unusual but legal inputs (sha512, Docker media types, nested indexes, index artifacts, 128-character tags, zero-length blobs, repeated and reordered requests), concurrent requests, background jobs (collection ticker, upload expiry, repository cache expiry), shutdown.

Already known and recorded (do not report these again): {known}

For each finding i write into {wt}/out/<i>/ : the demonstration (zz_hunt_<i>_test.go guarded with `//go:build zzdemo`, plus demo.sh that copies it into place, runs it and removes it; exit non-zero = violation shown) and finding.json : {{"property": "{pid}", "title": one line, "clause": which words of the statement fail, "input": the exact input / sequence / schedule, "observed": what happens, "expected": what the statement demands, "where": file:line of the cause, "repair_idea": a minimal repair a maintainer would accept}}. Do not change non-test sources (you may do so temporarily to confirm a diagnosis; revert). Quality over quantity: at most 5 findings, each reproduced at least 3 times; say how often a schedule-dependent one reproduces. If after a serious search you find nothing, say which routes you tried. Leave the worktree clean apart from out/. Final answer: per finding a five-line summary, then the list of routes tried without result.""")
