#!/bin/bash
# usage: seedreg.sh [seed ids...]     regression over the seeded changes: every seed must still be reported by the
# checks recorded in its meta.json (caught_by).  Prints MISS lines for pairs that no longer fire.  4 seeds in parallel.
cd /verif
ids="$@"; [ -z "$ids" ] && ids=$(ls seeded)
for s in $ids; do
  c=$(python3 -c "import json;print(' '.join(json.load(open('seeded/$s/meta.json'))['caught_by']))")
  echo "$s $c"
done | xargs -P 4 -L 1 tools/seedcheck.sh 2>&1 | awk '{ if ($0 ~ /VIOLATION property=/) print "ok   " $1, $2; else print "MISS " $0 }'
