#!/bin/bash
# usage: [SEEDS="1 2 3"] seedreg.sh [seed ids...]     regression over the seeded changes: every seed must still be
# reported by the checks recorded in its meta.json (caught_by), at every VERIF_SEED in $SEEDS.  Prints one line per
# (seed, check, VERIF_SEED): ok / MISS.  4 in parallel.
cd /verif
ids="$@"; [ -z "$ids" ] && ids=$(ls seeded)
for vs in ${SEEDS:-1}; do
for s in $ids; do
  c=$(python3 -c "import json;print(' '.join(json.load(open('seeded/$s/meta.json'))['caught_by']))")
  [ -n "$c" ] && echo "$vs $s $c"
done; done | xargs -P 4 -L 1 sh -c 'vs=$0; VERIF_SEED=$vs tools/seedcheck.sh "$@" 2>&1 | sed "s/^/seed=$vs /"' | awk '{ if ($0 ~ /VIOLATION property=/) print "ok   " $1, $2, $3; else print "MISS " $0 }'
