# claim(id, category, text, level_note, technique, design_ref) -- one per property whose check is built and validated
NOT_YET = {}
claim("C18", "exploration",
      "Randomised differential run of the real types.Index against a three-valued reference model with all invariants of the statement asserted after every operation; tens of thousands (quick) to millions (thorough) of sequences over a tiny universe so that every collision shape recurs. Holds on the sequences explored, not a proof.",
      "Trusts the reference model in harness/c18 (written from the statement) and Go's math/rand for diversity; sequences are bounded to 30 operations over 4 digests x 3 tags x 2 subjects.",
      "reference-model monitor + invariant assertions over random operation sequences", "DESIGN.md section 5 C18")
claim("C20", "exploration",
      "The real cache.Cache is driven by concurrent and sequential workloads (shared and owned keys, ages 0/15/40 ms, counts 0-20, failing, slow and hooked cleanups) while a thread-safe shadow logs every callback; at quiescence every value ever Set must be current, successfully cleaned, or overwritable by a later Set; expiry lower bound, LRU order, size bound and hook balance are asserted with one-sided time bounds. Also run under the race detector at reduced scale.",
      "Values are unique per Set so a missing value identifies its cleanup; the oracle is sound but incomplete where two Sets of one key overlap (either may be last). Timing bounds are one-sided: load can hide, never create, an alarm.",
      "callback-shadow monitor + conservation oracle over recorded event logs; LRU/expiry scenario checks; -race rerun", "DESIGN.md section 5 C20")
claim("C02", "exploration",
      "Sequential differential histories (push, re-push, tag move, deletes, blob deletes, restarts, reopen as memory-over-directory) with the complete observable snapshot compared against a reference model after every operation: bytes, Content-Length, Docker-Content-Digest and media type of every manifest and blob, byte ranges in three forms, Accept lists in four forms, HEAD; plus manifest size-limit cases at L-1, L, L+1, L+2, 4L with known and unknown length.",
      "Restarts use the collection-neutral policy (collection effects belong to C05/C06/C10). Differences that are exactly recorded findings K1/K5 are downgraded by signature; the model then adopts the observed state.",
      "reference-model monitor (sequential differential) + content-addressing monitor G1", "DESIGN.md section 5 C02")
claim("C03", "exploration",
      "Same sequential differential driver with tags drawn from the whole tag grammar; after every operation tags/list, every tag's resolution and every manifest's presence are compared with a last-writer-wins model; pagination walks for n in {1,2,3,len-1,len,len+1,1000} must visit every tag exactly once in order; odd n/last values must give 200 with a sorted duplicate-free subset greater than last.",
      "Model written from the statement; K1/K5 signatures as in C02.",
      "reference-model monitor (sequential differential) + pagination walker", "DESIGN.md section 5 C03")
claim("C07", "exploration",
      "Random artifact histories on subjects that are images, indexes, artifacts or missing, limits from 700 B to 4 MiB, both stores with restarts; after every operation every subject's Link chain is walked unfiltered and per artifactType, twice (second answer from the page cache): set equality with the model, each digest once, descriptor fields as pushed, page sizes within the limit, OCI-Filters-Applied on every filtered response of a non-empty subject, 200 + OCI index for unknown repositories.",
      "An entry whose own descriptor is within 160 bytes of the limit may be absent (cannot fit); the filter header is demanded only where the subject has referrers (an empty answer is the same with and without a filter).",
      "reference-model monitor over Link-chain walks", "DESIGN.md section 5 C07")
claim("C01", "exploration",
      "Product generator over upload protocol x algorithm at creation x algorithm at completion x declared-digest kind with interleaved sessions, mounts with wrong-bytes completion, manifest pushes by digest/tag/tag+?digest=; the content-addressing monitor G1 reads every digest ever declared or computed, as blob and as manifest, in three repositories, and directory-store blob files are re-hashed.",
      "Hash functions of the Go standard library are trusted; sizes up to 70 KiB; 2xx on a wrong declared digest is only tolerated for a monolithic POST whose declared digest is already stored (de-duplication without reading the body).",
      "content-addressing monitor over a protocol/algorithm/digest-kind product workload", "DESIGN.md section 5 C01")
claim("C04", "exploration",
      "Valid manifests and 12 mutation classes pushed into empty, populated and referrer-heavy repositories; acceptance is predicted from how the case was built; after every push the complete observable snapshot (tags, manifests, referrers, blobs) is compared with the model, the refused body is probed as blob and manifest, and the other repository is re-compared.",
      "Content types with parameters / other case / absent are 'may' (the model follows the answer); consistency of type and body is read minimally: a mediaType field must equal the type, an image-shaped body is not an index and vice versa.",
      "reference-model monitor with must/may predictions + snapshot-unchanged oracle", "DESIGN.md section 5 C04")
claim("C05", "exploration",
      "Random object graphs with aliasing and referrer chains, random push/delete histories with collection points anywhere, ages set and collections triggered through hooks, 16 policies x grace on/off x 3 stores; after every collection every element of MustKeep (DESIGN Appendix A, role-aware reference walk) must still be served with its bytes, every tag must resolve and every tagged image must pull completely.",
      "The collection specification of Appendix A is trusted as the reading of the statement; losses that are exactly the recorded findings K1/K6 (and K5 resurrections) are recognised by history-based signatures; the model adopts what the specification leaves open.",
      "reference-model monitor (collection specification) over hook-triggered collections", "DESIGN.md section 5 C05, Appendix A")
claim("C06", "exploration",
      "Same generator; when nothing is young every element of Garbage must be gone after one pass, no index entry may lack content, the directory must be a valid layout, a second pass must change neither the observable state nor the files (except surfacing K1/K5/K6), an emptied repository must disappear with EmptyRepo; plus store-wide passes over healthy, empty, removed and corrupt repositories that must collect every healthy one.",
      "Garbage is the complement of an over-approximated 'possibly retained' set, so the claim 'must be gone' is never stronger than the statement; the memory store cannot be made to fail from outside, so starvation is decided on the directory store.",
      "reference-model monitor (collection specification) + convergence and starvation oracles", "DESIGN.md section 5 C06, Appendix A")
claim("C08", "exploration",
      "Protocol sequences over interleaved sessions with right/stale/future/malformed offsets and states, foreign-repository use, cancel, wrong digests, mount-fallback sessions; status query of every open session, conservation (model == hook listing == _uploads files) and prefix-digest probes after every request; RepoUploadMax bound with LRU order; expiry with one-sided timing.",
      "Requests of one session are issued sequentially (two simultaneous writers on one id are outside the statement); an absent state token is 'may'; expiry upper bound is 3 s for 40/80 ms grace periods (generous bounded-liveness restatement).",
      "per-session reference model + conservation monitor over hook and filesystem observations", "DESIGN.md section 5 C08")
claim("C15", "exploration",
      "Grammar-based hostile requests (tens of thousands quick, millions thorough) against empty, populated, open-session and paged-referrer servers on both stores with three monitors on every exchange (no panic / no 5xx, OCI error document with registered codes, invalid names reach no handler) and ~23 directed conditions with their allowed codes; rerun under -race (checkptr).",
      "Storage is healthy throughout, so any 5xx is attributed to the handler; only conditions the harness builds knowingly are judged for the specific code.",
      "response monitors (G2/G3/routing) over a grammar-based request generator", "DESIGN.md section 5 C15")
claim("C16", "exploration",
      "Six repository names that are prefixes/nestings of each other; every digest and tag is probed in every repository after writes; mounts with ordinary and hostile sources; 18 hostile path templates; internal/store is built with its os import replaced by a shim so that every path of every filesystem call is checked against the repositories the request addresses; a sentinel tree next to the root is compared byte for byte.",
      "The shim sees only calls made through package os in internal/store (the only package that touches the filesystem); addressed repositories are computed from the cleaned URL as any router would.",
      "isolation probes + filesystem path monitor (os shim through build overlay) + sentinel snapshot", "DESIGN.md section 5 C16")
claim("C09", "fault_enumeration",
      "Sequential histories on a directory store whose filesystem calls go through an os shim; a crash image (copy of the root) is taken before every mutating call, in the middle of every write and after every request; every image is reopened by a fresh server and must be observationally equal to the quiescent disk before or after the request in flight (content one-sided), with blob files hashing to their names, index.json parseable, no 5xx, every tag pulling completely, also after a collection pass on the image. Exhaustive over the crash points of the explored histories.",
      "Process-crash model only (completed syscalls durable; os.File has no user-space buffer), as the property's own quantifier says; the shim sees calls made through package os in internal/store; the torn two-step update of requests with a subject is recorded finding K2; equality of a quiescent disk with the API state is C10's business.",
      "crash-image enumeration through an os shim (build overlay) + recovery oracle", "DESIGN.md section 5 C09, Appendix C")
claim("C10", "exploration",
      "The collection history generator drives a directory store and, in lockstep with identical choices, a memory twin: OCI layout validation and index.json-tags == tags/list == model after every operation, snapshots of both stores compared after every operation, collection + Close + reopen equivalence at random points, reopening as memory-over-directory at the end, and nested repositories a, a/b, a/b/c created and emptied in every order with collections between upload and manifest.",
      "Before a restart comparison an explicit collection is run, so the collection inside Close is a second pass; differences that are exactly K1/K5/K6 are recognised by signature and end the lockstep for that history.",
      "layout-invariant monitor + restart / store differential", "DESIGN.md section 5 C10")
claim("C11", "exploration",
      "Hundreds (quick) to tens of thousands (thorough) of short concurrent histories (4-8 clients x 6-10 operations on shared tags, subjects and manifests, background collection loop) recorded at the client boundary and checked offline with porcupine against nondeterministic per-object sequential models (tag register, referrers set, manifest presence), plus quiescent checks; run with the jittering sync shim and again under the race detector build.",
      "Linearizability is checked per object (P-compositionality), not across objects; an acknowledged delete of an item that a concurrent delete has just removed is accepted (idempotent effect); operations answered 5xx stay open and may or may not have taken effect.",
      "history recording + porcupine linearizability checker (per-object models)", "DESIGN.md section 5 C11")
claim("C12", "exploration",
      "Stress batches (6-12 clients, chunked uploads with pauses, expiry of sessions and repositories at 20-60 ms, eviction at 2-4 sessions, collection every 5-10 ms, Close during traffic) on a build whose mutexes and wait groups are instrumented: a deadlock is decided from a cycle in the mutex wait-for graph seen twice, or from a stable all-blocked state over several goroutine dumps - never from a deadline; plus trials in which a request waiting for a collection must return on context cancel, and Close must return.",
      "Liveness is restated as 'no reachable deadlock state + bounded progress'; slow runs without a cycle or stable stall are inconclusive; WaitGroups and channels contribute no wait-for edges (covered by the stable-stall rule).",
      "wait-for-graph monitor in a sync shim (build overlay) + stable-stall detection over goroutine dumps, seeded jitter", "DESIGN.md section 5 C12, Appendix B")
claim("C13", "exploration",
      "The Go race detector over an everything-at-once workload (all handlers on shared repositories, collection ticker, session / repository expiry, eviction, page cache with short expiry, rate limiter with many addresses) on the unmodified sources and on the jittering sync-shim build; reports are de-duplicated by the pair of innermost olareg functions; the harness measures which handler pairs overlapped.",
      "The detector only sees races in executions that occur; harness-only reports are ignored; Close is called after requests have quiesced.",
      "Go race detector over a stress workload (report log scanned by the driver)", "DESIGN.md section 5 C13")
claim("C17", "exploration",
      "Generated legacy layouts (fallback indexes accurate, stale in four ways, mixed-subject, with missing or non-referrer entries, dangling, sha256/sha512 subjects, look-alike tags) opened by the writable directory store and memory-over-directory: referrers per subject must equal what the fallback indexes list grouped by the subject each manifest names, every other tag and all content must still be served, the directory must carry the marker and be a valid layout; the same after a second open and after opening every crash image of the conversion; the first request runs under the stable-stall watch.",
      "Expected referrers are computed from the manifests on disk that some fallback index lists; crash images use the process-crash model of C09.",
      "reference oracle over generated layouts + crash-image enumeration of the conversion + stall watch", "DESIGN.md section 5 C17")
