# claim(id, category, text, level_note, technique, design_ref) -- one per property whose check is built and validated
NOT_YET = {}
claim("C18", "exploration",
      "Randomised differential run of the real types.Index against a three-valued reference model with all invariants of the statement asserted after every operation; tens of thousands (quick) to millions (thorough) of sequences over a tiny universe so that every collision shape recurs. Holds on the sequences explored, not a proof.",
      "Trusts the reference model in harness/c18 (written from the statement) and Go's math/rand for diversity; sequences are bounded to 30 operations over 4 digests x 3 tags x 2 subjects.",
      "reference-model monitor + invariant assertions over random operation sequences", "DESIGN.md section 5 C18")
