# claim(id, category, text, level_note, technique, design_ref) -- one per property whose check is built and validated
NOT_YET = {}
claim("C18", "exploration",
      "Randomised differential run of the real types.Index against a three-valued reference model with all invariants of the statement asserted after every operation; tens of thousands (quick) to millions (thorough) of sequences over a tiny universe so that every collision shape recurs. Holds on the sequences explored, not a proof.",
      "Trusts the reference model in harness/c18 (written from the statement) and Go's math/rand for diversity; sequences are bounded to 30 operations over 4 digests x 3 tags x 2 subjects.",
      "reference-model monitor + invariant assertions over random operation sequences", "DESIGN.md section 5 C18")
claim("C20", "exploration",
      "The real cache.Cache is driven by concurrent and sequential workloads (shared and owned keys, ages 0/15/40 ms, counts 0-20, failing, slow and hooked cleanups) while a thread-safe shadow logs every callback; at quiescence every value ever Set must be current, successfully cleaned, or overwritable by a later Set; expiry lower bound, LRU order, size bound and hook balance are asserted with one-sided time bounds. Also run under the race detector at reduced scale.",
      "Values are unique per Set so a missing value identifies its cleanup; the oracle is sound but incomplete where two Sets of one key overlap (either may be last). Timing bounds are one-sided: load can hide, never create, an alarm.",
      "callback-shadow monitor + conservation oracle over recorded event logs; LRU/expiry scenario checks; -race rerun", "DESIGN.md section 5 C20")
claim("C02", "exploration",
      "Sequential differential histories (push, re-push, tag move, deletes, blob deletes, restarts, reopen as memory-over-directory) with the complete observable snapshot compared against a reference model after every operation: bytes, Content-Length, Docker-Content-Digest and media type of every manifest and blob, byte ranges in three forms, Accept lists in four forms, HEAD; plus manifest size-limit cases at L-1, L, L+1, L+2, 4L with known and unknown length.",
      "Restarts use the collection-neutral policy (collection effects belong to C05/C06/C10). Differences that are exactly recorded findings K1/K5 are downgraded by signature; the model then adopts the observed state.",
      "reference-model monitor (sequential differential) + content-addressing monitor G1", "DESIGN.md section 5 C02")
claim("C03", "exploration",
      "Same sequential differential driver with tags drawn from the whole tag grammar; after every operation tags/list, every tag's resolution and every manifest's presence are compared with a last-writer-wins model; pagination walks for n in {1,2,3,len-1,len,len+1,1000} must visit every tag exactly once in order; odd n/last values must give 200 with a sorted duplicate-free subset greater than last.",
      "Model written from the statement; K1/K5 signatures as in C02.",
      "reference-model monitor (sequential differential) + pagination walker", "DESIGN.md section 5 C03")
claim("C07", "exploration",
      "Random artifact histories on subjects that are images, indexes, artifacts or missing, limits from 700 B to 4 MiB, both stores with restarts; after every operation every subject's Link chain is walked unfiltered and per artifactType, twice (second answer from the page cache): set equality with the model, each digest once, descriptor fields as pushed, page sizes within the limit, OCI-Filters-Applied on every filtered response of a non-empty subject, 200 + OCI index for unknown repositories.",
      "An entry whose own descriptor is within 160 bytes of the limit may be absent (cannot fit); the filter header is demanded only where the subject has referrers (an empty answer is the same with and without a filter).",
      "reference-model monitor over Link-chain walks", "DESIGN.md section 5 C07")
