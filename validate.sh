#!/bin/bash
# validates MANIFEST.json and every evidence file against the schemas
cd "$(dirname "$0")"
python3-vt - <<'PY'
import json,jsonschema,glob
jsonschema.validate(json.load(open('MANIFEST.json')), json.load(open('/root/.vp/MANIFEST.schema.json')))
es=json.load(open('/root/.vp/EVIDENCE.schema.json'))
for f in sorted(glob.glob('evidence/*.json')):
    jsonschema.validate(json.load(open(f)), es)
    print('ok', f)
print('manifest ok')
PY
