// C04: only complete, well-formed manifests are accepted; refusals change nothing.
//
// Valid manifests and mutations of them (truncated bodies, missing config / layer / child, references that
// exist only in another repository, unknown / empty / parameterised / inconsistent Content-Type, hostile
// reference strings, wrong digests) are pushed into empty, populated and referrer-heavy repositories.
// Oracle: valid() computed from how the case was built, never from olareg's answer:
//
//	must accept  => 201 and the model gains exactly the manifest (+tag, +referrer)
//	must refuse  => 4xx, the complete observable snapshot equals the model from before the push, and the
//	                refused body is not retrievable as a blob either
//	may          => (parameterised / upper-case / absent Content-Type) either answer; the model follows it
package main

import (
	"encoding/json"
	"fmt"
	"math/rand"
	"net/url"
	"os"
	"sort"
	"strings"

	"github.com/olareg/olareg/internal/verif/vh"
)

type tcase struct {
	class string // invalidity class, "valid" if none
	must  int    // 1 accept, -1 refuse, 0 may
	mm    *vh.Man
	body  []byte
	ct    string
	ref   string // path element
	query string
	tag   string // tag that the push would set ("" if by digest)
}

var hostileRefs = []string{".", "..", "-x", ".x", "a b", "a%2fb", "a:b", "sha256:zz", "sha256:" + strings.Repeat("0", 63), "sha512:" + strings.Repeat("0", 64),
	strings.Repeat("t", 129), "ä", "a/b", "tag@sha256:" + strings.Repeat("0", 64), "", "sha256-:x", "~"}

func gen(rng *rand.Rand, w *vh.World, repo string, n int) tcase {
	u := w.U
	m := w.Repos[repo]
	mm := u.Mans[rng.Intn(len(u.Mans))]
	tc := tcase{class: "valid", must: 1, mm: mm, body: mm.Raw, ct: mm.MT}
	if rng.Intn(2) == 0 {
		tc.tag = u.Tags[rng.Intn(len(u.Tags))]
		tc.ref = tc.tag
		if vh.AlgOf(mm.D) != "sha256" {
			tc.query = "digest=" + url.QueryEscape(mm.D)
		}
	} else {
		tc.ref = mm.D
	}
	refsOK := m.ValidRefs(mm)
	if !refsOK {
		tc.class, tc.must = "missing-reference", -1
		// is it present only in the other repository?
		for _, rf := range mm.Refs {
			if m.Stored[rf] == nil {
				for on, o := range w.Repos {
					if on != repo && o.Stored[rf] != nil {
						tc.class = "reference-only-in-other-repository"
					}
				}
			}
		}
	}
	if rng.Intn(3) > 0 {
		return tc // plain push (valid or with missing references, depending on the repository state)
	}
	// a mutation on top
	switch k := rng.Intn(16); k {
	case 0: // truncated body, addressed by tag or by the digest of the truncated bytes
		cut := 1 + rng.Intn(len(mm.Raw)-1)
		tc.body = mm.Raw[:cut]
		tc.class, tc.must = "truncated-body", -1
		if tc.tag == "" {
			tc.ref = vh.DigestOf("sha256", tc.body)
		}
		tc.query = ""
	case 1: // not JSON at all
		tc.body = []byte("this is not json " + fmt.Sprint(n))
		tc.class, tc.must = "not-json", -1
		if tc.tag == "" {
			tc.ref = vh.DigestOf("sha256", tc.body)
		}
		tc.query = ""
	case 2: // unknown content type
		tc.ct = []string{"application/json", "text/plain", "application/vnd.oci.image.config.v1+json", "application/vnd.docker.distribution.manifest.v1+json", "application/vnd.oci.artifact.manifest.v1+json",
			// values that are not media types at all: whatever parser reads them, none of them names a supported type
			"application/json/extra", "application/", "text plain", "/json", "application/xml; a=1; a=2", "image@manifest", "application/vnd.oci.image.manifest.v1+json/x"}[rng.Intn(12)]
		tc.class, tc.must = "unsupported-content-type", -1
	case 3: // parameterised or upper-case content type: may
		tc.ct = []string{mm.MT + "; charset=utf-8", strings.ToUpper(mm.MT), " " + mm.MT + " ;q=1"}[rng.Intn(3)]
		if tc.must == 1 {
			tc.class, tc.must = "content-type-with-parameters", 0
		}
	case 4: // no content type: may
		tc.ct = ""
		if tc.must == 1 {
			tc.class, tc.must = "no-content-type", 0
		}
	case 5: // content type of the other shape, or the docker/oci sibling: inconsistent with the body
		switch mm.MT {
		case vh.MTImage:
			tc.ct = []string{vh.MTIndex, vh.MTDockerImage, vh.MTDockerList}[rng.Intn(3)]
		case vh.MTIndex:
			tc.ct = []string{vh.MTImage, vh.MTDockerList, vh.MTDockerImage}[rng.Intn(3)]
		case vh.MTDockerImage:
			tc.ct = []string{vh.MTImage, vh.MTDockerList}[rng.Intn(2)]
		default:
			tc.ct = []string{vh.MTIndex, vh.MTDockerImage}[rng.Intn(2)]
		}
		tc.class, tc.must = "content-type-inconsistent-with-body", -1
	case 6: // body without mediaType field declared as the other shape
		var obj map[string]any
		_ = json.Unmarshal(mm.Raw, &obj)
		delete(obj, "mediaType")
		if cfg, ok := obj["config"].(map[string]any); ok && rng.Intn(2) == 0 {
			// ... and without the media type of the config either: nothing in the body names a type, only its shape
			// (config and layers) says what it is
			delete(cfg, "mediaType")
		}
		b, _ := json.Marshal(obj)
		tc.body = b
		if mm.Index {
			tc.ct = vh.MTImage
		} else {
			tc.ct = vh.MTIndex
		}
		tc.class, tc.must = "shape-inconsistent-with-content-type", -1
		if tc.tag == "" {
			tc.ref = vh.DigestOf("sha256", b)
		}
		tc.query = ""
	case 7: // hostile reference string
		tc.ref = hostileRefs[rng.Intn(len(hostileRefs))]
		tc.tag, tc.query = "", ""
		tc.class, tc.must = "invalid-reference", -1
	case 8: // digest reference that is not the digest of the body
		o := u.Mans[rng.Intn(len(u.Mans))]
		if o.D == mm.D {
			return tc
		}
		tc.ref, tc.tag, tc.query = o.D, "", ""
		tc.class, tc.must = "digest-reference-mismatch", -1
	case 9: // tag with a ?digest= that does not match
		o := u.Mans[rng.Intn(len(u.Mans))]
		if o.D == mm.D || tc.tag == "" {
			return tc
		}
		tc.query = "digest=" + url.QueryEscape(o.D)
		tc.class, tc.must = "digest-parameter-mismatch", -1
	case 10: // an extra reference that does not exist anywhere
		var obj map[string]any
		_ = json.Unmarshal(mm.Raw, &obj)
		ghost := map[string]any{"mediaType": vh.MTLayer, "digest": vh.DigestOf("sha256", []byte(fmt.Sprint("ghost", n))), "size": 3}
		if mm.Index {
			ghost["mediaType"] = vh.MTImage
			obj["manifests"] = append(obj["manifests"].([]any), ghost)
		} else {
			if rng.Intn(2) == 0 {
				// a layer that also names download locations (the foreign-layer form): the statement makes no exception
				// for it, a layer that is referenced exists in the repository
				ghost["urls"] = []any{"https://example.com/layer.tar"}
				if rng.Intn(2) == 0 {
					ghost["mediaType"] = []string{"application/vnd.docker.image.rootfs.foreign.diff.tar.gzip", "application/vnd.oci.image.layer.nondistributable.v1.tar+gzip"}[rng.Intn(2)]
				}
			}
			obj["layers"] = append(obj["layers"].([]any), ghost)
		}
		b, _ := json.Marshal(obj)
		tc.body = b
		tc.class, tc.must = "extra-missing-reference", -1
		if tc.tag == "" {
			tc.ref = vh.DigestOf("sha256", b)
		}
		tc.query = ""
	case 13: // digest reference that is not the digest of the body, with a ?digest= parameter that is
		o := u.Mans[rng.Intn(len(u.Mans))]
		if o.D == mm.D {
			return tc
		}
		tc.ref, tc.tag = o.D, ""
		if rng.Intn(3) == 0 {
			tc.ref = vh.DigestOf("sha256", []byte(fmt.Sprint("nothing", n)))
		}
		tc.query = "digest=" + url.QueryEscape(mm.D)
		if rng.Intn(3) == 0 {
			tc.query = "digest=" + url.QueryEscape(vh.DigestOf("sha512", mm.Raw))
		}
		tc.class, tc.must = "digest-reference-mismatch-with-matching-parameter", -1
	case 12: // a complete manifest followed by more bytes: the body as a whole does not parse
		tail := []string{"garbage", "{}", "\n]", " x", "\x00", "}"}[rng.Intn(6)]
		tc.body = append(append([]byte{}, mm.Raw...), []byte(tail)...)
		tc.class, tc.must = "trailing-bytes", -1
		if tc.tag == "" {
			tc.ref = vh.DigestOf("sha256", tc.body)
		}
		tc.query = ""
	case 14: // a reference whose digest is no digest at all: nothing of that name can exist in the repository
		var obj map[string]any
		_ = json.Unmarshal(mm.Raw, &obj)
		bad := []string{"sha256:zz", "sha256:" + strings.Repeat("0", 63), "md5:d41d8cd98f00b204e9800998ecf8427e", "sha256:" + strings.Repeat("A", 64), "sha256", "sha999:" + strings.Repeat("0", 64), strings.Repeat("0", 64)}[rng.Intn(7)]
		ref := map[string]any{"mediaType": vh.MTLayer, "digest": bad, "size": 3}
		switch {
		case mm.Index:
			ref["mediaType"] = vh.MTImage
			obj["manifests"] = append(obj["manifests"].([]any), ref)
		case rng.Intn(2) == 0:
			obj["layers"] = append(obj["layers"].([]any), ref)
		default:
			ref["mediaType"] = vh.MTConfig
			obj["config"] = ref
		}
		b, _ := json.Marshal(obj)
		tc.body = b
		tc.class, tc.must = "malformed-reference-digest", -1
		if tc.tag == "" {
			tc.ref = vh.DigestOf("sha256", b)
		}
		tc.query = ""
	case 15: // the body declares a media type that is no supported image or index type, and no Content-Type header says otherwise
		var obj map[string]any
		_ = json.Unmarshal(mm.Raw, &obj)
		obj["mediaType"] = []string{"application/vnd.oci.artifact.manifest.v1+json", "application/vnd.docker.distribution.manifest.v1+json", "text/plain", vh.MTConfig, "application/json", vh.MTLayer}[rng.Intn(6)]
		b, _ := json.Marshal(obj)
		tc.body = b
		tc.ct = ""
		tc.class, tc.must = "unsupported-media-type-in-body-without-content-type", -1
		if tc.tag == "" {
			tc.ref = vh.DigestOf("sha256", b)
		}
		tc.query = ""
	case 11: // config missing: point config at an absent digest
		if mm.Index {
			return tc
		}
		var obj map[string]any
		_ = json.Unmarshal(mm.Raw, &obj)
		obj["config"] = map[string]any{"mediaType": vh.MTConfig, "digest": vh.DigestOf("sha256", []byte(fmt.Sprint("nocfg", n))), "size": 2}
		b, _ := json.Marshal(obj)
		tc.body = b
		tc.class, tc.must = "missing-config", -1
		if tc.tag == "" {
			tc.ref = vh.DigestOf("sha256", b)
		}
		tc.query = ""
	}
	return tc
}

// childOnlyAsBlob: "every ... child manifest it references already exists in that same repository".  The bytes of a
// manifest the registry has refused (its layer is missing), and bytes that are no manifest at all, are uploaded
// through the blob API - which validates nothing - and an index then lists them as its children.  The children were
// never manifests of the repository: the index is refused.  (Recorded finding K12: the reference check of an index
// asks the blob store.)
func childOnlyAsBlob(r *vh.Run, i int) {
	kind := []vh.StoreKind{vh.Mem, vh.Dir}[i%2]
	root := ""
	if kind != vh.Mem {
		root = r.TempDir("c04c")
		defer vh.RemoveAll(root)
	}
	srv := vh.New(vh.Conf(kind, root, vh.Neutral))
	defer srv.Close()
	wit := map[string]any{"trial": i, "store": kind.String()}
	cfg := []byte(fmt.Sprintf("child config %d", i))
	vh.Do(srv, vh.Req{Method: "POST", URL: "/v2/k/blobs/uploads/?digest=" + vh.DigestOf("sha256", cfg), Body: cfg})
	missing := vh.DigestOf("sha256", []byte(fmt.Sprintf("layer nobody pushed %d", i)))
	m := []byte(fmt.Sprintf(`{"schemaVersion":2,"mediaType":%q,"config":{"mediaType":%q,"digest":%q,"size":%d},"layers":[{"mediaType":%q,"digest":%q,"size":7}]}`, vh.MTImage, vh.MTConfig, vh.DigestOf("sha256", cfg), len(cfg), vh.MTLayer, missing))
	md := vh.DigestOf("sha256", m)
	if st := vh.Do(srv, vh.Req{Method: "PUT", URL: "/v2/k/manifests/" + md, H: map[string]string{"Content-Type": vh.MTImage}, Body: m}).Status; st < 400 || st >= 500 {
		r.Violation("invalid-accepted:missing-layer", fmt.Sprintf("an image whose layer is missing was answered %d", st), wit)
		return
	}
	children := [][]byte{m}
	if i%4 >= 2 {
		children = append(children, []byte(fmt.Sprintf("this is no manifest at all %d", i)))
	}
	var descs []string
	for _, c := range children {
		if st := vh.Do(srv, vh.Req{Method: "POST", URL: "/v2/k/blobs/uploads/?digest=" + vh.DigestOf("sha256", c), Body: c}).Status; st != 201 {
			r.Inconclusive("childOnlyAsBlob: blob upload refused")
			return
		}
		descs = append(descs, fmt.Sprintf(`{"mediaType":%q,"digest":%q,"size":%d}`, vh.MTImage, vh.DigestOf("sha256", c), len(c)))
	}
	x := []byte(fmt.Sprintf(`{"schemaVersion":2,"mediaType":%q,"manifests":[%s]}`, vh.MTIndex, strings.Join(descs, ",")))
	rs := vh.Do(srv, vh.Req{Method: "PUT", URL: "/v2/k/manifests/bundle", H: map[string]string{"Content-Type": vh.MTIndex}, Body: x})
	r.Count("child_only_as_blob_trials", 1)
	wit["status"] = rs.Status
	if rs.Status < 400 {
		g := vh.Do(srv, vh.Req{Method: "GET", URL: "/v2/k/manifests/bundle", H: map[string]string{"Accept": vh.MTImage}})
		wit["negotiated_get_status"] = g.Status
		r.Violation("K12:invalid-accepted:child-present-only-as-blob", fmt.Sprintf("%s store: an index whose %d children exist in the repository only as blobs uploaded through the blob API (one is a manifest the registry itself refused for a missing layer) was answered %d; GET of the tag accepting an image manifest now answers %d with the never-validated child", kind, len(children), rs.Status, g.Status), wit)
	}
}

// refusedIntoFresh: "refusals change nothing" where there was nothing - a refused push names a repository that does not
// exist yet.  olareg has no catalog, so the one place where such a repository could show is the root directory (directory
// store and memory store over a directory): no directory of that name may be there once the server is closed (so that a
// deferred clean-up had its chance).
func refusedIntoFresh(r *vh.Run, i int) {
	kind := []vh.StoreKind{vh.Dir, vh.MemDir}[i%2]
	root := r.TempDir("c04f")
	defer vh.RemoveAll(root)
	srv := vh.New(vh.Conf(kind, root, vh.Neutral))
	closed := false
	defer func() {
		if !closed {
			srv.Close()
		}
	}()
	name := fmt.Sprintf("fresh%d/sub", i)
	wit := map[string]any{"trial": i, "store": kind.String(), "repository": name}
	missing := vh.DigestOf("sha256", []byte(fmt.Sprintf("layer nobody pushed %d", i)))
	bodies := [][2]string{
		{vh.MTImage, fmt.Sprintf(`{"schemaVersion":2,"mediaType":%q,"config":{"mediaType":%q,"digest":%q,"size":2},"layers":[{"mediaType":%q,"digest":%q,"size":7}]}`, vh.MTImage, vh.MTConfig, missing, vh.MTLayer, missing)},
		{vh.MTIndex, fmt.Sprintf(`{"schemaVersion":2,"mediaType":%q,"manifests":[{"mediaType":%q,"digest":%q,"size":7}]}`, vh.MTIndex, vh.MTImage, missing)},
		{vh.MTImage, "this is not json"},
		{"text/plain", `{"schemaVersion":2}`},
	}
	b := bodies[(i/2)%len(bodies)]
	ref := "t1"
	if i%3 == 0 {
		ref = vh.DigestOf("sha256", []byte(b[1]))
	}
	rs := vh.Do(srv, vh.Req{Method: "PUT", URL: "/v2/" + name + "/manifests/" + ref, H: map[string]string{"Content-Type": b[0]}, Body: []byte(b[1])})
	wit["status"], wit["content_type"], wit["body"], wit["reference"] = rs.Status, b[0], b[1], ref
	if rs.Status < 400 || rs.Status >= 500 {
		r.Violation("invalid-accepted:fresh-repository", fmt.Sprintf("an incomplete or malformed manifest pushed into a repository that did not exist was answered %d", rs.Status), wit)
		return
	}
	r.Count("refused_into_fresh_trials", 1)
	srv.Close()
	closed = true
	if _, err := os.Stat(root + "/" + strings.SplitN(name, "/", 2)[0]); err == nil {
		r.Violation("refused-side-effect:fresh-repository-directory", fmt.Sprintf("%s store: a refused manifest push (%d) into %q, a repository that did not exist, left a directory of that name under the root", kind, rs.Status, name), wit)
	}
}

// childContentDeleted: the mirror image of childOnlyAsBlob.  A child manifest was pushed and acknowledged, then its
// content was removed through the blob API (the entry in the repository index stays until a collection drops it).  It
// answers 404 by digest - it does not exist - so an index (or, for a config / layer, an image) that references it is
// incomplete and has to be refused, and the refusal changes nothing.
func childContentDeleted(r *vh.Run, i int) {
	kind := []vh.StoreKind{vh.Mem, vh.Dir, vh.MemDir}[i%3]
	root := ""
	if kind != vh.Mem {
		root = r.TempDir("c04d")
		defer vh.RemoveAll(root)
	}
	srv := vh.New(vh.Conf(kind, root, vh.Neutral))
	defer srv.Close()
	wit := map[string]any{"trial": i, "store": kind.String()}
	cfg := []byte(fmt.Sprintf("deleted child config %d", i))
	vh.Do(srv, vh.Req{Method: "POST", URL: "/v2/k/blobs/uploads/?digest=" + vh.DigestOf("sha256", cfg), Body: cfg})
	mt, xt := vh.MTImage, vh.MTIndex
	if i%2 == 1 {
		mt, xt = vh.MTDockerImage, vh.MTDockerList
	}
	m := []byte(fmt.Sprintf(`{"schemaVersion":2,"mediaType":%q,"config":{"mediaType":%q,"digest":%q,"size":%d},"layers":[]}`, mt, vh.MTConfig, vh.DigestOf("sha256", cfg), len(cfg)))
	md := vh.DigestOf("sha256", m)
	ref := md
	if i%4 >= 2 {
		ref = "child" // a tagged child: the tag stays listed, its content is gone all the same
	}
	if st := vh.Do(srv, vh.Req{Method: "PUT", URL: "/v2/k/manifests/" + ref, H: map[string]string{"Content-Type": mt}, Body: m}).Status; st != 201 {
		r.Inconclusive(fmt.Sprintf("childContentDeleted: child push answered %d", st))
		return
	}
	if st := vh.Do(srv, vh.Req{Method: "DELETE", URL: "/v2/k/blobs/" + md}).Status; st != 202 {
		r.Inconclusive(fmt.Sprintf("childContentDeleted: blob delete answered %d", st))
		return
	}
	if st := vh.Do(srv, vh.Req{Method: "GET", URL: "/v2/k/manifests/" + md, H: map[string]string{"Accept": vh.AcceptAll}}).Status; st != 404 {
		r.Count("child_content_deleted_still_served", 1)
		return
	}
	tagsBefore := string(vh.Do(srv, vh.Req{Method: "GET", URL: "/v2/k/tags/list"}).Body)
	x := []byte(fmt.Sprintf(`{"schemaVersion":2,"mediaType":%q,"manifests":[{"mediaType":%q,"digest":%q,"size":%d}]}`, xt, mt, md, len(m)))
	xd := vh.DigestOf("sha256", x)
	xref := "bundle"
	if i%8 >= 4 {
		xref = xd
	}
	rs := vh.Do(srv, vh.Req{Method: "PUT", URL: "/v2/k/manifests/" + xref, H: map[string]string{"Content-Type": xt}, Body: x})
	r.Count("child_content_deleted_trials", 1)
	wit["status"] = rs.Status
	if rs.Status < 400 || rs.Status >= 500 {
		r.Violation("invalid-accepted:child-content-deleted", fmt.Sprintf("%s store: an index whose child manifest %s was pushed and then removed through the blob API (GET by digest: 404) was answered %d", kind, vh.Short(md), rs.Status), wit)
		return
	}
	if tagsAfter := string(vh.Do(srv, vh.Req{Method: "GET", URL: "/v2/k/tags/list"}).Body); tagsAfter != tagsBefore {
		r.Violation("refused-but-changed:child-content-deleted", fmt.Sprintf("%s store: the refused index changed the tag listing from %s to %s", kind, tagsBefore, tagsAfter), wit)
	}
	for _, u := range []string{"/v2/k/manifests/" + xd, "/v2/k/blobs/" + xd} {
		if st := vh.Do(srv, vh.Req{Method: "GET", URL: u, H: map[string]string{"Accept": vh.AcceptAll}}).Status; st != 404 {
			r.Violation("refused-but-changed:child-content-deleted", fmt.Sprintf("%s store: GET %s answers %d after the refusal", kind, u, st), wit)
		}
	}
}

func runHistory(r *vh.Run, i int) {
	rng := r.Rand(i)
	kind := []vh.StoreKind{vh.Mem, vh.Dir}[i%2]
	u := vh.GenUniverse(rng, vh.UOpts{Algs: i%5 == 0, Docker: i%3 == 0, Tag: fmt.Sprint(i)})
	root := ""
	if kind != vh.Mem {
		root = r.TempDir("c04")
		defer vh.RemoveAll(root)
	}
	srv := vh.New(vh.Conf(kind, root, vh.Neutral))
	defer srv.Close()
	w := vh.NewWorld(r, srv, u, kind, "r", "o")
	// repository state: empty / populated / referrer-heavy; the other repository holds what r may lack
	state := i % 3
	for _, b := range u.Blobs {
		if state > 0 && rng.Intn(4) > 0 {
			w.PushBlob("r", b)
		}
		if rng.Intn(2) == 0 {
			w.PushBlob("o", b)
		}
	}
	if state == 2 {
		for _, mm := range u.Mans {
			if w.Repos["r"].ValidRefs(mm) {
				w.PutManifest("r", mm, "")
			}
		}
	}
	for _, mm := range u.Mans {
		if w.Repos["o"].ValidRefs(mm) && rng.Intn(2) == 0 {
			w.PutManifest("o", mm, "")
		}
	}
	bad := false
	viol := func(sig, detail string, tc tcase) {
		bad = true
		tr := w.Trace
		if len(tr) > 40 {
			tr = tr[len(tr)-40:]
		}
		r.Violation(sig, detail, map[string]any{"history": i, "store": kind.String(), "class": tc.class, "content_type": tc.ct, "reference": tc.ref, "query": tc.query, "body": string(tc.body[:min(len(tc.body), 600)]), "trace": tr})
	}
	if ds := vh.Unknown(w.Compare("r", w.RealSnap("r"))); len(ds) > 0 {
		r.Count("foreign_setup_differences", 1)
		return
	}
	n := 25 + rng.Intn(20)
	for op := 0; op < n && !bad; op++ {
		if rng.Intn(8) == 0 {
			w.PushBlob("r", u.Blobs[rng.Intn(len(u.Blobs))])
			continue
		}
		if rng.Intn(10) == 0 {
			// remove referenced content through the blob API: a later push of the very same manifest is incomplete again
			mr := w.Repos["r"]
			var cands []string
			for d := range mr.Stored {
				if mr.Mans[d] == nil {
					cands = append(cands, d)
				}
			}
			if len(cands) > 0 {
				sort.Strings(cands)
				d := cands[rng.Intn(len(cands))]
				if rs, exp := w.DeleteBlob("r", d, w.NameOf(d)); rs.Status != exp {
					r.Count("foreign_blob_delete_status", 1)
					return
				}
				r.Count("blob_deletes", 1)
			}
			continue
		}
		tc := gen(rng, w, "r", op)
		m := w.Repos["r"]
		hd := map[string]string{}
		if tc.ct != "" {
			hd["Content-Type"] = tc.ct
		}
		us := "/v2/r/manifests/" + url.PathEscape(tc.ref)
		if tc.ref == "" || tc.ref == "." || tc.ref == ".." {
			us = "/v2/r/manifests/" + tc.ref
		}
		if tc.query != "" {
			us += "?" + tc.query
		}
		bodyD := vh.DigestOf("sha256", tc.body)
		storedBefore := m.Stored[bodyD] != nil
		rs := w.Do(vh.Req{Method: "PUT", URL: us, H: hd, Body: tc.body})
		w.T("PUT %s class=%s ct=%q -> %d", tc.ref, tc.class, tc.ct, rs.Status)
		r.Count("pushes", 1)
		r.Count("class_"+tc.class, 1)
		r.Distinct("classes", fmt.Sprintf("%s/state%d/%s", tc.class, state, map[bool]string{true: "tag", false: "digest"}[tc.tag != ""]))
		accepted := rs.Status == 201
		switch {
		case tc.must == 1 && !accepted:
			viol("valid-refused:"+tc.class, fmt.Sprintf("valid manifest %s (%s) pushed as %q answered %d: %.200s", tc.mm.Name, tc.mm.MT, tc.ref, rs.Status, rs.Body), tc)
		case tc.must == -1 && accepted:
			viol("invalid-accepted:"+tc.class, fmt.Sprintf("manifest push of class %s (reference %q, Content-Type %q) was acknowledged with 201", tc.class, tc.ref, tc.ct), tc)
		case tc.must == -1 && (rs.Status < 400 || rs.Status >= 500):
			viol("refusal-not-4xx:"+tc.class, fmt.Sprintf("manifest push of class %s answered %d%s", tc.class, rs.Status, firstLine(rs.Panic)), tc)
		case !accepted && (rs.Status < 400 || rs.Status >= 500):
			viol("refusal-not-4xx:"+tc.class, fmt.Sprintf("manifest push of class %s answered %d%s", tc.class, rs.Status, firstLine(rs.Panic)), tc)
		}
		if bad {
			break
		}
		if accepted {
			r.Count("accepted", 1)
			// effect on the model: exactly the manifest (+tag)
			mm := tc.mm
			if string(tc.body) != string(mm.Raw) {
				bad = true // cannot happen: every accepted class pushes mm.Raw
				break
			}
			if mm.Index {
				for _, c := range mm.Refs {
					if m.Mans[c] != nil && c != mm.D {
						tagged := false
						for tg, d := range m.Tags {
							if d == c && tg != tc.tag {
								tagged = true
							}
						}
						if !tagged {
							m.Adopted[c] = true
						}
					}
				}
			}
			m.Mans[mm.D] = mm
			m.Stored[mm.D] = mm.Raw
			if tc.tag != "" {
				m.Tags[tc.tag] = mm.D
			}
		} else {
			r.Count("refused", 1)
			if !storedBefore {
				// the refused body must not have become a blob
				for _, p := range []string{"blobs", "manifests"} {
					g := w.Do(vh.Req{Method: "HEAD", URL: "/v2/r/" + p + "/" + bodyD, H: map[string]string{"Accept": vh.AcceptAll}})
					if g.Status == 200 {
						viol("refused-body-stored:"+tc.class, fmt.Sprintf("the body of a refused push (class %s) is retrievable under %s/%s", tc.class, p, vh.Short(bodyD)), tc)
					}
				}
			}
		}
		if bad {
			break
		}
		ds := vh.Unknown(w.Compare("r", w.RealSnap("r")))
		r.Count("snapshots_compared", 1)
		if len(ds) > 0 {
			what := "after an acknowledged push the state differs from 'exactly this manifest added'"
			if !accepted {
				what = "a refused push changed the observable state"
			}
			var ss []string
			for _, d := range ds {
				ss = append(ss, d.String())
			}
			sort.Strings(ss)
			viol(map[bool]string{true: "accepted-side-effect:", false: "refused-side-effect:"}[accepted]+tc.class, what+": "+strings.Join(ss, "; "), tc)
		}
		// the other repository is never affected
		if !bad && op%6 == 0 {
			if ds := vh.Unknown(w.Compare("o", w.RealSnap("o"))); len(ds) > 0 {
				viol("other-repository-changed", ds[0].String(), tc)
			}
		}
	}
	r.Count("histories", 1)
	r.Count("requests", w.Reqs)
	if i < 2 {
		tr := w.Trace
		if len(tr) > 40 {
			tr = tr[len(tr)-25:]
		}
		r.Sample(map[string]any{"history": i, "store": kind.String(), "last_operations": tr})
	}
}

func firstLine(s string) string {
	if s == "" {
		return ""
	}
	if i := strings.IndexByte(s, '\n'); i >= 0 {
		return " panic: " + s[:i]
	}
	return " panic: " + s
}

func main() {
	r := vh.Start()
	n := r.N(200, 8000)
	vh.Parallel(n, 16, func(i int) { runHistory(r, i) })
	nk := r.N(12, 120)
	vh.Parallel(nk, 8, func(i int) { childOnlyAsBlob(r, i) })
	vh.Parallel(nk, 8, func(i int) { childContentDeleted(r, i) })
	vh.Parallel(nk, 8, func(i int) { refusedIntoFresh(r, i) })
	r.Require("refused_into_fresh_trials", int64(nk))
	r.Require("child_content_deleted_trials", int64(nk/2))
	r.Require("child_only_as_blob_trials", int64(nk*3/4))
	r.Require("histories", int64(n))
	r.Require("accepted", 300)
	r.Require("refused", 300)
	r.RequireDistinct("classes", 40)
	r.Finish("histories of 25-45 manifest pushes: valid manifests and 15 mutation classes (truncated, a missing layer that names download urls, an unsupported media type in the body with no Content-Type, references with a malformed digest, not JSON, unsupported / parameterised / absent / inconsistent Content-Type, shape inconsistent with type, hostile reference, digest mismatch in path or parameter, extra or missing references, references only in another repository) into empty, populated and referrer-heavy repositories, both stores; complete snapshot compared after every push; plus directed trials in which the children of an index exist only as blobs uploaded through the blob API (recorded finding K12), and directed trials in which a refused push names a repository that does not exist (directory store and memory store over a directory: no directory of that name may remain); a case is one push, distinct = (class, repository state, by tag/digest)", "pushes", "classes")
}
