// C09: a crash at any filesystem step loses nothing acknowledged and tears nothing.
//
// Build variant "vfs": every filesystem call of internal/store goes through the os shim.  A sequential history
// (blob uploads, chunked uploads, manifest pushes incl. first push to a new repository and nested names, tag
// moves, deletes, pushes/deletes with subject, collections) runs on a directory store; at every mutating call -
// before it, in the middle of a write, and after the last call of each request - the monitor copies the root
// directory: in the process-crash model (completed syscalls are durable, os.File has no user-space buffer) that
// copy is exactly the disk a kill -9 at that instant leaves.  Every image is then opened by a fresh server and
// judged by the recovery oracle of DESIGN Appendix C.
package main

import (
	"context"
	"fmt"
	"io"
	"os"
	"path/filepath"
	"sort"
	"strings"
	"sync"

	"github.com/olareg/olareg/internal/verif/vfs"
	"github.com/olareg/olareg/internal/verif/vh"
)

type image struct {
	dir   string
	op    int    // index of the request in flight (1-based); images after request j have op=j, quiescent=true
	ev    string // the filesystem event at which it was taken
	quiet bool
}

func copyTree(src, dst string) error {
	return filepath.Walk(src, func(p string, fi os.FileInfo, err error) error {
		if err != nil {
			return nil // a file may vanish between listing and copying only if the store runs concurrently; it does not
		}
		rel, _ := filepath.Rel(src, p)
		t := filepath.Join(dst, rel)
		if fi.IsDir() {
			return os.MkdirAll(t, 0o755)
		}
		in, err := os.Open(p)
		if err != nil {
			return nil
		}
		defer in.Close()
		out, err := os.Create(t)
		if err != nil {
			return err
		}
		_, err = io.Copy(out, in)
		_ = out.Close()
		return err
	})
}

type opRec struct {
	desc    string
	kind    string // blob | chunked | put | deltag | deldig | delblob | gc
	subject string // for manifest put / delete with subject
	k5      bool   // put of a manifest that was deleted by digest while a stored index still lists it (recorded finding K5)
	man     string // manifest digest concerned
	writes  map[string]bool
	repo    string
	// the effect the client was told about (set only when the request was acknowledged): after a crash at the very
	// next quiescent point it must be in effect
	ackTag  string // "tag" was acknowledged to ...
	ackTagD string // ... resolve to this digest ("" = deleted)
	ackBlob string // this content was acknowledged as stored
}

func cloneSnap(s vh.Snap) vh.Snap {
	c := vh.Snap{Tags: append([]string{}, s.Tags...), TagD: map[string]string{}, Man: map[string]string{}, Ref: map[string][]string{}, Blob: map[string]bool{}}
	for k, v := range s.TagD {
		c.TagD[k] = v
	}
	for k, v := range s.Man {
		c.Man[k] = v
	}
	for k, v := range s.Ref {
		c.Ref[k] = append([]string{}, v...)
	}
	for k, v := range s.Blob {
		c.Blob[k] = v
	}
	return c
}

// diffState compares the crash-recovered observation with a model state; blobs one-sided (see Appendix C).
func diffState(w *vh.World, obs, s vh.Snap, lower vh.Snap, extra map[string]bool) []string {
	var out []string
	if fmt.Sprint(obs.Tags) != fmt.Sprint(s.Tags) {
		out = append(out, fmt.Sprintf("tags %v, specification %v", obs.Tags, s.Tags))
	}
	for t, d := range s.TagD {
		if obs.TagD[t] != d {
			out = append(out, fmt.Sprintf("tag %s -> %s, specification %s", t, w.NameOf(obs.TagD[t]), w.NameOf(d)))
		}
	}
	for d, v := range s.Man {
		if obs.Man[d] != v {
			out = append(out, fmt.Sprintf("manifest %s %s, specification %s", w.NameOf(d), obs.Man[d], v))
		}
	}
	for sj, v := range s.Ref {
		if fmt.Sprint(obs.Ref[sj]) != fmt.Sprint(v) {
			out = append(out, fmt.Sprintf("referrers(%s) %s, specification %s", w.NameOf(sj), w.NamesOf(obs.Ref[sj]), w.NamesOf(v)))
		}
	}
	for d, v := range lower.Blob {
		if v && !obs.Blob[d] {
			out = append(out, fmt.Sprintf("content %s acknowledged before the crash is gone", w.NameOf(d)))
		}
	}
	for d, v := range obs.Blob {
		if v && !s.Blob[d] && !lower.Blob[d] && !extra[d] {
			out = append(out, fmt.Sprintf("content %s is stored although no acknowledged or in-flight request wrote it", w.NameOf(d)))
		}
	}
	sort.Strings(out)
	return out
}

func batch(r *vh.Run, i int) {
	rng := r.Rand(i)
	base := r.TempDir("c09")
	defer vh.RemoveAll(base)
	root := filepath.Join(base, "root")
	imgs := filepath.Join(base, "img")
	_ = os.MkdirAll(root, 0o755)
	_ = os.MkdirAll(imgs, 0o755)
	pol := vh.Neutral
	gcPol := vh.Policy{Untagged: true, Dangling: true, WithSubj: true, Grace: -1}
	withGC := i%3 == 2
	if withGC {
		pol = gcPol
	}
	uo := vh.UOpts{Tag: fmt.Sprint(i), Algs: i%4 == 0, NArtifact: 3 + rng.Intn(2)}
	if withGC && (i/3)%2 == 0 {
		uo.NIndexes = 4 // (the scripted opening below needs two indexes over plain images)
	}
	u := vh.GenUniverse(rng, uo)
	srv := vh.New(vh.Conf(vh.Dir, root, pol))
	repos := []string{"r", "n/r"}
	w := vh.NewWorld(r, srv, u, vh.Dir, repos...)

	var mu sync.Mutex
	var images []image
	cur := 0
	nev := 0
	take := func(ev string, quiet bool) {
		d := filepath.Join(imgs, fmt.Sprintf("%05d", len(images)))
		if err := copyTree(root, d); err != nil {
			return
		}
		images = append(images, image{dir: d, op: cur, ev: ev, quiet: quiet})
	}
	unreg := vfs.Register(root, func(ev vfs.Event) {
		if !ev.Mutating {
			return
		}
		mu.Lock()
		defer mu.Unlock()
		nev++
		r.Distinct("fs_op_kinds", ev.Op)
		if ev.Phase == "before" || ev.Phase == "mid" {
			take(fmt.Sprintf("%s %s of %s", ev.Phase, ev.Op, strings.TrimPrefix(ev.Path, root)), false)
		}
	})
	// ---- the history
	mu.Lock()
	take("before the first request", true) // quiescent image 0: the empty root
	mu.Unlock()
	var ops []opRec
	snaps := map[int]map[string]vh.Snap{0: {}}
	for _, rp := range repos {
		snaps[0][rp] = cloneSnap(w.ModelSnap(rp))
	}
	nops := 15 + rng.Intn(20)
	// a scripted opening for a sixth of the histories: two image indexes in one repository, the first untagged, the
	// second tagged, then a collection - its crash images hold an index.json that still lists the removed index
	// ahead of the retained one
	type forced struct {
		k   int
		b   *vh.Blob
		mm  *vh.Man
		tag string
	}
	var script []forced
	if withGC && (i/3)%2 == 0 {
		var idx []*vh.Man
		for _, mm := range u.Mans {
			if mm.Index && mm.Subject == "" && len(mm.Refs) > 0 {
				plain := true
				for _, c := range mm.Refs {
					if cm := u.ByD[c]; cm == nil || cm.Index {
						plain = false
					}
				}
				if plain {
					idx = append(idx, mm)
				}
			}
		}
		if len(idx) >= 2 {
			for _, b := range u.Blobs {
				script = append(script, forced{k: 0, b: b})
			}
			done := map[string]bool{}
			for _, x := range idx[:2] {
				for _, c := range x.Refs {
					if !done[c] {
						done[c] = true
						script = append(script, forced{k: 5, mm: u.ByD[c]})
					}
				}
			}
			script = append(script, forced{k: 5, mm: idx[0]}, forced{k: 5, mm: idx[1], tag: u.Tags[0]}, forced{k: 19})
			if nops < len(script)+5 {
				nops = len(script) + 5
			}
			r.Count("scripted_two_index_collections", 1)
		}
	}
	for j := 1; j <= nops; j++ {
		mu.Lock()
		cur = j
		mu.Unlock()
		repo := repos[0]
		if rng.Intn(4) == 0 {
			repo = repos[1]
		}
		var f *forced
		if j <= len(script) {
			f = &script[j-1]
			repo = repos[0]
		}
		m := w.Repos[repo]
		rec := opRec{repo: repo, writes: map[string]bool{}}
		k := rng.Intn(20)
		if f != nil {
			k = f.k
		}
		switch {
		case k < 5:
			b := u.Blobs[rng.Intn(len(u.Blobs))]
			if f != nil {
				b = f.b
			}
			rec.kind, rec.desc = "blob", "blob "+b.Name
			rec.writes[b.D] = true
			if rng.Intn(3) == 0 && f == nil {
				// chunked: POST, PATCH, PUT
				rec.kind = "chunked"
				rs := w.Do(vh.Req{Method: "POST", URL: "/v2/" + repo + "/blobs/uploads/"})
				loc := rs.H.Get("Location")
				half := len(b.B) / 2
				if rs.Status == 202 && loc != "" {
					p := w.Do(vh.Req{Method: "PATCH", URL: loc, H: map[string]string{"Content-Range": fmt.Sprintf("0-%d", half-1)}, Body: b.B[:half]})
					if p.Status == 202 {
						f := w.Do(vh.Req{Method: "PUT", URL: p.H.Get("Location") + "&digest=" + b.D, Body: b.B[half:]})
						if f.Status == 201 {
							m.Stored[b.D] = b.B
							rec.ackBlob = b.D
						}
					}
				}
				w.T("chunked blob %s/%s", repo, b.Name)
			} else if w.PushBlob(repo, b).Status == 201 {
				rec.ackBlob = b.D
			}
		case k < 12:
			mm := u.Mans[rng.Intn(len(u.Mans))]
			tag := ""
			if rng.Intn(2) == 0 {
				tag = u.Tags[rng.Intn(len(u.Tags))]
			}
			if f != nil {
				mm, tag = f.mm, f.tag
			}
			rec.kind, rec.desc, rec.subject, rec.man = "put", "put "+mm.Name+" as "+tag, mm.Subject, mm.D
			rec.k5 = w.K5Entry(repo, mm.D)
			rec.writes[mm.D] = true
			rs, ok := w.PutManifest(repo, mm, tag)
			if (rs.Status == 201) != ok {
				r.Count("foreign_put_status", 1)
			}
			if rs.Status == 201 && tag != "" {
				rec.ackTag, rec.ackTagD = tag, mm.D
			}
		case k < 14:
			tag := u.Tags[rng.Intn(len(u.Tags))]
			rec.kind, rec.desc = "deltag", "deltag "+tag
			if rs, _ := w.DeleteTag(repo, tag); rs.Status == 202 {
				rec.ackTag, rec.ackTagD = tag, ""
			}
		case k < 17:
			var ds []string
			for d := range m.Mans {
				ds = append(ds, d)
			}
			if len(ds) == 0 {
				rec.kind, rec.desc = "noop", "noop"
				break
			}
			sort.Strings(ds)
			mm := m.Mans[ds[rng.Intn(len(ds))]]
			rec.kind, rec.desc, rec.subject, rec.man = "deldig", "deldig "+mm.Name, mm.Subject, mm.D
			w.DeleteManifest(repo, mm)
		case k < 18:
			var cands []string
			for d := range m.Stored {
				if m.Mans[d] == nil {
					cands = append(cands, d)
				}
			}
			if len(cands) == 0 {
				rec.kind, rec.desc = "noop", "noop"
				break
			}
			sort.Strings(cands)
			d := cands[rng.Intn(len(cands))]
			rec.kind, rec.desc = "delblob", "delblob "+w.NameOf(d)
			w.DeleteBlob(repo, d, w.NameOf(d))
		default:
			if !withGC {
				rec.kind, rec.desc = "noop", "noop"
				break
			}
			rec.kind, rec.desc = "gc", "GC"
			_ = srv.VerifGC(context.Background(), repo)
			w.T("GC %s", repo)
			// the model adopts what the collection did (judged by C05/C06, not here)
			real := w.RealSnap(repo)
			for _, mm := range u.Mans {
				if real.Man[mm.D] != "ok" && m.Mans[mm.D] != nil {
					delete(m.Mans, mm.D)
				} else if real.Man[mm.D] == "ok" && m.Mans[mm.D] == nil {
					m.Mans[mm.D] = mm
				}
			}
			for d := range m.Stored {
				if got, kn := real.Blob[d]; kn && !got {
					delete(m.Stored, d)
				}
			}
		}
		ops = append(ops, rec)
		snaps[j] = map[string]vh.Snap{}
		for _, rp := range repos {
			snaps[j][rp] = cloneSnap(w.ModelSnap(rp))
		}
		mu.Lock()
		take("after request "+rec.desc, true)
		mu.Unlock()
	}
	unreg()
	_ = srv.Close()
	r.Count("histories", 1)
	r.Count("requests_in_histories", nops)
	mu.Lock()
	r.Count("fs_mutating_events", nev)
	mu.Unlock()

	// ---- judge every image
	// Reference observations: what a fresh server reports on the quiescent images (the disk at the moments requests
	// had been acknowledged).  A crash image must be observationally equal to the quiescent image before or after the
	// request in flight; whether a quiescent image itself equals the API state is restart equivalence (C10).
	observe := func(dir string) (map[string]vh.Snap, map[string][]string) {
		rsrv := vh.New(vh.Conf(vh.Dir, dir, vh.Neutral))
		rw := vh.NewWorld(r, rsrv, u, vh.Dir, repos...)
		o := map[string]vh.Snap{}
		pr := map[string][]string{}
		for _, rp := range repos {
			o[rp] = rw.RealSnap(rp)
			pr[rp] = vh.ValidateLayout(filepath.Join(dir, rp))
		}
		_ = rsrv.Close()
		return o, pr
	}
	quietObs := map[int]map[string]vh.Snap{}
	quietProb := map[int]map[string][]string{}
	for _, im := range images {
		if im.quiet {
			// observe a private copy: the recovery server's own Close must not touch the image judged later
			tmp := im.dir + ".q"
			_ = copyTree(im.dir, tmp)
			quietObs[im.op], quietProb[im.op] = observe(tmp)
			_ = os.RemoveAll(tmp)
		}
	}
	trace := w.Trace
	// (1) "every push, tag move or delete that had been acknowledged before the crash is still in effect": the effect of
	// request j itself, looked up in the reopened quiescent image taken right after it (narrow on purpose: whether the
	// rest of a quiescent disk equals the API state is restart equivalence, C10)
	for j, rec := range ops {
		q, ok := quietObs[j+1][rec.repo]
		if !ok {
			continue
		}
		wit := map[string]any{"batch": i, "request_index": j + 1, "request": rec.desc, "history": trace}
		if rec.ackTag != "" {
			r.Count("acknowledged_effects_checked", 1)
			if got := q.TagD[rec.ackTag]; got != rec.ackTagD {
				what := "resolves to " + vh.Short(got)
				if got == "" {
					what = "does not resolve"
				}
				want := "resolve to " + vh.Short(rec.ackTagD)
				if rec.ackTagD == "" {
					want = "be gone"
				}
				r.Violation("acknowledged-lost:"+rec.kind, fmt.Sprintf("request %d (%s) was acknowledged; in the directory as it is right after the request, opened by a new server, tag %s %s (it should %s)", j+1, rec.desc, rec.ackTag, what, want), wit)
			}
		}
		if rec.ackBlob != "" {
			r.Count("acknowledged_effects_checked", 1)
			if got, known := q.Blob[rec.ackBlob]; known && !got {
				r.Violation("acknowledged-lost:"+rec.kind, fmt.Sprintf("request %d (%s) was acknowledged; in the directory as it is right after the request, opened by a new server, the content is not served", j+1, rec.desc), wit)
			}
		}
	}
	has := func(l []string, x string) bool {
		for _, y := range l {
			if y == x {
				return true
			}
		}
		return false
	}
	for k, im := range images {
		if im.op == 0 {
			_ = os.RemoveAll(im.dir)
			continue
		}
		rec := ops[im.op-1]
		wit := map[string]any{"batch": i, "image": k, "taken": im.ev, "in_flight": rec.desc, "request_index": im.op, "history": trace}
		viol := func(sig, detail string) {
			r.Violation(sig, fmt.Sprintf("crash image %d (%s, request %d = %s in flight): %s", k, im.ev, im.op, rec.desc, detail), wit)
		}
		// (2) blob files hash to their names, index.json parses, entries are backed - unless the quiescent disk before or
		// after the request has the very same problem (then it is not the crash that caused it)
		for _, rp := range repos {
			for _, p := range vh.ValidateLayout(filepath.Join(im.dir, rp)) {
				if strings.Contains(p, "temporary index file") || strings.Contains(p, "oci-layout missing") {
					continue // volatile leftovers and a repository directory in the making are not state
				}
				if strings.Contains(p, "index.json missing") {
					if _, err := os.Stat(filepath.Join(im.dir, rp, "index.json")); err != nil {
						continue // not created yet
					}
				}
				if has(quietProb[im.op-1][rp], p) || has(quietProb[im.op][rp], p) {
					continue
				}
				if rec.kind == "gc" && strings.Contains(p, "index entry without blob") {
					continue // a collection in flight removes the content of garbage before its entry: garbage partly gone, tags are checked below
				}
				f := strings.Fields(p)
				viol("image:"+strings.Join(f[:min(3, len(f))], "-"), p+" in "+rp)
			}
		}
		rsrv := vh.New(vh.Conf(vh.Dir, im.dir, vh.Neutral))
		rw := vh.NewWorld(r, rsrv, u, vh.Dir, repos...)
		for _, rp := range repos {
			obs := rw.RealSnap(rp)
			r.Count("images_x_repos_checked", 1)
			// (1) no 5xx, content intact
			for _, p := range obs.Prob {
				if !has(quietObs[im.op-1][rp].Prob, p) && !has(quietObs[im.op][rp].Prob, p) {
					viol("recovery:damaged", rp+": "+p)
				}
			}
			for d, v := range obs.Man {
				if strings.HasPrefix(v, "status") {
					viol("recovery:"+v, fmt.Sprintf("%s: manifest %s answers %s", rp, w.NameOf(d), v))
				}
			}
			for t, v := range obs.TagD {
				if strings.HasPrefix(v, "status") {
					viol("recovery:"+v, fmt.Sprintf("%s: tag %s answers %s", rp, t, v))
				}
			}
			before, after := quietObs[im.op-1][rp], quietObs[im.op][rp]
			extra := map[string]bool{}
			if rp == rec.repo {
				extra = rec.writes
			}
			if im.quiet {
				before = after
			}
			var dB, dA []string
			if rec.kind == "gc" && rp == rec.repo && !im.quiet {
				dB = diffGC(w, obs, before, after)
				dA = dB
			} else {
				dB = diffState(w, obs, before, before, extra)
				dA = diffState(w, obs, after, before, extra)
				if rec.kind == "delblob" || rec.kind == "deldig" || rec.kind == "deltag" {
					dA = diffState(w, obs, after, after, extra)
				}
			}
			switch {
			case len(dB) == 0:
				r.Count("images_equal_to_before", 1)
			case len(dA) == 0:
				r.Count("images_equal_to_after", 1)
			case rec.subject != "" && (onlyRefLag(dB, w.NameOf(rec.subject)) || onlyRefLag(dA, w.NameOf(rec.subject))):
				// K2: a request with subject performs two index writes; between them only referrers(subject) lags by the manifest
				r.Violation("K2:torn-subject-op", fmt.Sprintf("crash image %d (%s, request %s in flight): %v", k, im.ev, rec.desc, dA), wit)
			case rec.k5 && onlyManServed(dB, w.NameOf(rec.man)):
				// K5 at a crash point: the manifest had been deleted by digest while a stored index went on listing it.
				// The re-push has put its bytes back (the blob is renamed into place before the index is written); a
				// process that dies right there leaves a directory whose reload serves the manifest through that index -
				// before its own entry and tag exist
				r.Violation("K5:crash-image-repush", fmt.Sprintf("crash image %d (%s, request %s in flight): %v", k, im.ev, rec.desc, dB), wit)
			default:
				short := dA
				if len(dB) < len(dA) {
					short = dB
				}
				viol("torn:"+rec.kind, fmt.Sprintf("%s is neither the recovered state before nor after the request: %s", rp, strings.Join(short, "; ")))
			}
			// (3) every tag pulls as completely as on the quiescent disk before the request
			for t, d := range obs.TagD {
				if d == "" || strings.HasPrefix(d, "status") {
					continue
				}
				if p := pull(rw, rp, d, map[string]bool{}, before); p != "" {
					viol("recovery:tag-incomplete", fmt.Sprintf("%s: tag %s: %s", rp, t, p))
				}
			}
		}
		if strings.Contains(im.ev, "mid ") {
			r.Count("partial_write_images", 1)
		}
		r.Distinct("crash_points", fmt.Sprintf("%s|%s", rec.kind, generalize(im.ev)))
		// (5) one collection pass on the image, then everything read is still intact
		if k%3 == 0 {
			for _, rp := range repos {
				_ = rsrv.VerifGC(context.Background(), rp)
				obs2 := rw.RealSnap(rp)
				for _, p := range obs2.Prob {
					if !has(quietObs[im.op-1][rp].Prob, p) && !has(quietObs[im.op][rp].Prob, p) {
						viol("recovery-gc:damaged", rp+": "+p)
					}
				}
			}
		}
		_ = rsrv.Close()
		// (6) life goes on after the recovery: a push into each repository of the recovered directory, a clean stop,
		// another start - whatever the crash left half-made (a repository in the making is tolerated above) must have
		// been completed by then: the push is served and the directory is a valid layout
		if k%4 == 1 {
			s6 := vh.New(vh.Conf(vh.Dir, im.dir, vh.Neutral))
			nb := &vh.Blob{Name: "after", B: []byte(fmt.Sprintf(`{"after":"recovery","b":%d,"k":%d}`, i, k))}
			nb.D = vh.DigestOf("sha256", nb.B)
			nm := vh.MkImage("after", "sha256", vh.MTImage, nb, vh.MTConfig, nil, "", "", map[string]string{"k": fmt.Sprint(i, ".", k)})
			acked := map[string]bool{}
			for _, rp := range repos {
				b1 := vh.Do(s6, vh.Req{Method: "POST", URL: "/v2/" + rp + "/blobs/uploads/?digest=" + nb.D, Body: nb.B})
				m1 := vh.Do(s6, vh.Req{Method: "PUT", URL: "/v2/" + rp + "/manifests/after-recovery", H: map[string]string{"Content-Type": nm.MT}, Body: nm.Raw})
				acked[rp] = b1.Status == 201 && m1.Status == 201
				if b1.Status >= 500 || m1.Status >= 500 {
					viol("recovery:push-5xx", fmt.Sprintf("%s: a push into the recovered directory answers %d / %d", rp, b1.Status, m1.Status))
				}
			}
			_ = s6.Close()
			s7 := vh.New(vh.Conf(vh.Dir, im.dir, vh.Neutral))
			for _, rp := range repos {
				if !acked[rp] {
					continue
				}
				r.Count("pushes_after_recovery_verified", 1)
				g := vh.Do(s7, vh.Req{Method: "GET", URL: "/v2/" + rp + "/manifests/after-recovery", H: map[string]string{"Accept": vh.AcceptAll}})
				gb := vh.Do(s7, vh.Req{Method: "GET", URL: "/v2/" + rp + "/blobs/" + nb.D})
				if g.Status != 200 || string(g.Body) != string(nm.Raw) || gb.Status != 200 {
					viol("recovery:later-push-lost", fmt.Sprintf("%s: an image pushed (201) into the recovered directory is not served after a clean restart: manifest %d, blob %d", rp, g.Status, gb.Status))
				}
				for _, p := range vh.ValidateLayout(filepath.Join(im.dir, rp)) {
					if strings.Contains(p, "temporary index file") || has(quietProb[im.op-1][rp], p) || has(quietProb[im.op][rp], p) {
						continue
					}
					viol("recovery:layout-after-later-push", fmt.Sprintf("%s: after a push into the recovered directory and a clean restart the directory is not a valid layout: %s", rp, p))
				}
			}
			_ = s7.Close()
		}
		_ = os.RemoveAll(im.dir)
		r.Count("images_checked", 1)
		if i == 0 && k < 4 {
			r.Sample(map[string]any{"batch": i, "image": k, "taken": im.ev, "in_flight": rec.desc})
		}
	}
}

func generalize(ev string) string {
	// "before rename of /r/index.json.123" -> "before rename index.json.*"
	f := strings.Fields(ev)
	if len(f) < 4 {
		return ev
	}
	p := f[len(f)-1]
	b := filepath.Base(p)
	switch {
	case strings.HasPrefix(b, "index.json."):
		b = "index.json.tmp"
	case strings.HasPrefix(b, "upload."):
		b = "upload.tmp"
	case len(b) >= 64:
		b = "blob"
	}
	return strings.Join(f[:len(f)-2], " ") + " " + b
}

// onlyManServed: the only difference to the state before the request is that the manifest is served by digest.
func onlyManServed(diffs []string, name string) bool {
	if len(diffs) == 0 {
		return false
	}
	for _, d := range diffs {
		if !strings.HasPrefix(d, "manifest "+name+" ok, specification") {
			return false
		}
	}
	return true
}

func onlyRefLag(diffs []string, subjName string) bool {
	if len(diffs) == 0 {
		return false
	}
	for _, d := range diffs {
		if !strings.HasPrefix(d, "referrers("+subjName+")") {
			return false
		}
	}
	return true
}

// diffGC: oracle for an image taken while a collection was in flight.
func diffGC(w *vh.World, obs, before, after vh.Snap) []string {
	var out []string
	for t, d := range before.TagD {
		if obs.TagD[t] != d {
			out = append(out, fmt.Sprintf("tag %s -> %s, before the collection %s", t, w.NameOf(obs.TagD[t]), w.NameOf(d)))
		}
	}
	for d, v := range obs.Man {
		if v == "ok" && before.Man[d] != "ok" && after.Man[d] != "ok" {
			out = append(out, fmt.Sprintf("manifest %s appeared during a collection", w.NameOf(d)))
		}
		if v != "ok" && before.Man[d] == "ok" && after.Man[d] == "ok" {
			out = append(out, fmt.Sprintf("manifest %s, kept by the collection, is gone in the image", w.NameOf(d)))
		}
	}
	for d, v := range before.Blob {
		if v && after.Blob[d] && !obs.Blob[d] {
			out = append(out, fmt.Sprintf("content %s, kept by the collection, is gone in the image", w.NameOf(d)))
		}
	}
	sort.Strings(out)
	return out
}

// pull fetches a manifest and everything it references from the recovered server; "" if complete.
func pull(w *vh.World, repo, d string, seen map[string]bool, lower vh.Snap) string {
	if seen[d] {
		return ""
	}
	seen[d] = true
	mm := w.U.ByD[d]
	if mm == nil {
		return ""
	}
	rs := w.Do(vh.Req{Method: "GET", URL: "/v2/" + repo + "/manifests/" + d, H: map[string]string{"Accept": vh.AcceptAll}})
	if rs.Status != 200 || string(rs.Body) != string(mm.Raw) {
		return fmt.Sprintf("manifest %s answers %d", mm.Name, rs.Status)
	}
	for _, rf := range mm.Refs {
		if !lower.Blob[rf] {
			continue // not stored before the request in flight (never pushed, or deleted by a client): cannot be demanded
		}
		if c := w.U.ByD[rf]; c != nil && mm.Index {
			if lower.Man[rf] != "ok" {
				continue
			}
			if p := pull(w, repo, rf, seen, lower); p != "" {
				return p
			}
			continue
		}
		bs := w.Do(vh.Req{Method: "HEAD", URL: "/v2/" + repo + "/blobs/" + rf})
		if bs.Status != 200 {
			return fmt.Sprintf("%s referenced by %s answers %d", w.NameOf(rf), mm.Name, bs.Status)
		}
	}
	return ""
}

func main() {
	r := vh.Start()
	n := r.N(48, 1500)
	vh.Parallel(n, 16, func(i int) { batch(r, i) })
	r.Require("histories", int64(n))
	r.Require("images_checked", int64(n*60))
	r.Require("partial_write_images", int64(n*8))
	r.RequireDistinct("crash_points", 25)
	r.Finish("sequential histories of 15-35 requests (monolithic and chunked blob uploads, manifest pushes by tag/digest incl. first push to a new and to a nested repository, tag moves, tag/digest/blob deletes, pushes and deletes with subject, collections in every third history) on a directory store whose filesystem calls go through the os shim; one crash image per mutating call (before it), per write (in the middle) and per request (after it); every image reopened by a fresh server and judged: blob files hash to their names, index parses, no 5xx, state equals before or after the in-flight request (blobs one-sided), every tag pulls completely, a collection pass on the image keeps that; exhaustive over the crash points of the explored histories; a case is one image, distinct = (request kind, call, file kind) crash points", "images_checked", "crash_points")
}
