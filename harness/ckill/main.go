// ckill: the thorough-tier, instrumentation-independent companion of C09's crash-image enumeration.
//
// The crash images of c09 are copies taken by an os shim inside the process; what they assume is that "the
// process dies between two filesystem operations" leaves exactly the files the completed operations produced.
// Here the real `olareg serve` binary (built by the driver from /repo, no overlay, no tag) runs under strace with
// an injection rule that delivers SIGKILL at the entry of the N-th file-changing system call of a thread
// (rename / unlink / mkdir / openat ...).  A sequential history is sent over loopback HTTP until the server is gone;
// then a fresh in-process server opens the directory and the recovery oracle of C09 is applied: the repository loads,
// every blob file hashes to its name, index.json is a valid layout, every tag resolves and pulls completely, every
// operation acknowledged before the kill is in effect, and the operation in flight is either absent or present as a
// whole (the snapshot equals the model before it or the model after it).
//
// The history uses blobs, plain images pushed by tag, tag moves and tag deletes only - requests whose effect is one
// index write - so that no recorded finding (K1/K2/K5) can blur the verdict.
package main

import (
	"bytes"
	"crypto/sha256"
	"crypto/sha512"
	"encoding/hex"
	"fmt"
	"io"
	"net"
	"net/http"
	"os"
	"os/exec"
	"path/filepath"
	"sort"
	"strings"
	"syscall"
	"time"

	"github.com/olareg/olareg/internal/verif/vh"
)

func freePort() int {
	l, err := net.Listen("tcp", "127.0.0.1:0")
	if err != nil {
		return 0
	}
	defer l.Close()
	return l.Addr().(*net.TCPAddr).Port
}

// proxy forwards to the traced server; a transport error is answered 597 (the server is gone or going).
type proxy struct {
	port int
	c    *http.Client
}

func (p proxy) ServeHTTP(w http.ResponseWriter, r *http.Request) {
	b, _ := io.ReadAll(r.Body)
	out, err := http.NewRequest(r.Method, fmt.Sprintf("http://127.0.0.1:%d%s", p.port, r.RequestURI), bytes.NewReader(b))
	if err != nil {
		w.WriteHeader(598)
		return
	}
	for k, v := range r.Header {
		out.Header[k] = v
	}
	rs, err := p.c.Do(out)
	if err != nil {
		w.WriteHeader(597)
		return
	}
	defer rs.Body.Close()
	body, err := io.ReadAll(rs.Body)
	if err != nil {
		w.WriteHeader(597)
		return
	}
	for k, v := range rs.Header {
		w.Header()[k] = v
	}
	w.WriteHeader(rs.StatusCode)
	_, _ = w.Write(body)
}

func hashFile(alg string, b []byte) string {
	switch alg {
	case "sha256":
		s := sha256.Sum256(b)
		return hex.EncodeToString(s[:])
	case "sha384":
		s := sha512.Sum384(b)
		return hex.EncodeToString(s[:])
	case "sha512":
		s := sha512.Sum512(b)
		return hex.EncodeToString(s[:])
	}
	return ""
}

func trial(r *vh.Run, bin string, i int) {
	rng := r.Rand(i)
	outer := r.TempDir("ck")
	defer vh.RemoveAll(outer)
	root := filepath.Join(outer, "root")
	_ = os.MkdirAll(root, 0o755)
	u := vh.GenUniverse(rng, vh.UOpts{Tag: fmt.Sprint("k", i), Algs: i%3 == 0, NIndexes: 1, NArtifact: 1})
	var images []*vh.Man
	for _, mm := range u.Mans {
		if !mm.Index && mm.Subject == "" {
			images = append(images, mm)
		}
	}
	if len(images) == 0 {
		return
	}
	port := freePort()
	// the kill point: the N-th matching call of a thread; small N kills during the first pushes, large N later
	// (strace counts per thread and the Go runtime spreads the calls over several threads, so the ranges are small)
	ci := rng.Intn(5)
	calls := []string{"rename,renameat,renameat2", "unlink,unlinkat", "mkdir,mkdirat", "openat", "rename,renameat,renameat2,unlink,unlinkat,mkdir,mkdirat"}[ci]
	n := 1 + rng.Intn([]int{10, 4, 6, 60, 16}[ci])
	// (a call must be in the traced set for the injection to apply; the log goes nowhere)
	args := []string{"-f", "-qq", "-o", "/dev/null", "-e", "trace=" + calls, "-e", fmt.Sprintf("inject=%s:signal=SIGKILL:when=%d", calls, n),
		bin, "serve", "--addr", "127.0.0.1", "--port", fmt.Sprint(port), "--dir", root, "--api-delete", "--gc-frequency", "-1s"}
	cmd := exec.Command("strace", args...)
	// no pipes (a surviving tracee would keep them open and Wait would never return); own process group, so that
	// tracer and tracee can be killed together
	cmd.Stdout, cmd.Stderr = nil, nil
	cmd.SysProcAttr = &syscall.SysProcAttr{Setpgid: true}
	killAll := func() {
		if cmd.Process != nil {
			_ = syscall.Kill(-cmd.Process.Pid, syscall.SIGKILL)
		}
	}
	defer killAll()
	if err := cmd.Start(); err != nil {
		r.Inconclusive("strace did not start: " + err.Error())
		return
	}
	done := make(chan struct{})
	go func() { _ = cmd.Wait(); close(done) }()
	gone := func() bool {
		select {
		case <-done:
			return true
		default:
			return false
		}
	}
	px := proxy{port: port, c: &http.Client{Timeout: 20 * time.Second, Transport: &http.Transport{DisableKeepAlives: true}}}
	up := false
	for k := 0; k < 600 && !up && !gone(); k++ {
		if rs := vh.Do(px, vh.Req{Method: "GET", URL: "/v2/"}); rs.Status == 200 {
			up = true
		} else {
			time.Sleep(10 * time.Millisecond)
		}
	}
	wit := map[string]any{"trial": i, "kill_at": fmt.Sprintf("%s #%d", calls, n)}
	if !up {
		if !gone() {
			killAll()
			<-done
		}
		// killed while starting (openat of the binary's own files): nothing was acknowledged; an empty root must open
		r.Count("killed_before_serving", 1)
	}
	w := vh.NewWorld(r, px, u, vh.Dir, "r")
	m := w.Repos["r"]
	// the operation in flight when the server went away: how to apply it to the model
	var inflight func()
	inflightDesc := ""
	killedDuring := false
	nops := 12 + rng.Intn(14)
	for op := 0; op < nops && up; op++ {
		var rs vh.Resp
		var apply func()
		desc := ""
		switch k := rng.Intn(10); {
		case k < 4:
			b := u.Blobs[rng.Intn(len(u.Blobs))]
			desc = "blob " + b.Name
			apply = func() { m.Stored[b.D] = b.B }
			if rng.Intn(2) == 0 {
				// through a session (POST, then PUT with the digest): the path that does not look for stored content first
				desc += " (session)"
				rs = w.Do(vh.Req{Method: "POST", URL: "/v2/r/blobs/uploads/"})
				if loc := rs.H.Get("Location"); rs.Status == 202 && loc != "" {
					rs = w.Do(vh.Req{Method: "PUT", URL: loc + "&digest=" + b.D, Body: b.B})
					w.T("blob(session) r/%s=%d", b.Name, rs.Status)
					if rs.Status == 201 {
						apply()
					}
				}
			} else {
				rs = w.PushBlob("r", b)
			}
		case k < 8:
			mm := images[rng.Intn(len(images))]
			if !m.ValidRefs(mm) {
				for _, rf := range mm.Refs {
					if b := u.BlobByD[rf]; b != nil && m.Stored[rf] == nil {
						if x := w.PushBlob("r", b); x.Status >= 590 {
							rs = x
							desc = "blob " + b.Name
							apply = func() { m.Stored[b.D] = b.B }
							break
						}
					}
				}
				if apply != nil {
					break
				}
			}
			if !m.ValidRefs(mm) {
				continue
			}
			tag := u.Tags[rng.Intn(len(u.Tags))]
			desc = "manifest " + mm.Name + " as " + tag
			apply = func() { m.Mans[mm.D] = mm; m.Stored[mm.D] = mm.Raw; m.Tags[tag] = mm.D }
			rs, _ = w.PutManifest("r", mm, tag)
		default:
			tag := u.Tags[rng.Intn(len(u.Tags))]
			desc = "delete tag " + tag
			apply = func() { delete(m.Tags, tag) }
			rs, _ = w.DeleteTag("r", tag)
		}
		r.Count("requests_to_the_traced_server", 1)
		if rs.Status >= 590 || gone() {
			if rs.Status >= 590 {
				inflight, inflightDesc = apply, desc
			}
			killedDuring = true
			break
		}
	}
	if killedDuring {
		// the connection broke: the injected SIGKILL has hit; strace follows within moments
		select {
		case <-done:
		case <-time.After(10 * time.Second):
		}
	}
	if !gone() {
		// the kill point was not reached: kill at a quiescent point (also a crash)
		killAll()
		r.Count("killed_at_quiescence", 1)
	} else if killedDuring {
		r.Count("killed_by_injection_during_history", 1)
	}
	<-done
	wit["in_flight"] = inflightDesc
	tr := w.Trace
	if len(tr) > 40 {
		tr = tr[len(tr)-40:]
	}
	wit["trace"] = tr
	r.Count("kill_trials", 1)
	// ---- recovery
	srv := vh.New(vh.Conf(vh.Dir, root, vh.Neutral))
	defer srv.Close()
	w.H = srv
	viol := func(sig, detail string) { r.Violation(sig, detail, wit) }
	// every blob file hashes to its name
	bad := ""
	_ = filepath.Walk(filepath.Join(root, "r", "blobs"), func(p string, fi os.FileInfo, err error) error {
		if err != nil || fi.IsDir() {
			return nil
		}
		alg := filepath.Base(filepath.Dir(p))
		b, _ := os.ReadFile(p)
		r.Count("blob_files_rehashed", 1)
		if h := hashFile(alg, b); h != "" && h != fi.Name() && bad == "" {
			bad = fmt.Sprintf("%s/%s holds %d bytes that hash to %s", alg, fi.Name()[:12], len(b), h[:12])
		}
		return nil
	})
	if bad != "" {
		viol("kill:blob-file-damaged", "after SIGKILL at "+wit["kill_at"].(string)+": "+bad)
		return
	}
	real := w.RealSnap("r")
	var p []string
	for _, x := range vh.ValidateLayout(filepath.Join(root, "r")) {
		// as for the crash images of c09: temporary files a killed process leaves behind and a repository directory
		// in the making (no oci-layout or no index.json yet) are not state
		if strings.Contains(x, "temporary index file") || strings.Contains(x, "oci-layout missing") {
			continue
		}
		if strings.Contains(x, "index.json missing") {
			if _, err := os.Stat(filepath.Join(root, "r", "index.json")); err != nil {
				continue
			}
		}
		p = append(p, x)
	}
	if len(p) > 0 {
		viol("kill:layout", "after SIGKILL at "+wit["kill_at"].(string)+" the directory is not a valid layout: "+strings.Join(p, "; "))
		return
	}
	// content is judged one-sidedly (as in c09): bytes that are stored without anything naming them - the body of a
	// manifest whose index entry was not written yet, an upload whose answer never left - are garbage, not a torn state
	oneSided := func(ds []vh.Diff) []vh.Diff {
		var o []vh.Diff
		for _, d := range ds {
			if d.Kind == "blob" && d.Want == "false" && d.Got == "true" {
				continue
			}
			o = append(o, d)
		}
		return o
	}
	diffs := oneSided(vh.Unknown(w.Compare("r", real)))
	if len(diffs) > 0 && inflight != nil {
		inflight()
		d2 := oneSided(vh.Unknown(w.Compare("r", real)))
		if len(d2) == 0 {
			r.Count("in_flight_operation_present_after_kill", 1)
			diffs = nil
		} else if len(d2) < len(diffs) {
			diffs = d2
		}
	} else if len(diffs) == 0 && inflight != nil {
		r.Count("in_flight_operation_absent_after_kill", 1)
	}
	if len(diffs) > 0 {
		var ds []string
		for _, d := range diffs {
			ds = append(ds, d.String())
		}
		sort.Strings(ds)
		viol("kill:state", fmt.Sprintf("after SIGKILL at %s (in flight: %q) the reopened directory equals neither the state before nor after that request: %s", wit["kill_at"], inflightDesc, strings.Join(ds, "; ")))
		return
	}
	// every tag pulls completely
	for t, d := range m.Tags {
		mm := m.Mans[d]
		if mm == nil {
			continue
		}
		for _, rf := range mm.Refs {
			g := vh.Do(srv, vh.Req{Method: "GET", URL: "/v2/r/blobs/" + rf})
			r.Count("pull_requests", 1)
			if g.Status != 200 {
				viol("kill:tag-incomplete", fmt.Sprintf("after SIGKILL tag %s resolves but %s of its image answers %d", t, vh.Short(rf), g.Status))
				return
			}
		}
	}
	r.Distinct("kill_points", calls+"/"+fmt.Sprint(n/10))
	if i < 2 {
		r.Sample(wit)
	}
}

func main() {
	r := vh.Start()
	bin := os.Getenv("VERIF_OLAREG")
	if _, err := exec.LookPath("strace"); err != nil || bin == "" {
		r.Inconclusive("strace or the built binary is not available")
		r.Count("kill_trials", 0)
		r.Finish("real-kill tier skipped", "kill_trials", "kill_points")
		return
	}
	n := r.N(24, 400)
	vh.Parallel(n, 8, func(i int) { trial(r, bin, i) })
	r.Require("kill_trials", int64(n*3/4))
	r.Require("killed_by_injection_during_history", int64(n/6))
	r.Finish("the built binary under strace with an injection rule that delivers SIGKILL at the entry of the N-th rename / unlink / mkdir / openat of a thread (N up to 4-60 depending on the class); a sequential history of blob pushes, image pushes by tag, tag moves and tag deletes over loopback until the server is gone; the directory reopened by a fresh server: blob files re-hashed, layout validated, snapshot equal to the model before or after the request in flight, every tag pulled; a case is one killed process, distinct = syscall class x N/10", "kill_trials", "kill_points")
}
