// C18: the repository index keeps its invariants under any insert/remove sequence.
//
// Monitor: a three-valued reference model (tag map, subject->response map, per-digest membership
// must / must-not / unspecified) is stepped next to the real types.Index; after every operation the
// invariants of the statement are asserted on the real structure through its public methods and its
// JSON form.  Universe is tiny on purpose (4 digests x 3 tags x 2 subjects) so that collisions,
// overwrites and aliasing happen constantly.
package main

import (
	"encoding/json"
	"fmt"
	"math/rand"
	"os"
	"sort"
	"strings"

	"github.com/opencontainers/go-digest"

	"github.com/olareg/olareg/internal/verif/vh"
	"github.com/olareg/olareg/types"
)

const (
	aTag  = "org.opencontainers.image.ref.name"
	aSubj = "org.olareg.referrer.subject"
)

type imodel struct {
	tags map[string]string
	subj map[string]string
	mem  map[string]int // 1 must be found, -1 must not be found, 0 unspecified
	// own: the digest was inserted as a manifest (plain, tagged, as child) since it was last removed; it then does
	// not depend on a referrers response that happens to have the same digest
	own map[string]bool
	// tagVer / subjVer: the version (carried in the descriptor's size) of the last insertion under a tag / a subject.  "Lookup
	// by tag returns the last insertion for it" speaks of the descriptor, not only of its digest: a second push of the same
	// digest under the same tag with other descriptor fields (media type, size, annotations) is the last insertion.
	tagVer, subjVer map[string]int64
}

func (m *imodel) hasRef(d string) bool {
	for _, v := range m.tags {
		if v == d {
			return true
		}
	}
	for _, v := range m.subj {
		if v == d {
			return true
		}
	}
	return false
}

var (
	digs, subjs []string
	tags        = []string{"t1", "t2", "t3"}
)

func dsc(d string, ann map[string]string) types.Descriptor {
	return types.Descriptor{MediaType: types.MediaTypeOCI1Manifest, Digest: digest.Digest(d), Size: 1, Annotations: ann}
}

type op struct {
	Kind  string `json:"k"`
	D     string `json:"d,omitempty"`
	Tag   string `json:"tag,omitempty"`
	Subj  string `json:"subj,omitempty"`
	Child string `json:"child,omitempty"`
	// ChildTag: the child descriptor carries the annotation org.opencontainers.image.ref.name, as the child entries of an
	// index written by an image exporter do.  It is an annotation of a nested descriptor, not a tag of the repository.
	ChildTag string `json:"childtag,omitempty"`
	// Ver: version of a tagged / subject insertion, stored as the descriptor's size
	Ver int64 `json:"ver,omitempty"`
}

func dscVer(d string, ann map[string]string, ver int64) types.Descriptor {
	x := dsc(d, ann)
	if ver > 0 {
		x.Size = ver
	}
	return x
}

func childDsc(o op) types.Descriptor {
	if o.ChildTag != "" {
		return dsc(o.Child, map[string]string{aTag: o.ChildTag})
	}
	return dsc(o.Child, nil)
}

func genOp(r *rand.Rand) op {
	d := digs[r.Intn(len(digs))]
	switch r.Intn(10) {
	case 0:
		return op{Kind: "add", D: d}
	case 1, 2:
		o := op{Kind: "addtag", D: d, Tag: tags[r.Intn(len(tags))], Ver: 2 + r.Int63n(1000000)}
		if r.Intn(3) == 0 {
			c := digs[r.Intn(len(digs))]
			if c != d {
				o.Child = c
				if r.Intn(3) == 0 {
					o.ChildTag = tags[r.Intn(len(tags))]
				}
			}
		}
		return o
	case 3:
		return op{Kind: "addsubj", D: d, Subj: subjs[r.Intn(len(subjs))], Ver: 2 + r.Int63n(1000000)}
	case 4:
		if r.Intn(3) == 0 {
			// removal by digest with the entry a lookup returned: the descriptor still carries the subject annotation
			return op{Kind: "rm", D: d, Subj: subjs[r.Intn(len(subjs))]}
		}
		return op{Kind: "rm", D: d}
	case 5:
		return op{Kind: "rmtag", D: d, Tag: tags[r.Intn(len(tags))]}
	case 6:
		return op{Kind: "rmtagonly", Tag: tags[r.Intn(len(tags))]}
	case 7:
		return op{Kind: "rmsubjonly", Subj: subjs[r.Intn(len(subjs))]}
	case 8:
		return op{Kind: "addchildren", D: d}
	default:
		o := op{Kind: "addidx", D: d}
		c := digs[r.Intn(len(digs))]
		if c != d {
			o.Child = c
			if r.Intn(3) == 0 {
				o.ChildTag = tags[r.Intn(len(tags))]
			}
		}
		return o
	}
}

func apply(idx *types.Index, m *imodel, o op) {
	d := o.D
	switch o.Kind {
	case "add":
		idx.AddDesc(dsc(d, nil))
		m.mem[d] = 1
		m.own[d] = true
	case "addidx": // untagged insertion with the children option
		var opts []types.IndexOpt
		if o.Child != "" {
			opts = append(opts, types.IndexWithChildren([]types.Descriptor{childDsc(o)}))
		}
		idx.AddDesc(dsc(d, nil), opts...)
		m.mem[d] = 1
		m.own[d] = true
	case "addtag":
		var opts []types.IndexOpt
		if o.Child != "" {
			opts = append(opts, types.IndexWithChildren([]types.Descriptor{childDsc(o)}))
		}
		idx.AddDesc(dscVer(d, map[string]string{aTag: o.Tag}, o.Ver), opts...)
		m.tags[o.Tag] = d
		m.tagVer[o.Tag] = o.Ver
		m.mem[d] = 1
		m.own[d] = true
	case "addsubj":
		old, had := m.subj[o.Subj]
		idx.AddDesc(dscVer(d, map[string]string{aSubj: o.Subj}, o.Ver))
		m.subj[o.Subj] = d
		m.subjVer[o.Subj] = o.Ver
		m.mem[d] = 1
		if had && old != d && !m.hasRef(old) && m.mem[old] == 1 && !m.own[old] {
			m.mem[old] = 0 // previous response replaced; a digest that was only ever a response may go with it
		}
	case "rm":
		if o.Subj != "" {
			// a descriptor with a digest and no tag removes the digest, whatever else it carries
			idx.RmDesc(dsc(d, map[string]string{aSubj: o.Subj}))
		} else {
			idx.RmDesc(dsc(d, nil))
		}
		for k, v := range m.tags {
			if v == d {
				delete(m.tags, k)
			}
		}
		for k, v := range m.subj {
			if v == d {
				delete(m.subj, k)
			}
		}
		m.mem[d] = -1
		delete(m.own, d)
	case "rmtag":
		idx.RmDesc(dsc(d, map[string]string{aTag: o.Tag}))
		if m.tags[o.Tag] == d {
			delete(m.tags, o.Tag) // the digest stays reachable
		}
	case "rmtagonly":
		idx.RmDesc(types.Descriptor{Annotations: map[string]string{aTag: o.Tag}})
		if old, ok := m.tags[o.Tag]; ok {
			delete(m.tags, o.Tag)
			delete(m.own, old) // removal by tag alone takes the whole entry
			if !m.hasRef(old) && m.mem[old] == 1 {
				m.mem[old] = 0
			}
		}
	case "rmsubjonly":
		idx.RmDesc(types.Descriptor{Annotations: map[string]string{aSubj: o.Subj}})
		if old, ok := m.subj[o.Subj]; ok {
			delete(m.subj, o.Subj)
			if !m.hasRef(old) && m.mem[old] == 1 && !m.own[old] {
				m.mem[old] = 0
			}
		}
	case "addchildren":
		idx.AddChildren([]types.Descriptor{dsc(d, nil)})
		if m.mem[d] != 1 {
			m.mem[d] = 1
		}
		m.own[d] = true
	}
	for _, dd := range digs {
		if m.hasRef(dd) {
			m.mem[dd] = 1
		}
	}
}

// check asserts the invariants of the statement; returns "" or the violated clause.
func check(idx *types.Index, m *imodel) string {
	// copies are independent of the original, in both directions
	j1 := fp(idx)
	cp := idx.Copy()
	jc1 := fp(&cp)
	if j1 != jc1 {
		return "copy differs from the original"
	}
	cp.AddDesc(dsc(digs[0], map[string]string{aTag: "zz"}))
	cp.RmDesc(dsc(digs[1], nil))
	cp.AddChildren([]types.Descriptor{dsc(digs[2], nil)})
	for mi := range cp.Manifests {
		if cp.Manifests[mi].Annotations != nil {
			cp.Manifests[mi].Annotations["x"] = "y"
		}
	}
	if cp.Annotations != nil {
		cp.Annotations["x"] = "y"
	}
	j2 := fp(idx)
	if j1 != j2 {
		return "copy is not independent (mutating the copy changed the original)"
	}
	pristine := idx.Copy()
	cp2 := idx.Copy()
	// both sides grow after the copy: appends on one side must not land in storage the other side uses
	cp2.AddChildren([]types.Descriptor{dsc(digs[2], nil)})
	cp2.AddDesc(dsc(digs[1], map[string]string{aTag: "zz3"}))
	jb := fp(&cp2)
	idx.AddChildren([]types.Descriptor{dsc(digs[3], nil)})
	idx.AddDesc(dsc(digs[3], map[string]string{aTag: "zz2"}))
	idx.RmDesc(types.Descriptor{Annotations: map[string]string{aTag: "zz2"}})
	idx.AddDesc(dsc(digs[0], map[string]string{aTag: "zz4"}))
	if jb != fp(&cp2) {
		return "copy is not independent (mutating the original changed the copy)"
	}
	*idx = pristine // continue with the pristine state
	if j1 != fp(idx) {
		return "copy is not independent (a copy taken before the mutations differs from the original state)"
	}

	seenTag, seenSubj, plain := map[string]bool{}, map[string]bool{}, map[string]int{}
	for _, e := range idx.Manifests {
		tg, sj := e.Annotations[aTag], e.Annotations[aSubj]
		if tg != "" {
			if seenTag[tg] {
				return "a tag names two entries"
			}
			seenTag[tg] = true
		}
		if sj != "" {
			if seenSubj[sj] {
				return "a subject has two responses"
			}
			seenSubj[sj] = true
		}
		if tg == "" && sj == "" {
			plain[e.Digest.String()]++
			if plain[e.Digest.String()] > 1 {
				return "an untagged digest is listed twice"
			}
		}
	}
	for _, tg := range tags {
		got, err := idx.GetDesc(tg)
		want, ok := m.tags[tg]
		if ok && (err != nil || got.Digest.String() != want) {
			return "lookup by tag does not return the last insertion"
		}
		if !ok && err == nil {
			return "lookup by tag finds a removed tag"
		}
		gotA, errA := idx.GetByAnnotation(aTag, tg)
		if ok && (errA != nil || gotA.Digest.String() != want) {
			return "lookup by tag annotation does not return the last insertion"
		}
		if v := m.tagVer[tg]; ok && v > 0 && (got.Size != v || gotA.Size != v) {
			return "lookup by tag returns the descriptor of an earlier insertion"
		}
		if !ok && errA == nil {
			return "lookup by tag annotation finds a removed tag"
		}
	}
	for _, s := range subjs {
		got, err := idx.GetByAnnotation(aSubj, s)
		want, ok := m.subj[s]
		if ok && (err != nil || got.Digest.String() != want) {
			return "lookup by subject does not return the last response"
		}
		if v := m.subjVer[s]; ok && v > 0 && got.Size != v {
			return "lookup by subject returns the descriptor of an earlier response"
		}
		if !ok && err == nil {
			return "lookup by subject finds a removed response"
		}
	}
	for _, dd := range digs {
		got, err := idx.GetDesc(dd)
		if m.mem[dd] == 1 && err != nil {
			return "a present digest is not found"
		}
		if m.mem[dd] == -1 && err == nil {
			return "a removed digest is still found"
		}
		if err == nil && got.Digest.String() != dd {
			return "lookup by digest returns another digest"
		}
	}
	return ""
}

// fp is a fingerprint of everything observable through the public surface: the listed entries with
// their annotations (sorted), the index annotations, and the by-digest lookups (which cover the
// unexported child list).
func fp(i *types.Index) string {
	var sb strings.Builder
	wr := func(a map[string]string) {
		ks := make([]string, 0, len(a))
		for k := range a {
			ks = append(ks, k)
		}
		sort.Strings(ks)
		for _, k := range ks {
			sb.WriteString(k)
			sb.WriteByte('=')
			sb.WriteString(a[k])
			sb.WriteByte(';')
		}
	}
	for _, e := range i.Manifests {
		sb.WriteString(string(e.Digest)[7:15])
		sb.WriteByte('[')
		wr(e.Annotations)
		sb.WriteString(e.MediaType[len(e.MediaType)-12:])
		sb.WriteByte(']')
	}
	sb.WriteByte('|')
	wr(i.Annotations)
	for _, dd := range digs {
		if _, err := i.GetDesc(dd); err == nil {
			sb.WriteByte('1')
		} else {
			sb.WriteByte('0')
		}
	}
	return sb.String()
}

func abstract(m *imodel) string {
	st := []string{}
	for k, v := range m.tags {
		st = append(st, k+"="+v[7:9])
	}
	for k, v := range m.subj {
		st = append(st, k[7:9]+"="+v[7:9])
	}
	for _, dd := range digs {
		st = append(st, fmt.Sprint(m.mem[dd]))
	}
	sort.Strings(st)
	return strings.Join(st, ",")
}

type local struct {
	states, pairs map[string]struct{}
	ops           int
}

func runSeq(r *local, ops []op, record bool) string {
	idx := types.Index{}
	m := &imodel{tags: map[string]string{}, subj: map[string]string{}, mem: map[string]int{}, own: map[string]bool{}, tagVer: map[string]int64{}, subjVer: map[string]int64{}}
	for _, d := range digs {
		m.mem[d] = -1
	}
	for i, o := range ops {
		apply(&idx, m, o)
		if record {
			st := abstract(m)
			r.states[st] = struct{}{}
			r.pairs[st+"|"+o.Kind] = struct{}{}
			r.ops++
		}
		if v := check(&idx, m); v != "" {
			return fmt.Sprintf("%s (after op %d)", v, i)
		}
	}
	return ""
}

func main() {
	r := vh.Start()
	for i := 0; i < 4; i++ {
		digs = append(digs, digest.FromString(fmt.Sprintf("d%d", i)).String())
	}
	for i := 0; i < 2; i++ {
		subjs = append(subjs, digest.FromString(fmt.Sprintf("s%d", i)).String())
	}
	if rp := os.Getenv("VERIF_REPLAY"); rp != "" {
		var f struct {
			Violation struct {
				Witness []op `json:"witness"`
			} `json:"violation"`
		}
		b, _ := os.ReadFile(rp)
		_ = json.Unmarshal(b, &f)
		lc := &local{states: map[string]struct{}{}, pairs: map[string]struct{}{}}
		if v := runSeq(lc, f.Violation.Witness, true); v != "" {
			r.Violation("index:"+strings.SplitN(v, " (", 2)[0], v, f.Violation.Witness)
		}
		r.Count("sequences", 1)
		r.Finish("replay of one recorded sequence", "sequences", "abstract_states")
		return
	}
	nseq := r.N(60_000, 3_000_000)
	const batch = 1000
	nb := (nseq + batch - 1) / batch
	vh.Parallel(nb, 16, func(b int) {
		rng := r.Rand(b)
		lc := &local{states: map[string]struct{}{}, pairs: map[string]struct{}{}}
		defer func() {
			for k := range lc.states {
				r.Distinct("abstract_states", k)
			}
			for k := range lc.pairs {
				r.Distinct("state_op_pairs", k)
			}
			r.Count("operations", lc.ops)
			r.Count("sequences", batch)
		}()
		for s := 0; s < batch; s++ {
			n := 6 + rng.Intn(25)
			ops := make([]op, n)
			for i := range ops {
				ops[i] = genOp(rng)
			}
			v := runSeq(lc, ops, true)
			if b == 0 && s < 2 {
				r.Sample(ops)
			}
			if v != "" {
				// shrink: drop operations while the same clause still fails
				cls := strings.SplitN(v, " (", 2)[0]
				min := ops
				for changed := true; changed; {
					changed = false
					for i := range min {
						cand := append(append([]op{}, min[:i]...), min[i+1:]...)
						if v2 := runSeq(lc, cand, false); strings.HasPrefix(v2, cls) {
							min, changed = cand, true
							break
						}
					}
				}
				r.Violation("index:"+cls, v, min)
			}
		}
	})
	r.Require("sequences", 1000)
	r.RequireDistinct("abstract_states", 500)
	r.Finish("random sequences of 6-30 operations (AddDesc plain/tag/subject/with children, RmDesc in its five argument shapes (by digest also with the descriptor a subject lookup returns), tagged and subject insertions versioned through the descriptor size, AddChildren, Copy after every step) over 4 digests x 3 tags x 2 subjects; a case is one sequence; distinct = distinct abstract model states (tag map, subject map, three-valued membership) reached", "sequences", "abstract_states")
}
