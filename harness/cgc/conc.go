package main

// Concurrent family (focus C05conc): the "schedules" part of the C05 quantifier.
//
// Several clients push complete, tagged images (own config, own layer, one layer shared by everybody, sometimes
// mounted from another repository) while a collection with an aggressive policy (untagged manifests collected, grace
// period off) runs all the time - through the hook, or as the real ticker with a period of a few milliseconds.
// Content that is not referenced yet may vanish between its upload and the manifest (the push is then refused and
// the client starts the image again); but from the moment a tagged push has been acknowledged until the client
// deletes that tag, the image is retained by every policy: manifest by tag and by digest, config and every layer
// must be served with their bytes - whenever the owner looks, and at the end.  Deleting an older tag makes that
// image garbage while the shared layer is still referenced by others.
//
// The oracle needs no model of the collection: "acknowledged, tagged, not deleted => complete" holds under every
// schedule.  Built with the vsync shim, so that every lock operation of olareg is followed by a random yield or
// sleep.

import (
	"sort"
	"crypto/sha256"
	"context"
	"fmt"
	"io"
	"math/rand"
	"net/http"
	"os"
	"path/filepath"
	"strings"
	"sync"
	"sync/atomic"
	"time"

	"github.com/opencontainers/go-digest"

	"github.com/olareg/olareg/internal/verif/vfs"
	"github.com/olareg/olareg/internal/verif/vh"
)

type cimage struct {
	tag    string
	man    *vh.Man
	blobs  []*vh.Blob
	pushed int64
}

func concurrentGC(r *vh.Run, i int) {
	rng := r.Rand(7_000_000 + i)
	kind := []vh.StoreKind{vh.Mem, vh.Dir}[i%2]
	root := ""
	if kind != vh.Mem {
		root = r.TempDir("cgcc")
		defer vh.RemoveAll(root)
	}
	pol := vh.Policy{Untagged: true, Dangling: i%3 == 0, WithSubj: i%5 == 0, EmptyRepo: (i/2)%2 == 0, Grace: -1}
	c := vh.Conf(kind, root, pol)
	ticker := (i/2)%3 == 0
	if ticker {
		c.Storage.GC.Frequency = time.Duration(2+rng.Intn(5)) * time.Millisecond
	}
	srv := vh.New(c)
	closed := false
	defer func() {
		if !closed {
			_ = srv.Close()
		}
	}()
	repo := "c"
	shared := &vh.Blob{Name: "shared", B: []byte(fmt.Sprintf("layer shared by every client of trial %d", i))}
	shared.D = vh.DigestOf("sha256", shared.B)
	// the shared layer also lies in another repository (mount source); a tagged image keeps it there
	otherKept := false
	{
		cfg := &vh.Blob{Name: "ocfg", B: []byte(fmt.Sprintf(`{"other":%d}`, i))}
		cfg.D = vh.DigestOf("sha256", cfg.B)
		om := vh.MkImage("o", "sha256", vh.MTImage, cfg, vh.MTConfig, []vh.Descriptorish{{MT: vh.MTLayer, D: shared.D, Size: len(shared.B)}}, "", "", nil)
		// (with the real ticker a pass may fall between these uploads and the manifest: start again then)
		for attempt := 0; attempt < 30 && !otherKept; attempt++ {
			for _, b := range []*vh.Blob{cfg, shared} {
				vh.Do(srv, vh.Req{Method: "POST", URL: "/v2/other/blobs/uploads/?digest=" + b.D, Body: b.B})
			}
			otherKept = vh.Do(srv, vh.Req{Method: "PUT", URL: "/v2/other/manifests/keep", H: map[string]string{"Content-Type": om.MT}, Body: om.Raw}).Status == 201
		}
	}
	var vmu sync.Mutex
	violated := false
	var trace []string
	tr := func(f string, a ...any) {
		vmu.Lock()
		if len(trace) < 400 {
			trace = append(trace, fmt.Sprintf(f, a...))
		}
		vmu.Unlock()
	}
	viol := func(sig, detail string) {
		vmu.Lock()
		defer vmu.Unlock()
		if violated {
			return
		}
		violated = true
		t := trace
		if len(t) > 80 {
			t = t[len(t)-80:]
		}
		r.Violation(sig, detail, map[string]any{"trial": i, "store": kind.String(), "policy": fmt.Sprintf("%+v", pol), "real_ticker": ticker, "last_events": t})
	}
	stop := make(chan struct{})
	var bg sync.WaitGroup
	var passes atomic.Int64
	if !ticker {
		bg.Add(1)
		go func() {
			defer bg.Done()
			lr := rand.New(rand.NewSource(int64(i)*977 + r.Seed))
			for {
				select {
				case <-stop:
					return
				default:
				}
				if lr.Intn(4) == 0 {
					now := time.Now()
					_ = srv.VerifGCPass(now, now.Add(-time.Second))
				} else {
					_ = srv.VerifGC(context.Background(), repo)
				}
				passes.Add(1)
				time.Sleep(time.Duration(300+lr.Intn(2500)) * time.Microsecond)
			}
		}()
	}
	// pull: everything of an acknowledged image
	pull := func(im *cimage, when string) bool {
		acc := map[string]string{"Accept": vh.AcceptAll}
		for _, u := range []string{"/v2/" + repo + "/manifests/" + im.tag, "/v2/" + repo + "/manifests/" + im.man.D} {
			g := vh.Do(srv, vh.Req{Method: "GET", URL: u, H: acc})
			r.Count("concurrent_pull_requests", 1)
			if g.Status != 200 || string(g.Body) != string(im.man.Raw) {
				viol("concurrent:tagged-manifest-lost", fmt.Sprintf("%s: GET %s of the acknowledged, tagged, undeleted image %s answers %d (%d bytes) while collections run (%s store)", when, u, im.tag, g.Status, len(g.Body), kind))
				return false
			}
		}
		for _, b := range im.blobs {
			g := vh.Do(srv, vh.Req{Method: "GET", URL: "/v2/" + repo + "/blobs/" + b.D})
			r.Count("concurrent_pull_requests", 1)
			if g.Status != 200 || string(g.Body) != string(b.B) {
				viol("concurrent:tagged-content-lost", fmt.Sprintf("%s: %s (%s) of the acknowledged, tagged, undeleted image %s answers %d while collections run (%s store)", when, b.Name, vh.Short(b.D), im.tag, g.Status, kind))
				return false
			}
		}
		return true
	}
	nclients := 3 + rng.Intn(3)
	acked := make([][]*cimage, nclients)
	var wg sync.WaitGroup
	for cl := 0; cl < nclients; cl++ {
		wg.Add(1)
		go func(cl int) {
			defer wg.Done()
			cr := rand.New(rand.NewSource(r.Seed*7919 + int64(i)*131 + int64(cl)))
			for n := 0; n < 5; n++ {
				vmu.Lock()
				bad := violated
				vmu.Unlock()
				if bad {
					return
				}
				cfg := &vh.Blob{Name: fmt.Sprintf("cfg%d.%d", cl, n), B: []byte(fmt.Sprintf(`{"t":%d,"c":%d,"n":%d}`, i, cl, n))}
				cfg.D = vh.DigestOf("sha256", cfg.B)
				own := &vh.Blob{Name: fmt.Sprintf("layer%d.%d", cl, n), B: []byte(fmt.Sprintf("layer of trial %d client %d image %d", i, cl, n))}
				own.D = vh.DigestOf("sha256", own.B)
				im := &cimage{tag: fmt.Sprintf("c%dn%d", cl, n), blobs: []*vh.Blob{cfg, own, shared}}
				im.man = vh.MkImage(im.tag, "sha256", vh.MTImage, cfg, vh.MTConfig,
					[]vh.Descriptorish{{MT: vh.MTLayer, D: own.D, Size: len(own.B)}, {MT: vh.MTLayer, D: shared.D, Size: len(shared.B)}}, "", "", map[string]string{"t": fmt.Sprint(i)})
				ok := false
				for attempt := 0; attempt < 8 && !ok; attempt++ {
					upOK := true
					for _, b := range im.blobs {
						var rs vh.Resp
						if b == shared && cr.Intn(2) == 0 {
							rs = vh.Do(srv, vh.Req{Method: "POST", URL: "/v2/" + repo + "/blobs/uploads/?mount=" + b.D + "&from=other"})
							if rs.Status == 202 {
								// not mounted (the target may not hold it any more and the source refused?): finish as an upload
								if loc := rs.H.Get("Location"); loc != "" {
									sep := "&"
									if !containsQ(loc) {
										sep = "?"
									}
									rs = vh.Do(srv, vh.Req{Method: "PUT", URL: loc + sep + "digest=" + b.D, Body: b.B})
								}
							}
						} else {
							rs = vh.Do(srv, vh.Req{Method: "POST", URL: "/v2/" + repo + "/blobs/uploads/?digest=" + b.D, Body: b.B})
						}
						if rs.Status != 201 {
							upOK = false
							tr("client %d image %d: upload of %s answered %d", cl, n, b.Name, rs.Status)
							if rs.Status >= 500 {
								r.Count("concurrent_5xx_answers", 1) // not acknowledged: nothing C05 speaks about (answers are C15's)
							}
							break
						}
					}
					if !upOK {
						continue
					}
					rs := vh.Do(srv, vh.Req{Method: "PUT", URL: "/v2/" + repo + "/manifests/" + im.tag, H: map[string]string{"Content-Type": im.man.MT}, Body: im.man.Raw})
					tr("client %d image %d attempt %d: manifest put = %d", cl, n, attempt, rs.Status)
					switch {
					case rs.Status == 201:
						ok = true
					case rs.Status >= 500:
						r.Count("concurrent_5xx_answers", 1)
					default:
						r.Count("concurrent_push_retries", 1) // a blob was collected between its upload and the manifest: legitimate
					}
				}
				if !ok {
					r.Count("concurrent_images_given_up", 1)
					continue
				}
				r.Count("concurrent_images_acknowledged", 1)
				acked[cl] = append(acked[cl], im)
				if !pull(im, "right after the acknowledgement") {
					return
				}
				// look at an older image of mine, or delete one (its own layer becomes garbage, the shared one does not)
				if len(acked[cl]) > 1 {
					j := cr.Intn(len(acked[cl]) - 1)
					old := acked[cl][j]
					if cr.Intn(3) == 0 {
						ds := vh.Do(srv, vh.Req{Method: "DELETE", URL: "/v2/" + repo + "/manifests/" + old.tag})
						tr("client %d: delete tag %s = %d", cl, old.tag, ds.Status)
						if ds.Status == 202 {
							acked[cl] = append(acked[cl][:j], acked[cl][j+1:]...)
							r.Count("concurrent_tag_deletes", 1)
						} else if ds.Status == 404 {
							viol("concurrent:acknowledged-tag-unknown", fmt.Sprintf("DELETE of the acknowledged tag %s, which only this client deletes, answered 404 while collections run", old.tag))
							return
						}
					} else if !pull(old, "later, while other clients push and delete") {
						return
					}
				}
			}
		}(cl)
	}
	wg.Wait()
	close(stop)
	bg.Wait()
	r.Count("concurrent_trials", 1)
	r.Count("concurrent_hook_passes", int(passes.Load()))
	if ticker {
		r.Count("concurrent_trials_real_ticker", 1)
		time.Sleep(3 * c.Storage.GC.Frequency) // let the ticker run once more over the final state
	} else {
		_ = srv.VerifGC(context.Background(), repo)
	}
	for cl := range acked {
		for _, im := range acked[cl] {
			if !pull(im, "at the end") {
				break
			}
			r.Count("concurrent_final_pulls", 1)
		}
	}
	// the other repository's tagged image kept the shared layer there
	if g := vh.Do(srv, vh.Req{Method: "GET", URL: "/v2/other/blobs/" + shared.D}); otherKept && g.Status != 200 {
		viol("concurrent:tagged-content-lost", fmt.Sprintf("the shared layer of the tagged image in repository other answers %d at the end", g.Status))
	}
	if kind == vh.Dir && !violated {
		closed = true
		_ = srv.Close()
		if p := vh.ValidateLayout(root + "/" + repo); len(p) > 0 {
			viol("concurrent:layout", fmt.Sprintf("after the concurrent pushes and collections the directory is not a valid layout: %v", p))
		}
	}
	r.Distinct("concurrent_cells", fmt.Sprintf("%s/%v/%v/%v/%v", kind, ticker, pol.Dangling, pol.WithSubj, pol.EmptyRepo))
}

func containsQ(s string) bool {
	for _, ch := range s {
		if ch == '?' {
			return true
		}
	}
	return false
}

// slowUpload: an upload that takes longer than the grace period (kept alive by its own chunks), completed just now,
// is recent content: a collection right after the acknowledgement must not remove it, in a quiet repository either.
// One-sided timing: the verdict is only taken if the collection finished less than 0.8 x grace after the completing
// PUT *started* (whatever instant of that request the store takes as the blob's time, its age is then below the
// grace period); otherwise the trial counts as too slow and decides nothing.
func slowUpload(r *vh.Run, i int) {
	kind := []vh.StoreKind{vh.Mem, vh.Dir, vh.MemDir}[i%3]
	root := ""
	if kind != vh.Mem {
		root = r.TempDir("slow")
		defer vh.RemoveAll(root)
	}
	grace := 1200 * time.Millisecond
	pol := vh.Policy{Untagged: i%2 == 0, Dangling: true, WithSubj: true, EmptyRepo: false, Grace: grace}
	srv := vh.New(vh.Conf(kind, root, pol))
	defer srv.Close()
	finalBody := (i/3)%2 == 0
	wit := map[string]any{"trial": i, "store": kind.String(), "grace": grace.String(), "completing_put_carries_data": finalBody, "completion_0.6_grace_after_last_chunk_collection_0.5_grace_later": (!finalBody && (i/6)%2 == 1)}
	rs := vh.Do(srv, vh.Req{Method: "POST", URL: "/v2/q/blobs/uploads/"})
	loc := rs.H.Get("Location")
	if rs.Status != 202 || loc == "" {
		return
	}
	var content []byte
	// five chunks, a third of the grace period apart: 1.3 x grace in all, never idle for as long as the grace period
	for k := 0; k < 5; k++ {
		chunk := []byte(fmt.Sprintf("chunk %d of slow upload %d;", k, i))
		ps := vh.Do(srv, vh.Req{Method: "PATCH", URL: loc, Body: chunk})
		if ps.Status != 202 || ps.H.Get("Location") == "" {
			r.Count("slow_upload_not_established", 1)
			return
		}
		loc = ps.H.Get("Location")
		content = append(content, chunk...)
		if k < 4 {
			time.Sleep(grace / 3)
		}
	}
	var last []byte
	lateCompletion := !finalBody && (i/6)%2 == 1
	if finalBody {
		last = []byte("the end")
		content = append(content, last...)
	} else if lateCompletion {
		// the completing PUT carries no data and comes 0.6 x grace after the last chunk; the collection another
		// 0.5 x grace later: 0.5 x grace after the upload was acknowledged, 1.1 x grace after its last byte was written
		time.Sleep(grace * 6 / 10)
	} else {
		time.Sleep(grace / 3)
	}
	d := vh.DigestOf("sha256", content)
	sep := "&"
	if !containsQ(loc) {
		sep = "?"
	}
	t0 := time.Now()
	put := vh.Do(srv, vh.Req{Method: "PUT", URL: loc + sep + "digest=" + d, Body: last})
	if put.Status != 201 {
		r.Count("slow_upload_not_established", 1)
		return
	}
	if lateCompletion {
		time.Sleep(grace / 2)
	}
	_ = srv.VerifGC(context.Background(), "q")
	el := time.Since(t0)
	r.Count("slow_upload_trials", 1)
	if el > grace*8/10 {
		r.Count("slow_upload_trials_too_slow_to_decide", 1)
		return
	}
	g := vh.Do(srv, vh.Req{Method: "GET", URL: "/v2/q/blobs/" + d})
	if g.Status != 200 || string(g.Body) != string(content) {
		wit["from_put_start_to_collection_end"] = el.String()
		r.Violation("recent-upload-collected", fmt.Sprintf("an upload that took 1.3-1.6 x the grace period (%s) was completed (201) and a collection %s after the completing request started removed it: GET answers %d (%s store)", grace, el, g.Status, kind), wit)
	}
	r.Distinct("slow_upload_cells", fmt.Sprintf("%s/%v/%v/%v", kind, finalBody, lateCompletion, pol.Untagged))
}

// wildListing: a tagged image is also listed by a tagged index - under a media type that is no manifest type (a tool
// got the descriptor wrong; the registry accepts the index because the content exists).  However the collection looks
// at that index entry, the tagged image keeps its config and layers.
func wildListing(r *vh.Run, i int) {
	kind := []vh.StoreKind{vh.Mem, vh.Dir, vh.MemDir}[i%3]
	root := ""
	if kind != vh.Mem {
		root = r.TempDir("wild")
		defer vh.RemoveAll(root)
	}
	pol := vh.Policy{Untagged: i%2 == 0, Dangling: (i/2)%2 == 0, WithSubj: true, EmptyRepo: false, Grace: -1}
	srv := vh.New(vh.Conf(kind, root, pol))
	defer srv.Close()
	cfg := &vh.Blob{Name: "wcfg", B: []byte(fmt.Sprintf(`{"w":%d}`, i))}
	cfg.D = vh.DigestOf("sha256", cfg.B)
	lay := &vh.Blob{Name: "wlayer", B: []byte(fmt.Sprintf("layer of wild trial %d", i))}
	lay.D = vh.DigestOf("sha256", lay.B)
	img := vh.MkImage("wimg", "sha256", vh.MTImage, cfg, vh.MTConfig, []vh.Descriptorish{{MT: vh.MTLayer, D: lay.D, Size: len(lay.B)}}, "", "", map[string]string{"w": fmt.Sprint(i)})
	listAs := []string{vh.MTLayer, "application/octet-stream", vh.MTConfig, "application/vnd.oci.empty.v1+json", vh.MTIndex, vh.MTDockerList}[(i/3)%6]
	idx := vh.MkIndexX("widx", "sha256", vh.MTIndex, []*vh.Man{img}, "", "", map[string]string{"w": fmt.Sprint(i)}, vh.MkOpt{ListAs: map[string]string{img.D: listAs}})
	put := func(m *vh.Man, tag string) int {
		return vh.Do(srv, vh.Req{Method: "PUT", URL: vh.ManifestURL("w", m, tag), H: map[string]string{"Content-Type": m.MT}, Body: m.Raw}).Status
	}
	for _, b := range []*vh.Blob{cfg, lay} {
		vh.Do(srv, vh.Req{Method: "POST", URL: "/v2/w/blobs/uploads/?digest=" + b.D, Body: b.B})
	}
	// the order of the two entries in the index differs with the order of the pushes
	var st1, st2 int
	if (i/18)%2 == 0 {
		st1, st2 = put(img, "image"), put(idx, "index")
	} else {
		st1 = put(img, "")
		st2 = put(idx, "index")
		if st1 == 201 {
			st1 = put(img, "image")
		}
	}
	if st1 != 201 || st2 != 201 {
		r.Count("wild_listing_not_established", 1)
		return
	}
	for k := 0; k < 2; k++ {
		_ = srv.VerifGC(context.Background(), "w")
	}
	r.Count("wild_listing_trials", 1)
	r.Distinct("wild_listing_cells", fmt.Sprintf("%s/%s/%d", kind, listAs, (i/18)%2))
	wit := map[string]any{"trial": i, "store": kind.String(), "listed_as": listAs, "policy": fmt.Sprintf("%+v", pol)}
	for _, u := range []string{"/v2/w/manifests/image", "/v2/w/blobs/" + cfg.D, "/v2/w/blobs/" + lay.D} {
		g := vh.Do(srv, vh.Req{Method: "GET", URL: u, H: map[string]string{"Accept": vh.AcceptAll}})
		if g.Status != 200 {
			r.Violation("tagged-image-incomplete:listed-under-wrong-type", fmt.Sprintf("a tagged image that a tagged index also lists (as %s) lost content in a collection: GET %s answers %d (%s store)", listAs, u, g.Status, kind), wit)
			return
		}
	}
}

// bigReferrers: a tagged subject with so many artifacts that the referrers answer the registry generates for it is
// larger than the (small, legal) manifest size limit - every pushed manifest is below the limit.  The answer is what
// links the artifacts to their retained subject: after a collection with everything old, every artifact and its
// content is still there.
func bigReferrers(r *vh.Run, i int) {
	kind := []vh.StoreKind{vh.Mem, vh.Dir, vh.MemDir}[i%3]
	root := ""
	if kind != vh.Mem {
		root = r.TempDir("bigref")
		defer vh.RemoveAll(root)
	}
	pol := vh.Policy{Untagged: i%2 == 0, Dangling: (i/2)%2 == 0, WithSubj: (i/4)%2 == 0, EmptyRepo: true, Grace: []time.Duration{-1, time.Hour}[(i/3)%2]}
	c := vh.Conf(kind, root, pol)
	c.API.Manifest.Limit = []int64{1500, 2048, 4096}[(i/6)%3]
	srv := vh.New(c)
	defer srv.Close()
	cfg := &vh.Blob{Name: "bcfg", B: []byte(fmt.Sprintf(`{"big":%d}`, i))}
	cfg.D = vh.DigestOf("sha256", cfg.B)
	vh.Do(srv, vh.Req{Method: "POST", URL: "/v2/b/blobs/uploads/?digest=" + cfg.D, Body: cfg.B})
	subj := vh.MkImage("bsubj", "sha256", vh.MTImage, cfg, vh.MTConfig, nil, "", "", map[string]string{"b": fmt.Sprint(i)})
	if st := vh.Do(srv, vh.Req{Method: "PUT", URL: "/v2/b/manifests/subject", H: map[string]string{"Content-Type": subj.MT}, Body: subj.Raw}).Status; st != 201 {
		return
	}
	type art struct {
		m *vh.Man
		l *vh.Blob
	}
	var arts []art
	for k := 0; k < 24; k++ {
		l := &vh.Blob{Name: fmt.Sprintf("blayer%d", k), B: []byte(fmt.Sprintf("layer %d of big referrers trial %d", k, i))}
		l.D = vh.DigestOf("sha256", l.B)
		vh.Do(srv, vh.Req{Method: "POST", URL: "/v2/b/blobs/uploads/?digest=" + l.D, Body: l.B})
		a := vh.MkImage(fmt.Sprintf("bart%d", k), "sha256", vh.MTImage, cfg, vh.MTConfig, []vh.Descriptorish{{MT: vh.MTLayer, D: l.D, Size: len(l.B)}}, subj.D, "application/x.big", map[string]string{"k": fmt.Sprint(k), "b": fmt.Sprint(i)})
		if st := vh.Do(srv, vh.Req{Method: "PUT", URL: "/v2/b/manifests/" + a.D, H: map[string]string{"Content-Type": a.MT}, Body: a.Raw}).Status; st == 201 {
			arts = append(arts, art{a, l})
		}
	}
	if len(arts) < 12 {
		r.Count("big_referrers_not_established", 1)
		return
	}
	if _, err := srv.VerifSetAllBlobTimes(context.Background(), "b", time.Now().Add(-10*time.Hour)); err != nil {
		return
	}
	for k := 0; k < 2; k++ {
		_ = srv.VerifGC(context.Background(), "b")
	}
	r.Count("big_referrers_trials", 1)
	wit := map[string]any{"trial": i, "store": kind.String(), "policy": fmt.Sprintf("%+v", pol), "manifest_limit": c.API.Manifest.Limit, "artifacts": len(arts)}
	for _, a := range arts {
		g := vh.Do(srv, vh.Req{Method: "GET", URL: "/v2/b/manifests/" + a.m.D, H: map[string]string{"Accept": vh.AcceptAll}})
		gl := vh.Do(srv, vh.Req{Method: "GET", URL: "/v2/b/blobs/" + a.l.D})
		if g.Status != 200 || gl.Status != 200 {
			r.Violation("referrer-of-retained-subject-lost", fmt.Sprintf("a collection (everything old, %s store, manifest limit %d) removed artifact %s of a tagged subject with %d artifacts: manifest %d, its layer %d", kind, c.API.Manifest.Limit, a.m.Name, len(arts), g.Status, gl.Status), wit)
			return
		}
	}
	r.Distinct("big_referrers_cells", fmt.Sprintf("%s/%d/%v%v%v", kind, c.API.Manifest.Limit, pol.Untagged, pol.Dangling, pol.WithSubj))
}

// tickSequence (C06): the store-wide pass is called the way the ticker calls it - again and again, each time with
// the time of the call before as "previous tick" - while content comes in late: (a) an unreferenced blob uploaded
// long (several passes) after the last change of the repository's index, with or without a read request right after
// it, (b) an unreferenced blob that is pushed again shortly before its grace period ends.  Once the blob is older
// than the grace period (counted from its last acknowledged push) and a further pass has run, it is gone.  All
// timing is one-sided: the passes get honest tick times, delays only make the blob older.
func tickSequence(r *vh.Run, i int) {
	kind := []vh.StoreKind{vh.Dir, vh.Mem, vh.MemDir}[i%3]
	variant := []string{"late-upload", "late-upload+read", "re-push", "late-upload+manifest-read", "content-deleted", "restart"}[(i/3)%6]
	root := ""
	if kind != vh.Mem {
		root = r.TempDir("tick")
		defer vh.RemoveAll(root)
	}
	const G = 300 * time.Millisecond
	startKind := kind
	if variant == "restart" && kind == vh.MemDir {
		startKind = vh.Dir // the directory is written by a directory store; the memory store is opened over it afterwards
	}
	srv := vh.New(vh.Conf(startKind, root, vh.Policy{Untagged: true, Dangling: true, WithSubj: true, Grace: G}))
	defer func() { _ = srv.Close() }()
	wit := map[string]any{"trial": i, "store": kind.String(), "variant": variant, "grace": G.String()}
	prev := time.Now().Add(-time.Second)
	passes := 0
	pass := func() {
		cur := time.Now()
		_ = srv.VerifGCPass(cur, prev)
		prev = cur
		passes++
	}
	passesFor := func(d time.Duration) {
		t0 := time.Now()
		for time.Since(t0) < d {
			pass()
			time.Sleep(40 * time.Millisecond)
		}
	}
	pass()
	cfg := &vh.Blob{Name: "cfg", B: []byte(fmt.Sprintf("tick config %d", i))}
	cfg.D = vh.DigestOf("sha256", cfg.B)
	img := vh.MkImage("kept", "sha256", vh.MTImage, cfg, vh.MTConfig, nil, "", "", map[string]string{"n": fmt.Sprint(i)})
	vh.Do(srv, vh.Req{Method: "POST", URL: "/v2/t/blobs/uploads/?digest=" + cfg.D, Body: cfg.B})
	if rs := vh.Do(srv, vh.Req{Method: "PUT", URL: "/v2/t/manifests/keep", H: map[string]string{"Content-Type": img.MT}, Body: img.Raw}); rs.Status != 201 {
		r.Inconclusive(fmt.Sprintf("tickSequence: tagged image not accepted (%d)", rs.Status))
		return
	}
	var gone *vh.Man
	if variant == "content-deleted" {
		gone = vh.MkImage("gone", "sha256", vh.MTImage, cfg, vh.MTConfig, nil, "", "", map[string]string{"n": fmt.Sprint(i), "g": "1"})
		if rs := vh.Do(srv, vh.Req{Method: "PUT", URL: "/v2/t/manifests/gone", H: map[string]string{"Content-Type": gone.MT}, Body: gone.Raw}); rs.Status != 201 {
			r.Inconclusive(fmt.Sprintf("tickSequence: second image not accepted (%d)", rs.Status))
			return
		}
	}
	passesFor(G + 600*time.Millisecond) // the index was last changed long ago, as the passes count
	if variant == "content-deleted" {
		// (c) the content of a tagged manifest is removed through the blob API long after the last change of the index:
		// what stays behind is an index entry without content, and "one pass ... leaves no index entry without backing
		// content" - the passes that follow have to visit the repository
		if rs := vh.Do(srv, vh.Req{Method: "DELETE", URL: "/v2/t/blobs/" + gone.D}); rs.Status != 202 {
			r.Inconclusive(fmt.Sprintf("tickSequence: blob delete answered %d", rs.Status))
			return
		}
		last := time.Now()
		for time.Since(last) < G+400*time.Millisecond {
			pass()
			time.Sleep(40 * time.Millisecond)
		}
		pass()
		r.Count("tick_sequence_trials", 1)
		r.Count("tick_sequence_passes", passes)
		r.Distinct("tick_sequence_cells", kind.String()+"/"+variant)
		wit["passes"] = passes
		tl := vh.Do(srv, vh.Req{Method: "GET", URL: "/v2/t/tags/list"})
		if strings.Contains(string(tl.Body), `"gone"`) {
			r.Violation("entry-without-content-survives-the-ticks", fmt.Sprintf("%s store: the content of the manifest tagged gone was removed through the blob API %s ago; after %d store-wide passes the tag is still listed (%s) although nothing backs it - the pass no longer visits the repository", kind, time.Since(last).Round(time.Millisecond), passes, strings.TrimSpace(string(tl.Body))), wit)
		}
		if rs := vh.Do(srv, vh.Req{Method: "GET", URL: "/v2/t/manifests/keep", H: map[string]string{"Accept": vh.AcceptAll}}); rs.Status != 200 {
			r.Violation("tagged-image-lost:tick-sequence", fmt.Sprintf("the tagged image is gone after the passes (status %d)", rs.Status), wit)
		}
		return
	}
	x := []byte(fmt.Sprintf("unreferenced content that arrives late %d", i))
	xd := vh.DigestOf("sha256", x)
	if rs := vh.Do(srv, vh.Req{Method: "POST", URL: "/v2/t/blobs/uploads/?digest=" + xd, Body: x}); rs.Status != 201 {
		r.Inconclusive(fmt.Sprintf("tickSequence: upload not accepted (%d)", rs.Status))
		return
	}
	last := time.Now()
	switch variant {
	case "late-upload+read":
		vh.Do(srv, vh.Req{Method: "GET", URL: "/v2/t/tags/list"})
	case "late-upload+manifest-read":
		vh.Do(srv, vh.Req{Method: "GET", URL: "/v2/t/manifests/keep", H: map[string]string{"Accept": vh.AcceptAll}})
	case "restart":
		// (d) the registry is stopped right after the upload (the blob is young: the collection in Close keeps it) and
		// started again on the same directory; only the tag is read.  The passes of the new process have to come back
		// to the repository once the blob's grace period is over
		if kind == vh.Mem {
			break // nothing of a memory store survives its process
		}
		_ = srv.Close()
		srv = vh.New(vh.Conf(kind, root, vh.Policy{Untagged: true, Dangling: true, WithSubj: true, Grace: G}))
		prev = time.Now().Add(-time.Second)
		if rs := vh.Do(srv, vh.Req{Method: "HEAD", URL: "/v2/t/blobs/" + xd}); rs.Status != 200 {
			r.Count("tick_sequence_restart_vacuous", 1) // collected at Close (a slow machine) or not backed by the directory: nothing left to show
		}
		vh.Do(srv, vh.Req{Method: "GET", URL: "/v2/t/manifests/keep", H: map[string]string{"Accept": vh.AcceptAll}})
	case "re-push":
		passesFor(G * 3 / 4)
		if rs := vh.Do(srv, vh.Req{Method: "HEAD", URL: "/v2/t/blobs/" + xd}); rs.Status == 200 {
			rs := vh.Do(srv, vh.Req{Method: "POST", URL: "/v2/t/blobs/uploads/?digest=" + xd, Body: x})
			wit["re_push_status"] = rs.Status
			last = time.Now()
		}
	}
	for time.Since(last) < G+400*time.Millisecond {
		pass()
		time.Sleep(40 * time.Millisecond)
	}
	pass()
	r.Count("tick_sequence_trials", 1)
	r.Count("tick_sequence_passes", passes)
	r.Distinct("tick_sequence_cells", kind.String()+"/"+variant)
	wit["passes"] = passes
	if rs := vh.Do(srv, vh.Req{Method: "HEAD", URL: "/v2/t/blobs/" + xd}); rs.Status == 200 {
		r.Violation("garbage-survives-the-ticks:"+variant, fmt.Sprintf("%s store, %s: an unreferenced blob whose last push was acknowledged %s ago (grace period %s) is still there after %d store-wide passes, each given the time of the one before as previous tick - the pass no longer visits the repository", kind, variant, time.Since(last).Round(time.Millisecond), G, passes), wit)
		return
	}
	if rs := vh.Do(srv, vh.Req{Method: "GET", URL: "/v2/t/manifests/keep", H: map[string]string{"Accept": vh.AcceptAll}}); rs.Status != 200 {
		r.Violation("tagged-image-lost:tick-sequence", fmt.Sprintf("the tagged image is gone after the passes (status %d)", rs.Status), wit)
	}
}

// subjectRemovedTrial (C06): "one collection pass removes ... referrers whose subject was removed".  An image older than
// the grace period gets an artifact (young), then the image is deleted by digest and a pass runs while the artifact and
// the referrers answer are still inside their grace period.  Once everything is older than the grace period and two
// more passes have run (one for the answer, one for what it was holding), nothing of the artifact is left - it must not
// end up as a "dangling" referrer that the policy (dangling referrers kept) then protects for ever.  A tagged image
// next to it stays.  Ages are set through the hook; no clock is read.
func subjectRemovedTrial(r *vh.Run, i int) {
	kind := []vh.StoreKind{vh.Dir, vh.Mem, vh.MemDir}[i%3]
	root := ""
	if kind != vh.Mem {
		root = r.TempDir("subj")
		defer vh.RemoveAll(root)
	}
	untagged := (i/3)%2 == 1
	srv := vh.New(vh.Conf(kind, root, vh.Policy{Untagged: untagged, Dangling: false, WithSubj: true, Grace: time.Hour}))
	defer func() { _ = srv.Close() }()
	wit := map[string]any{"trial": i, "store": kind.String(), "gc_untagged": untagged}
	cfg := &vh.Blob{Name: "cfg", B: []byte(fmt.Sprintf("subject removed config %d", i))}
	cfg.D = vh.DigestOf("sha256", cfg.B)
	lay := []byte(fmt.Sprintf("artifact layer %d", i))
	ld := vh.DigestOf("sha256", lay)
	put := func(m *vh.Man, ref string) int {
		return vh.Do(srv, vh.Req{Method: "PUT", URL: "/v2/q/manifests/" + ref, H: map[string]string{"Content-Type": m.MT}, Body: m.Raw}).Status
	}
	keep := vh.MkImage("keep", "sha256", vh.MTImage, cfg, vh.MTConfig, nil, "", "", map[string]string{"k": fmt.Sprint(i)})
	subj := vh.MkImage("subj", "sha256", vh.MTImage, cfg, vh.MTConfig, nil, "", "", map[string]string{"s": fmt.Sprint(i)})
	art := vh.MkImage("art", "sha256", vh.MTImage, cfg, vh.MTConfig, []vh.Descriptorish{{MT: vh.MTLayer, D: ld, Size: len(lay)}}, subj.D, "application/x.sig", map[string]string{"a": fmt.Sprint(i)})
	vh.Do(srv, vh.Req{Method: "POST", URL: "/v2/q/blobs/uploads/?digest=" + cfg.D, Body: cfg.B})
	vh.Do(srv, vh.Req{Method: "POST", URL: "/v2/q/blobs/uploads/?digest=" + ld, Body: lay})
	if put(keep, "kept") != 201 || put(subj, subj.D) != 201 {
		r.Inconclusive("subjectRemovedTrial: setup refused")
		return
	}
	old := time.Now().Add(-3 * time.Hour)
	if _, err := srv.VerifSetAllBlobTimes(context.Background(), "q", old); err != nil {
		r.Inconclusive("subjectRemovedTrial: cannot age the blobs: " + err.Error())
		return
	}
	if put(art, art.D) != 201 {
		r.Inconclusive("subjectRemovedTrial: artifact refused")
		return
	}
	if st := vh.Do(srv, vh.Req{Method: "DELETE", URL: "/v2/q/manifests/" + subj.D}).Status; st != 202 {
		r.Inconclusive(fmt.Sprintf("subjectRemovedTrial: delete of the subject answered %d", st))
		return
	}
	_ = srv.VerifGC(context.Background(), "q") // the artifact and its answer are young
	if _, err := srv.VerifSetAllBlobTimes(context.Background(), "q", old); err != nil {
		r.Inconclusive("subjectRemovedTrial: cannot age the blobs: " + err.Error())
		return
	}
	_ = srv.VerifGC(context.Background(), "q")
	_ = srv.VerifGC(context.Background(), "q")
	r.Count("subject_removed_trials", 1)
	r.Distinct("subject_removed_cells", fmt.Sprintf("%s/%v", kind, untagged))
	head := func(u string) int {
		return vh.Do(srv, vh.Req{Method: "HEAD", URL: u, H: map[string]string{"Accept": vh.AcceptAll}}).Status
	}
	ref := vh.Do(srv, vh.Req{Method: "GET", URL: "/v2/q/referrers/" + subj.D})
	am, al := head("/v2/q/manifests/"+art.D), head("/v2/q/blobs/"+ld)
	wit["artifact_manifest"], wit["artifact_layer"], wit["referrers"] = am, al, strings.TrimSpace(string(ref.Body))
	if am == 200 || al == 200 || strings.Contains(string(ref.Body), art.D) {
		r.Violation("referrer-of-removed-subject-survives", fmt.Sprintf("%s store (untagged collection %v, referrers collected with their subject, dangling referrers kept, grace 1h): an artifact was attached to an old image, the image deleted, a pass run while the artifact was young; after everything was aged and two more passes ran the artifact manifest answers %d, its layer %d, the referrers of the deleted image are %.150s - the referrer of a removed subject is never removed", kind, untagged, am, al, strings.TrimSpace(string(ref.Body))), wit)
		return
	}
	if st := head("/v2/q/manifests/kept"); st != 200 {
		r.Violation("tagged-image-lost:subject-removed", fmt.Sprintf("the tagged image next to the deleted subject answers %d after the passes", st), wit)
	}
}

// notARepositoryTrial (C06): "removes repositories left empty when so configured" - and nothing else.  The root of a
// directory store (think `serve --dir .`) holds directories that are no repositories (an index.json of some other
// application, an empty directory, a blobs/ directory with a readme, a layout of another version) and a repository
// whose index.json is cut off.  They are asked for (listings, manifest and blob probes: all refused or empty), then a
// store-wide pass, a collection of each name and Close run with the empty-repository removal on.  None of their files
// is garbage the policy names, and a repository whose index cannot be loaded has not been "left empty": everything is
// still there afterwards.  A real repository that was emptied next to them is removed, as configured.
func notARepositoryTrial(r *vh.Run, i int) {
	root := r.TempDir("notrepo")
	defer vh.RemoveAll(root)
	wr := func(rel, content string) {
		p := filepath.Join(root, rel)
		_ = os.MkdirAll(filepath.Dir(p), 0o755)
		_ = os.WriteFile(p, []byte(content), 0o644)
	}
	wr("notes/index.json", `{"title":"shopping list","items":["milk"]}`)
	_ = os.MkdirAll(filepath.Join(root, "placeholder"), 0o755)
	wr("data/blobs/readme.txt", "not a blob store")
	wr("data/keep.txt", "keep me")
	wr("team/app/index.json", `{"schemaVersion":2,"manifests":[]}`)
	wr("team/app/oci-layout", `{"imageLayoutVersion":"9.9.9"}`)
	wr("cut/oci-layout", `{"imageLayoutVersion":"1.0.0"}`)
	wr("cut/index.json", `{"schemaVersion":2,"manifests":[{"mediaType":"application/vnd.oci.image.manifest.v1+json","dig`)
	names := []string{"notes", "placeholder", "data", "team/app", "cut"}
	snap := func() string {
		var l []string
		_ = filepath.Walk(root, func(p string, fi os.FileInfo, err error) error {
			if err != nil {
				return nil
			}
			rel := strings.TrimPrefix(p, root)
			if rel == "" || strings.HasPrefix(rel, "/real") {
				return nil
			}
			if fi.IsDir() {
				l = append(l, rel+"/")
			} else {
				b, _ := os.ReadFile(p)
				l = append(l, fmt.Sprintf("%s %x", rel, sha256.Sum256(b)))
			}
			return nil
		})
		sort.Strings(l)
		return strings.Join(l, "\n")
	}
	before := snap()
	grace := []time.Duration{-1, time.Hour}[i%2]
	pol := vh.Policy{Untagged: i%4 >= 2, Dangling: true, WithSubj: true, EmptyRepo: true, Grace: grace}
	srv := vh.New(vh.Conf(vh.Dir, root, pol))
	wit := map[string]any{"trial": i, "grace": grace.String()}
	// a real repository, emptied: the control
	b := []byte(fmt.Sprintf("real content %d", i))
	bd := vh.DigestOf("sha256", b)
	vh.Do(srv, vh.Req{Method: "POST", URL: "/v2/real/blobs/uploads/?digest=" + bd, Body: b})
	vh.Do(srv, vh.Req{Method: "DELETE", URL: "/v2/real/blobs/" + bd})
	for _, n := range names {
		vh.Do(srv, vh.Req{Method: "GET", URL: "/v2/" + n + "/tags/list"})
		vh.Do(srv, vh.Req{Method: "HEAD", URL: "/v2/" + n + "/manifests/latest", H: map[string]string{"Accept": vh.AcceptAll}})
		vh.Do(srv, vh.Req{Method: "HEAD", URL: "/v2/" + n + "/blobs/" + bd})
	}
	now := time.Now()
	_ = srv.VerifGCPass(now, now.Add(-time.Minute))
	for _, n := range append(names, "real") {
		_ = srv.VerifGC(context.Background(), n)
	}
	_ = srv.Close()
	after := snap()
	r.Count("not_a_repository_trials", 1)
	if before != after {
		wit["before"], wit["after"] = before, after
		r.Violation("collection-removed-what-is-no-garbage", fmt.Sprintf("directory store with the empty-repository removal on: directories in the root that are no repositories (or a repository whose index.json cannot be loaded) were asked for and a collection ran - files of theirs are gone.\nbefore:\n%s\nafter:\n%s", before, after), wit)
		return
	}
	if grace < 0 {
		if _, err := os.Stat(filepath.Join(root, "real")); err == nil {
			r.Count("not_a_repository_control_still_there", 1)
		}
	}
}

// completionRace (C05, binary built with the filesystem shim): a collection and the completion of an upload meet on
// one blob file.  An unreferenced copy of X, older than the grace period, lies in the store; a client uploads X again
// through a session.  The collection is held (by the shim, right before the call) at the moment it removes the old
// copy - it has looked at the file's age already - and the completing PUT is let go.  Whatever the order the store
// chooses: a PUT answered 201 means X is served afterwards - it is an upload younger than the grace period.
func completionRace(r *vh.Run, i int) {
	root := r.TempDir("crace")
	defer vh.RemoveAll(root)
	srv := vh.New(vh.Conf(vh.Dir, root, vh.Policy{Untagged: true, Dangling: true, WithSubj: true, Grace: time.Hour}))
	defer func() { _ = srv.Close() }()
	x := []byte(fmt.Sprintf("content uploaded twice %d", i))
	xd := vh.DigestOf("sha256", x)
	wit := map[string]any{"trial": i}
	if rs := vh.Do(srv, vh.Req{Method: "POST", URL: "/v2/t/blobs/uploads/?digest=" + xd, Body: x}); rs.Status != 201 {
		r.Inconclusive("completionRace: first upload refused")
		return
	}
	if err := srv.VerifSetBlobTime(context.Background(), "t", digest.Digest(xd), time.Now().Add(-3*time.Hour)); err != nil {
		r.Inconclusive("completionRace: cannot age the blob: " + err.Error())
		return
	}
	ns := vh.Do(srv, vh.Req{Method: "POST", URL: "/v2/t/blobs/uploads/"})
	loc := ns.H.Get("Location")
	if ns.Status != 202 || loc == "" {
		r.Inconclusive("completionRace: no session")
		return
	}
	atRemove, resume := make(chan struct{}), make(chan struct{})
	var once sync.Once
	unreg := vfs.Register(root, func(ev vfs.Event) {
		if ev.Phase == "before" && ev.Op == "remove" && strings.HasSuffix(ev.Path, xd[7:]) && strings.Contains(ev.Path, "/blobs/") {
			fire := false
			once.Do(func() { fire = true })
			if fire {
				close(atRemove)
				<-resume
			}
		}
	})
	defer unreg()
	// the completing PUT: the handler has found the session and is reading the body
	pr, pw := io.Pipe()
	putDone := make(chan int, 1)
	go func() {
		rs := vh.DoStream(srv, "PUT", loc+"&digest="+xd, nil, pr)
		putDone <- rs.Status
	}()
	if _, err := pw.Write(x); err != nil {
		r.Inconclusive("completionRace: body not read")
		return
	}
	gcDone := make(chan struct{})
	go func() { _ = srv.VerifGC(context.Background(), "t"); close(gcDone) }()
	select {
	case <-atRemove:
	case <-gcDone:
		// the collection did not try to remove the old copy (nothing to decide)
		_ = pw.Close()
		<-putDone
		r.Count("completion_race_not_reached", 1)
		return
	}
	_ = pw.Close() // the body ends: the handler completes the upload while the collection stands right before the removal
	status := 0
	select {
	case status = <-putDone:
		wit["completion"] = "returned while the collection was held"
	case <-time.After(300 * time.Millisecond):
		wit["completion"] = "waited for the collection"
	}
	close(resume)
	<-gcDone
	if status == 0 {
		status = <-putDone
	}
	r.Count("completion_race_trials", 1)
	r.Distinct("completion_outcomes", fmt.Sprint(wit["completion"], " / ", status))
	wit["put_status"] = status
	if status != 201 {
		return // refused completions promise nothing
	}
	rs := vh.Do(srv, vh.Req{Method: "GET", URL: "/v2/t/blobs/" + xd})
	if rs.Status != 200 || string(rs.Body) != string(x) {
		r.Violation("acknowledged-upload-removed-by-collection", fmt.Sprintf("directory store: the completing PUT of a session upload was answered 201 while a collection stood right before removing an older, expired copy of the same blob; afterwards GET of the blob answers %d - an upload acknowledged a moment ago, far younger than the grace period (1 h), is gone", rs.Status), wit)
	}
}

// tagOrderTrial (C05): one image under three tags, two of them deleted in every order (what is left in index.json -
// an untagged entry before or after the entry of the remaining tag - depends on that order), and a tagged artifact of
// the image whose tag is deleted.  Collection with untagged manifests enabled and no grace period, on all three
// stores and again after a reopen: the image still pulls completely under the remaining tag, and the artifact - a
// referrer of a retained subject - is still served and listed.
func tagOrderTrial(r *vh.Run, i int) {
	kind := []vh.StoreKind{vh.Mem, vh.Dir, vh.MemDir}[i%3]
	orders := [][2]string{{"t1", "t2"}, {"t2", "t1"}, {"t1", "t3"}, {"t3", "t1"}, {"t2", "t3"}, {"t3", "t2"}}
	ord := orders[(i/3)%6]
	root := ""
	if kind != vh.Mem {
		root = r.TempDir("tago")
		defer vh.RemoveAll(root)
	}
	pol := vh.Policy{Untagged: true, Dangling: false, WithSubj: true, Grace: -1}
	srv := vh.New(vh.Conf(kind, root, pol))
	defer func() { _ = srv.Close() }()
	wit := map[string]any{"trial": i, "store": kind.String(), "tags_deleted_in_order": ord}
	acc := map[string]string{"Accept": vh.AcceptAll}
	cfg := &vh.Blob{Name: "cfg", B: []byte(fmt.Sprintf("tag order config %d", i))}
	cfg.D = vh.DigestOf("sha256", cfg.B)
	lay := &vh.Blob{Name: "lay", B: []byte(fmt.Sprintf("tag order layer %d", i))}
	lay.D = vh.DigestOf("sha256", lay.B)
	img := vh.MkImage("img", "sha256", vh.MTImage, cfg, vh.MTConfig, []vh.Descriptorish{{MT: vh.MTLayer, D: lay.D, Size: len(lay.B)}}, "", "", map[string]string{"n": fmt.Sprint(i)})
	art := vh.MkImage("art", "sha256", vh.MTImage, cfg, vh.MTConfig, nil, img.D, "application/x.sig", map[string]string{"a": fmt.Sprint(i)})
	for _, b := range []*vh.Blob{cfg, lay} {
		vh.Do(srv, vh.Req{Method: "POST", URL: "/v2/t/blobs/uploads/?digest=" + b.D, Body: b.B})
	}
	// where the artifact's entry sits in index.json decides which entry a removal swaps into the freed place
	artWhen := []string{"after the image", "before the image", "never"}[(i/18)%3]
	wit["artifact_pushed"] = artWhen
	ok := true
	putArt := func() {
		ok = ok && vh.Do(srv, vh.Req{Method: "PUT", URL: "/v2/t/manifests/sig", H: map[string]string{"Content-Type": art.MT}, Body: art.Raw}).Status == 201
	}
	if artWhen == "before the image" {
		putArt()
	}
	for _, tg := range []string{"t1", "t2", "t3"} {
		ok = ok && vh.Do(srv, vh.Req{Method: "PUT", URL: "/v2/t/manifests/" + tg, H: map[string]string{"Content-Type": img.MT}, Body: img.Raw}).Status == 201
	}
	if artWhen == "after the image" {
		putArt()
	}
	for _, tg := range ord {
		ok = ok && vh.Do(srv, vh.Req{Method: "DELETE", URL: "/v2/t/manifests/" + tg}).Status == 202
	}
	if artWhen != "never" {
		ok = ok && vh.Do(srv, vh.Req{Method: "DELETE", URL: "/v2/t/manifests/sig"}).Status == 202
	}
	if !ok {
		r.Inconclusive("tagOrderTrial: setup refused")
		return
	}
	left := map[string]bool{"t1": true, "t2": true, "t3": true}
	delete(left, ord[0])
	delete(left, ord[1])
	var keep string
	for t := range left {
		keep = t
	}
	check := func(h http.Handler, when string) bool {
		g := vh.Do(h, vh.Req{Method: "GET", URL: "/v2/t/manifests/" + keep, H: acc})
		if g.Status != 200 || string(g.Body) != string(img.Raw) {
			r.Violation("tagged-image-incomplete:after-tag-deletes", fmt.Sprintf("%s store, %s: the image was pushed as t1 t2 t3, %s and %s were deleted; tag %s answers %d", kind, when, ord[0], ord[1], keep, g.Status), wit)
			return false
		}
		for _, b := range []*vh.Blob{cfg, lay} {
			if bs := vh.Do(h, vh.Req{Method: "GET", URL: "/v2/t/blobs/" + b.D}); bs.Status != 200 || string(bs.Body) != string(b.B) {
				r.Violation("tagged-image-incomplete:after-tag-deletes", fmt.Sprintf("%s store, %s: %s of the image still tagged %s answers %d (tags %s, %s deleted)", kind, when, b.Name, keep, bs.Status, ord[0], ord[1]), wit)
				return false
			}
		}
		if artWhen == "never" {
			return true
		}
		if a := vh.Do(h, vh.Req{Method: "GET", URL: "/v2/t/manifests/" + art.D, H: acc}); a.Status != 200 {
			r.Violation("referrer-of-retained-subject-lost:tag-deleted", fmt.Sprintf("%s store, %s: the artifact of the tagged image was pushed under a tag, only the tag was deleted; GET by digest answers %d", kind, when, a.Status), wit)
			return false
		}
		if l := vh.Do(h, vh.Req{Method: "GET", URL: "/v2/t/referrers/" + img.D}); l.Status != 200 || !strings.Contains(string(l.Body), art.D) {
			r.Violation("referrer-of-retained-subject-lost:tag-deleted", fmt.Sprintf("%s store, %s: the artifact whose tag was deleted is no longer listed as referrer of the tagged image", kind, when), wit)
			return false
		}
		return true
	}
	if !check(srv, "before any collection") {
		return
	}
	_ = srv.VerifGC(context.Background(), "t")
	if !check(srv, "after a collection") {
		return
	}
	_ = srv.VerifGC(context.Background(), "t")
	if !check(srv, "after a second collection") {
		return
	}
	if kind == vh.Dir {
		_ = srv.Close()
		srv = vh.New(vh.Conf(kind, root, pol))
		if !check(srv, "after Close and reopen") {
			return
		}
	}
	r.Count("tag_order_trials", 1)
	r.Distinct("tag_order_cells", fmt.Sprint(kind, ord, artWhen))
}

// entryWithoutContent (C06): "leaves no index entry without backing content".  The content of a manifest is removed
// through the blob API (or behind the registry's back) while its index entry stays; one pass later index.json has
// no entry whose blob is missing - whether the policy would have kept that entry or not - and a repository in which
// nothing else is left is removed when so configured.  Directory store (the entries are observable in index.json).
func entryWithoutContent(r *vh.Run, i int) {
	root := r.TempDir("ewc")
	defer vh.RemoveAll(root)
	untaggedPolicy := i%2 == 0
	how := []string{"blob-api", "file-removed"}[(i/2)%2]
	emptied := (i/4)%2 == 1
	pol := vh.Policy{Untagged: untaggedPolicy, Dangling: true, WithSubj: true, EmptyRepo: true, Grace: -1}
	srv := vh.New(vh.Conf(vh.Dir, root, pol))
	defer func() { _ = srv.Close() }()
	wit := map[string]any{"trial": i, "gc_untagged": untaggedPolicy, "content_removed_by": how, "rest_of_repository_deleted": emptied}
	cfg := &vh.Blob{Name: "cfg", B: []byte(fmt.Sprintf("ewc config %d", i))}
	cfg.D = vh.DigestOf("sha256", cfg.B)
	keep := vh.MkImage("keep", "sha256", vh.MTImage, cfg, vh.MTConfig, nil, "", "", map[string]string{"k": fmt.Sprint(i)})
	lost := vh.MkImage("lost", "sha256", vh.MTImage, cfg, vh.MTConfig, nil, "", "", map[string]string{"l": fmt.Sprint(i)})
	vh.Do(srv, vh.Req{Method: "POST", URL: "/v2/e/blobs/uploads/?digest=" + cfg.D, Body: cfg.B})
	ok := vh.Do(srv, vh.Req{Method: "PUT", URL: "/v2/e/manifests/kept", H: map[string]string{"Content-Type": keep.MT}, Body: keep.Raw}).Status == 201
	ok = ok && vh.Do(srv, vh.Req{Method: "PUT", URL: "/v2/e/manifests/" + lost.D, H: map[string]string{"Content-Type": lost.MT}, Body: lost.Raw}).Status == 201
	if !ok {
		r.Inconclusive("entryWithoutContent: setup refused")
		return
	}
	if how == "blob-api" {
		if st := vh.Do(srv, vh.Req{Method: "DELETE", URL: "/v2/e/blobs/" + lost.D}).Status; st != 202 {
			r.Inconclusive(fmt.Sprintf("entryWithoutContent: blob delete answered %d", st))
			return
		}
	} else {
		_ = os.Remove(filepath.Join(root, "e", "blobs", "sha256", lost.D[7:]))
	}
	if emptied {
		vh.Do(srv, vh.Req{Method: "DELETE", URL: "/v2/e/manifests/" + keep.D})
		vh.Do(srv, vh.Req{Method: "DELETE", URL: "/v2/e/blobs/" + cfg.D})
	}
	for pass := 1; pass <= 2; pass++ {
		_ = srv.VerifGC(context.Background(), "e")
		wit["pass"] = pass
		if b, err := os.ReadFile(filepath.Join(root, "e", "index.json")); err == nil && strings.Contains(string(b), lost.D) {
			r.Violation("index-entry-without-content", fmt.Sprintf("directory store, gc-untagged=%v: the blob of an untagged manifest was removed (%s), its index entry is still in index.json after collection pass %d", untaggedPolicy, how, pass), wit)
			return
		}
	}
	if emptied {
		if _, err := os.Stat(filepath.Join(root, "e")); err == nil {
			if ents, _ := os.ReadDir(filepath.Join(root, "e")); len(ents) > 0 {
				r.Violation("empty-repository-kept", "directory store, EmptyRepo on: everything in the repository was deleted (one manifest lost its content first); after two passes the repository directory is still there", wit)
				return
			}
		}
	} else if rs := vh.Do(srv, vh.Req{Method: "GET", URL: "/v2/e/manifests/kept", H: map[string]string{"Accept": vh.AcceptAll}}); rs.Status != 200 {
		r.Violation("tagged-image-lost:entry-without-content", fmt.Sprintf("the tagged image next to the damaged entry answers %d after the passes", rs.Status), wit)
		return
	}
	r.Count("entry_without_content_trials", 1)
}
