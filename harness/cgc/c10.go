package main

// Focus C10: the directory is always a valid OCI layout equal to the API state.
//
// The C05/C06 history generator (all policies, collections anywhere) drives a directory store and, in lockstep with
// identical random choices, a memory store twin.  After every operation:
//   - the repository directory is validated as an OCI image layout (oci-layout version, parseable index.json with
//     unique tags, every entry backed by a blob of the recorded size, every blob file hashing to its name, no stray
//     files), and the tags of index.json equal tags/list and the model;
//   - the complete observable snapshots of both stores are compared (store equivalence).
// At random points: collection, snapshot, Close, reopen, snapshot (restart equivalence), and at the end the
// directory is opened by a memory store layered over it (third equivalence).
// A separate scenario creates and empties nested repositories a, a/b, a/b/c in every order.

import (
	"context"
	"encoding/json"
	"fmt"
	"os"
	"path/filepath"
	"sort"
	"strings"
	"time"

	"github.com/olareg/olareg"
	"github.com/olareg/olareg/internal/verif/vh"
)

func (h *hist) layoutCheck(when string) {
	if h.kind != vh.Dir || h.bad {
		return
	}
	dir := filepath.Join(h.root, "r")
	h.r.Count("layout_validations", 1)
	if p := vh.ValidateLayout(dir); len(p) > 0 {
		h.viol("layout:"+p[0], fmt.Sprintf("%s (%s) the repository directory is not a valid OCI layout: %s", when, h.polString(), strings.Join(p, "; ")))
		return
	}
	m := h.w.Repos["r"]
	lt := vh.LayoutTags(dir)
	if lt == nil {
		if len(m.Tags) > 0 {
			h.viol("layout:tags-missing", fmt.Sprintf("%s: index.json unreadable but the API state has tags %v", when, m.Tags))
		}
		return
	}
	var a, b []string
	for t, d := range lt {
		a = append(a, t+"="+d)
	}
	for t, d := range m.Tags {
		b = append(b, t+"="+d)
	}
	sort.Strings(a)
	sort.Strings(b)
	if strings.Join(a, ",") != strings.Join(b, ",") {
		h.viol("layout:tags-differ", fmt.Sprintf("%s: index.json has tags %v, the API state has %v", when, a, b))
	}
}

func snapEq(a, b vh.Snap) bool {
	a.Prob, b.Prob = nil, nil
	ja, _ := json.Marshal(a)
	jb, _ := json.Marshal(b)
	return string(ja) == string(jb)
}

// adoptSnap makes the model follow an observed snapshot (used after a classified, recorded difference).
func (h *hist) adoptSnap(s vh.Snap) {
	m := h.w.Repos["r"]
	for _, mm := range h.w.U.Mans {
		if s.Man[mm.D] == "ok" && m.Mans[mm.D] == nil {
			m.Mans[mm.D] = mm
			m.Adopted[mm.D] = true
		} else if s.Man[mm.D] != "ok" && m.Mans[mm.D] != nil && m.Stored[mm.D] != nil {
			delete(m.Mans, mm.D)
			m.Adopted[mm.D] = false
		}
	}
	for d := range m.Stored {
		if got, kn := s.Blob[d]; kn && !got {
			delete(m.Stored, d)
		}
	}
}

func (h *hist) restartCheck() (diverged bool) {
	if h.kind != vh.Dir || h.bad {
		return
	}
	w := h.w
	a := w.RealSnap("r")
	if len(a.Prob) > 0 {
		h.viol("restart:damaged", a.Prob[0])
		return
	}
	_ = h.srv.Close()
	h.srv = vh.New(vh.Conf(vh.Dir, h.root, h.pol))
	w.H = h.srv
	w.T("RESTART")
	h.r.Count("restarts", 1)
	b := w.RealSnap("r")
	h.layoutCheck("after a restart")
	if h.bad || snapEq(a, b) {
		return
	}
	known, unknown := h.classifySecondPass(a, b)
	if len(unknown) > 0 || len(b.Prob) > 0 {
		h.viol("restart-changed-state", fmt.Sprintf("closing and reopening the directory (%s) changed the answers: %s %v", h.polString(), strings.Join(unknown, "; "), b.Prob))
		return
	}
	for _, k := range known {
		h.viol(strings.Replace(k, "second-pass", "restart", 1), "surfaced at a restart: "+diffSnap(w, a, b))
	}
	h.adoptSnap(b)
	return true
}

func runC10(r *vh.Run, i int) {
	if only := os.Getenv("VERIF_ONLY"); only != "" && only != fmt.Sprint(i) {
		return
	}
	mk := func(kind vh.StoreKind, root string) *hist {
		rng := r.Rand(i)
		u := vh.GenUniverse(rng, vh.UOpts{Aliasing: true, Algs: i%3 == 0, Docker: i%2 == 1, BareMT: i%4 == 2, MTSkew: i%4 == 3, Tag: fmt.Sprint(i)})
		pol := vh.Policy{Untagged: rng.Intn(2) == 0, Dangling: rng.Intn(2) == 0, WithSubj: rng.Intn(2) == 0, EmptyRepo: rng.Intn(2) == 0, Grace: time.Hour}
		if rng.Intn(2) == 0 {
			pol.Grace = -1
		}
		if i%5 == 0 {
			pol = vh.Policy{WithSubj: true, EmptyRepo: true, Grace: time.Hour} // the defaults
		}
		srv := vh.New(vh.Conf(kind, root, pol))
		h := &hist{r: r, focus: "C10", idx: i, rng: rng, srv: srv, kind: kind, root: root, pol: pol, young: map[string]bool{}, touched: map[string]bool{}, unlisted: map[string]bool{}}
		h.w = vh.NewWorld(r, srv, u, kind, "r")
		return h
	}
	root := r.TempDir("c10")
	defer vh.RemoveAll(root)
	hd := mk(vh.Dir, root)
	hm := mk(vh.Mem, "")
	twin := true
	both := func(f func(h *hist)) {
		f(hd)
		if twin {
			f(hm)
		}
	}
	compareTwin := func(when string) {
		if !twin || hd.bad {
			return
		}
		strip := func(tr []string) string {
			var o []string
			for _, t := range tr {
				if t != "RESTART" {
					o = append(o, t)
				}
			}
			return strings.Join(o, ";")
		}
		if hm.bad || strip(hd.w.Trace) != strip(hm.w.Trace) {
			// the two stores answered a request differently (or one model adopted a recorded finding): compare once more, then stop the lockstep
			twin = false
		}
		a, b := hm.w.RealSnap("r"), hd.w.RealSnap("r")
		r.Count("store_equivalence_steps", 1)
		if snapEq(a, b) {
			if !twin {
				r.Count("twin_stopped", 1)
			}
			return
		}
		known, unknown := hd.classifyDiff(a, b, hm.w.Repos["r"])
		if len(unknown) > 0 {
			hd.viol("stores-differ", fmt.Sprintf("%s the directory store and the memory store, given the same requests (%s), answer differently: %s", when, hd.polString(), strings.Join(unknown, "; ")))
			return
		}
		for _, k := range known {
			hd.viol(strings.Replace(k, "second-pass", "store-equivalence", 1), "directory vs memory store: "+diffSnap(hd.w, a, b))
		}
		twin = false // the stores legitimately differ from here on (recorded finding); stop comparing
		r.Count("twin_stopped", 1)
	}
	both(func(h *hist) {
		for _, b := range h.w.U.Blobs {
			if h.rng.Intn(10) < 7 {
				if rs := h.w.PushBlob("r", b); rs.Status == 201 {
					h.young[b.D] = true
				}
			}
		}
	})
	ctl := r.Rand(5_000_000 + i) // decisions of the driver itself, independent of the two histories' own streams
	nops := 25 + ctl.Intn(25)
	pauses := 0
	if i%50 == 7 {
		pauses = 3 // the directory store may reload index.json in the middle of the history (it looks again after a second)
		r.Count("histories_with_mid_history_reloads", 1)
	}
	for op := 0; op < nops && !hd.bad; op++ {
		if pauses > 0 && op > 3 && ctl.Intn(5) == 0 {
			pauses--
			time.Sleep(1100 * time.Millisecond)
		}
		both(func(h *hist) { h.step(); h.noteOrphans() })
		if hd.diverged && twin {
			twin = false // a collection inside the step recognised a recorded finding on the directory store
			r.Count("twin_stopped", 1)
		}
		r.Count("operations", 1)
		hd.layoutCheck("after an operation")
		compareTwin("after an operation")
		if !hd.bad && ctl.Intn(12) == 0 {
			both(func(h *hist) { h.collect() })
			if hd.diverged && twin {
				twin = false
				r.Count("twin_stopped", 1)
			}
			if hd.restartCheck() && twin {
				twin = false // a recorded finding surfaced at the reload: the memory twin legitimately differs from here on
				r.Count("twin_stopped", 1)
			}
			compareTwin("after a restart of the directory store")
		}
	}
	if !hd.bad {
		both(func(h *hist) { h.collect() })
		if hd.restartCheck() || hd.diverged {
			twin = false
		}
		compareTwin("after the final restart")
	}
	if !hd.bad {
		// memory store layered over the directory just written
		a := hd.w.RealSnap("r")
		_ = hd.srv.Close()
		p := hd.pol
		ms := vh.New(vh.Conf(vh.MemDir, root, p))
		hd.w.H = ms
		b := hd.w.RealSnap("r")
		r.Count("memdir_equivalence_checks", 1)
		if !snapEq(a, b) {
			known, unknown := hd.classifySecondPass(a, b)
			if len(unknown) > 0 {
				hd.viol("memdir-differs", fmt.Sprintf("a memory store layered over the directory answers differently from the directory store: %s", strings.Join(unknown, "; ")))
			}
			for _, k := range known {
				hd.viol(strings.Replace(k, "second-pass", "memdir", 1), "memory-over-directory vs directory: "+diffSnap(hd.w, a, b))
			}
		}
		if !hd.bad {
			// the layered store keeps following the specification when content that also lies in the directory is
			// deleted, pushed again (a memory copy then shadows the file) and deleted again
			m := hd.w.Repos["r"]
			var cands []string
			for d := range m.Stored {
				if m.Mans[d] == nil && hd.w.U.BlobByD[d] != nil {
					cands = append(cands, d)
				}
			}
			sort.Strings(cands)
			for k := 0; k < 3 && len(cands) > 0 && !hd.bad; k++ {
				d := cands[ctl.Intn(len(cands))]
				bl := hd.w.U.BlobByD[d]
				var ops []string
				switch ctl.Intn(3) {
				case 0:
					ops = []string{"delete", "push", "delete"}
				case 1:
					ops = []string{"push", "delete"}
				default:
					ops = []string{"push", "delete", "push"}
				}
				for _, op := range ops {
					if op == "push" {
						hd.w.PushBlob("r", bl)
					} else {
						hd.w.DeleteBlob("r", d, bl.Name) // (the property speaks of read requests: the status of the DELETE itself is not judged here)
					}
					for _, meth := range []string{"HEAD", "GET"} {
						g := hd.w.Do(vh.Req{Method: meth, URL: "/v2/r/blobs/" + d})
						want := 404
						if m.Stored[d] != nil {
							want = 200
						}
						r.Count("memdir_operation_reads", 1)
						if g.Status != want || (want == 200 && meth == "GET" && string(g.Body) != string(bl.B)) {
							hd.viol("memdir-operation", fmt.Sprintf("memory over directory: after %v of blob %s (which also lies in the directory) %s answers %d, specification says %d", ops, bl.Name, meth, g.Status, want))
							break
						}
					}
				}
			}
		}
		_ = ms.Close()
	} else {
		_ = hd.srv.Close()
	}
	_ = hm.srv.Close()
	r.Count("histories", 1)
	r.Count("requests", hd.w.Reqs+hm.w.Reqs)
	g := "grace"
	if hd.pol.Grace < 0 {
		g = "nograce"
	}
	r.Distinct("policy_cells", fmt.Sprintf("%v%v%v%v/%s", hd.pol.Untagged, hd.pol.Dangling, hd.pol.WithSubj, hd.pol.EmptyRepo, g))
	if !hd.bad {
		r.Distinct("histories_distinct", fmt.Sprintf("%d:%s", i, strings.Join(hd.w.Trace, ";")))
	}
	if i < 2 {
		tr := hd.w.Trace
		if len(tr) > 30 {
			tr = tr[:30]
		}
		r.Sample(map[string]any{"history": i, "policy": hd.polString(), "first_operations": tr})
	}
}

// nested: repositories a, a/b, a/b/c are created and emptied in every order; every directory that holds content must
// stay a valid layout and the other repositories must keep answering.
func nested(r *vh.Run, i int) {
	rng := r.Rand(1_100_000 + i)
	root := r.TempDir("nest")
	defer vh.RemoveAll(root)
	pol := vh.Policy{Untagged: true, Dangling: true, WithSubj: true, EmptyRepo: i%4 != 3, Grace: -1}
	if i%2 == 1 {
		pol.Grace = time.Hour
	}
	var srv *olareg.Server = vh.New(vh.Conf(vh.Dir, root, pol))
	defer func() { _ = srv.Close() }()
	names := []string{"a", "a/b", "a/b/c"}
	algs := []string{"sha256", "sha512", "sha384"}
	type content struct {
		blob, man string
		b, m      []byte
	}
	have := map[string]*content{}
	wit := map[string]any{"trial": i, "policy": fmt.Sprintf("%+v", pol)}
	var trace []string
	viol := func(sig, detail string) {
		wit["trace"] = trace
		r.Violation(sig, detail, wit)
	}
	ctx := context.Background()
	check := func(when string) bool {
		for _, n := range names {
			dir := filepath.Join(root, n)
			r.Count("layout_validations", 1)
			if p := vh.ValidateLayout(dir); len(p) > 0 {
				viol("layout:nested:"+p[0], fmt.Sprintf("%s: %s is not a valid OCI layout: %s", when, n, strings.Join(p, "; ")))
				return false
			}
			c := have[n]
			rs := vh.Do(srv, vh.Req{Method: "GET", URL: "/v2/" + n + "/manifests/latest", H: map[string]string{"Accept": vh.AcceptAll}})
			if c != nil && (rs.Status != 200 || string(rs.Body) != string(c.m)) {
				viol("nested:lost", fmt.Sprintf("%s: repository %s no longer serves its tagged manifest (status %d)", when, n, rs.Status))
				return false
			}
			if c == nil && rs.Status == 200 {
				viol("nested:leak", fmt.Sprintf("%s: repository %s serves a manifest it does not hold", when, n))
				return false
			}
			if c != nil {
				bs := vh.Do(srv, vh.Req{Method: "GET", URL: "/v2/" + n + "/blobs/" + c.blob})
				if bs.Status != 200 || string(bs.Body) != string(c.b) {
					viol("nested:lost", fmt.Sprintf("%s: repository %s no longer serves its config blob (status %d)", when, n, bs.Status))
					return false
				}
			}
		}
		return true
	}
	order := rng.Perm(3)
	for _, k := range order {
		n := names[k]
		alg := algs[rng.Intn(3)]
		b := []byte(fmt.Sprintf(`{"nested":"%s","i":%d}`, n, i))
		bl := &vh.Blob{Name: "cfg", B: b, D: vh.DigestOf(alg, b)}
		mm := vh.MkImage("m", alg, vh.MTImage, bl, vh.MTConfig, nil, "", "", map[string]string{"repo": n})
		if rs := vh.Do(srv, vh.Req{Method: "POST", URL: "/v2/" + n + "/blobs/uploads/?digest=" + bl.D, Body: b}); rs.Status != 201 {
			viol("nested:push", fmt.Sprintf("blob push to %s answered %d", n, rs.Status))
			return
		}
		trace = append(trace, "blob -> "+n+" ("+alg+")")
		if rng.Intn(2) == 0 {
			// a collection between the upload and the manifest of a first push
			_ = srv.VerifGC(ctx, n)
			trace = append(trace, "GC "+n)
			if pol.Grace < 0 {
				// without a grace period the unreferenced blob is garbage: upload it again
				vh.Do(srv, vh.Req{Method: "POST", URL: "/v2/" + n + "/blobs/uploads/?digest=" + bl.D, Body: b})
			}
			if !check("after a collection between upload and manifest") {
				return
			}
		}
		if rs := vh.Do(srv, vh.Req{Method: "PUT", URL: vh.ManifestURL(n, mm, "latest"), H: map[string]string{"Content-Type": mm.MT}, Body: mm.Raw}); rs.Status != 201 {
			viol("nested:push", fmt.Sprintf("manifest push to %s answered %d", n, rs.Status))
			return
		}
		trace = append(trace, "manifest -> "+n)
		have[n] = &content{blob: bl.D, man: mm.D, b: b, m: mm.Raw}
		if !check("after a push") {
			return
		}
	}
	for _, k := range rng.Perm(3) {
		n := names[k]
		if rs := vh.Do(srv, vh.Req{Method: "DELETE", URL: "/v2/" + n + "/manifests/" + have[n].man}); rs.Status != 202 {
			viol("nested:delete", fmt.Sprintf("manifest delete in %s answered %d", n, rs.Status))
			return
		}
		delete(have, n)
		trace = append(trace, "delete manifest in "+n)
		if pol.Grace >= 0 {
			_, _ = srv.VerifSetAllBlobTimes(ctx, n, time.Now().Add(-10*time.Hour))
		}
		_ = srv.VerifGC(ctx, n)
		trace = append(trace, "GC "+n)
		if !check("after emptying " + n) {
			return
		}
		if rng.Intn(2) == 0 {
			_ = srv.Close()
			srv = vh.New(vh.Conf(vh.Dir, root, pol))
			trace = append(trace, "RESTART")
			if !check("after a restart") {
				return
			}
		}
		// push again into the emptied repository: it must become a valid layout again
		if rng.Intn(2) == 0 {
			b := []byte(fmt.Sprintf(`{"again":"%s","i":%d}`, n, i))
			bl := &vh.Blob{Name: "cfg", B: b, D: vh.DigestOf("sha256", b)}
			mm := vh.MkImage("m", "sha256", vh.MTImage, bl, vh.MTConfig, nil, "", "", map[string]string{"repo": n, "again": "1"})
			r1 := vh.Do(srv, vh.Req{Method: "POST", URL: "/v2/" + n + "/blobs/uploads/?digest=" + bl.D, Body: b})
			r2 := vh.Do(srv, vh.Req{Method: "PUT", URL: vh.ManifestURL(n, mm, "latest"), H: map[string]string{"Content-Type": mm.MT}, Body: mm.Raw})
			trace = append(trace, fmt.Sprintf("push again -> %s = %d %d", n, r1.Status, r2.Status))
			if r1.Status != 201 || r2.Status != 201 {
				viol("nested:push-again", fmt.Sprintf("push into the emptied repository %s answered %d / %d", n, r1.Status, r2.Status))
				return
			}
			have[n] = &content{blob: bl.D, man: mm.D, b: b, m: mm.Raw}
			if !check("after pushing again into " + n) {
				return
			}
		}
	}
	r.Count("nested_trials", 1)
	r.Distinct("nesting_orders", fmt.Sprint(order, pol.EmptyRepo, pol.Grace < 0))
}
