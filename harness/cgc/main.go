// cgc: garbage collection against the collection specification of DESIGN Appendix A (focus C05 or C06).
//
// Random object graphs (images sharing layers and configs, nested indexes sharing children, a manifest whose
// body is also a layer elsewhere, artifacts on images / indexes / artifacts / missing subjects), random push and
// delete histories, collection points everywhere (also between the uploads and the manifest of an image).  A
// collection is *triggered* through the verif hook, ages are *set* through the hook ("everything stored so far
// becomes old"), so no oracle compares with the wall clock.  All 16 policy combinations x grace {off, 1h} x
// {memory, directory, memory-over-directory}.
//
//	C05: every element of MustKeep is still served with its bytes after each collection; every tag resolves and
//	     every tagged image pulls completely.
//	C06: when nothing is young, every element of Garbage is gone after one pass, no index entry lacks its
//	     content, a second pass changes nothing, an emptied repository disappears when so configured; and a
//	     store-wide pass is not starved by failing, removed or empty repositories.
package main

import (
	"context"
	"encoding/json"
	"fmt"
	"math/rand"
	"os"
	"path/filepath"
	"sort"
	"strings"
	"time"

	"github.com/opencontainers/go-digest"

	"github.com/olareg/olareg"
	"github.com/olareg/olareg/internal/verif/vh"
	"github.com/olareg/olareg/internal/verif/vsync"
)

type hist struct {
	r       *vh.Run
	focus   string
	idx     int
	rng     *rand.Rand
	w       *vh.World
	srv     *olareg.Server
	kind    vh.StoreKind
	root    string
	pol     vh.Policy
	young   map[string]bool // stored since the last ageing (per storage event)
	touched map[string]bool // a referrer of this subject was pushed or deleted since the last ageing
	bad     bool
	ngc     int

	diverged bool            // a recorded finding was recognised and adopted (C10: the memory twin legitimately differs from here on)
	rm0      map[string]bool // cache for k6Vulnerable, valid for one judgement
	unlisted map[string]bool // K6: artifact dropped from its subject's referrers list by a collection while it survived
	// K1 candidates of any moment since the last judged collection: the directory store reloads index.json whenever its
	// time stamps ask for it (under load: at any request), so a manifest that was an orphan a few operations ago may
	// have been lost then, although something stored since makes it derivable again
	orphSince map[string]bool
	gonePass  map[string]bool
}

func (h *hist) polString() string {
	g := "off"
	if h.pol.Grace >= 0 {
		g = h.pol.Grace.String()
	}
	return fmt.Sprintf("U=%v D=%v W=%v E=%v grace=%s", h.pol.Untagged, h.pol.Dangling, h.pol.WithSubj, h.pol.EmptyRepo, g)
}

func (h *hist) viol(sig, detail string) {
	if !strings.HasPrefix(sig, "K") {
		h.bad = true
	}
	tr := h.w.Trace
	if len(tr) > 80 {
		tr = tr[len(tr)-80:]
	}
	h.r.Violation(sig, detail, map[string]any{"history": h.idx, "store": h.kind.String(), "policy": h.polString(), "trace": tr})
}

// spec computes MustKeep (RM/keepRM) and possibly-kept (PM/keepPM) per Appendix A.
func (h *hist) spec() (RM, keepRM, PM, keepPM map[string]bool) {
	return h.specX(nil)
}

// k6Vulnerable: an untagged artifact whose index entry lives only in the child list of its subject's referrers
// answer (it was adopted by the answer) and whose subject is not a present manifest: recorded finding K6 - the
// collector drops such an answer (even when young) and with it the only link to the artifact.
func (h *hist) k6Vulnerable(mm *vh.Man) bool {
	m := h.w.Repos["r"]
	if mm.Subject == "" || m.Tagged(mm.D) {
		return false
	}
	if h.unlisted[mm.D] {
		return true // the answer was already seen to have dropped it
	}
	if !m.Adopted[mm.D] {
		return false
	}
	// it hangs on its subject's referrers answer, which the collector keeps only if the subject is retained by other
	// means than through these very artifacts (a subject that is missing, deleted, or only kept alive by its own
	// referrers - the circular case)
	if h.rm0 == nil {
		h.rm0, _, _, _ = h.specX(func(x *vh.Man) bool {
			return x.Subject != "" && !m.Tagged(x.D) && (m.Adopted[x.D] || h.unlisted[x.D])
		})
	}
	return !h.rm0[mm.Subject]
}

// specX computes the sets with the manifests selected by exclude removed from the roots (used to recognise the
// content that only K6-vulnerable manifests retain).
func (h *hist) specX(exclude func(mm *vh.Man) bool) (RM, keepRM, PM, keepPM map[string]bool) {
	m := h.w.Repos["r"]
	u := h.w.U
	U, D, W := h.pol.Untagged, h.pol.Dangling, h.pol.WithSubj
	stored := func(d string) bool { return m.Stored[d] != nil }
	young := func(d string) bool { return h.pol.Grace >= 0 && stored(d) && h.young[d] }
	tagged := map[string]bool{}
	for _, d := range m.Tags {
		tagged[d] = true
	}
	// strict = follow references by role: children of an index are manifests and are expanded (whether or not they are
	// currently present at the API: a collector walks the stored bytes); config and layers of an image are opaque
	// content, even when those bytes happen to be a manifest body (MustKeep).  Non-strict follows every stored body in
	// every role, which over-approximates what may be kept (used for Garbage, so that claim is never too strong).
	compute := func(strict bool, root func(mm *vh.Man, in, keep map[string]bool) bool) (map[string]bool, map[string]bool) {
		in, keep := map[string]bool{}, map[string]bool{}
		expanded := map[string]bool{}
		var walk func(d string, asManifest bool)
		walk = func(d string, asManifest bool) {
			keep[d] = true
			if !asManifest && strict {
				return
			}
			if expanded[d] {
				return
			}
			if b := u.ByD[d]; b != nil && stored(d) {
				expanded[d] = true
				if m.Mans[d] != nil && asManifest {
					in[d] = true
				}
				for _, rf := range b.Refs {
					walk(rf, b.Index || !strict)
				}
			}
		}
		for changed := true; changed; {
			before := len(in) + len(keep) + len(expanded)
			for d, mm := range m.Mans {
				if !stored(d) || (exclude != nil && strict && exclude(mm)) {
					continue
				}
				if in[d] && expanded[d] {
					continue
				}
				if in[d] || root(mm, in, keep) {
					in[d] = true
					walk(d, true)
				}
			}
			changed = len(in)+len(keep)+len(expanded) != before
		}
		return in, keep
	}
	RM, keepRM = compute(true, func(mm *vh.Man, in, _ map[string]bool) bool {
		d := mm.D
		return tagged[d] || young(d) ||
			(!U && (mm.Subject == "" || !stored(mm.Subject) || in[mm.Subject] || (!W && !D))) ||
			(mm.Subject != "" && in[mm.Subject])
	})
	PM, keepPM = compute(false, func(mm *vh.Man, in, keep map[string]bool) bool {
		d := mm.D
		// a collector that walks stored bytes treats every digest it reaches as a possible subject, whether or not it is
		// still a manifest at the API: keep[subject] is enough for "possibly retained"
		return tagged[d] || young(d) || !U ||
			(mm.Subject != "" && (in[mm.Subject] || keep[mm.Subject] || (!stored(mm.Subject) && !D) || (!W && !D) || h.touched[mm.Subject]))
	})
	for d := range m.Stored {
		if young(d) {
			keepRM[d], keepPM[d] = true, true
		}
	}
	return
}

var _ = sort.Strings

func (h *hist) role(mm *vh.Man, RM map[string]bool) string {
	m := h.w.Repos["r"]
	k := "image"
	if mm.Index {
		k = "index"
	}
	if mm.Subject != "" {
		sub := "subj-not-stored"
		if m.Mans[mm.Subject] != nil {
			sub = "subj-present"
			if RM[mm.Subject] {
				sub = "subj-retained"
			}
		} else if m.Stored[mm.Subject] != nil {
			sub = "subj-deleted-bytes-linger"
		}
		k = "artifact(" + sub + ")"
	}
	tg, ag := "untagged", "old"
	if m.Tagged(mm.D) {
		tg = "tagged"
	}
	if h.pol.Grace >= 0 && h.young[mm.D] {
		ag = "young"
	}
	ad := ""
	if m.Adopted[mm.D] {
		ad = ",adopted"
	}
	return k + "," + tg + "," + ag + ad
}

func (h *hist) gcErrOK(err error) bool {
	// a collection of a repository that does not exist on disk reports "failed to load index": not an error of interest
	return err == nil || strings.Contains(err.Error(), "failed to load index")
}

// listing of the repository directory (directory store), for the convergence check.
func listing(root string) string {
	var l []string
	_ = filepath.Walk(root, func(p string, fi os.FileInfo, err error) error {
		if err == nil {
			l = append(l, fmt.Sprintf("%s %d", strings.TrimPrefix(p, root), fi.Size()))
		}
		return nil
	})
	sort.Strings(l)
	return strings.Join(l, "\n")
}

func (h *hist) collect() {
	w := h.w
	m := w.Repos["r"]
	ctx := context.Background()
	h.ngc++
	defer func() { h.orphSince = nil }() // judged: the window starts again
	allOld := h.pol.Grace < 0
	if h.rng.Intn(2) == 0 {
		if _, err := h.srv.VerifSetAllBlobTimes(ctx, "r", time.Now().Add(-10*time.Hour-time.Duration(h.ngc)*time.Second)); err == nil {
			h.young = map[string]bool{}
			h.touched = map[string]bool{}
			allOld = true
			w.T("AGE-ALL")
			if h.pol.Grace > 0 && h.rng.Intn(2) == 0 {
				// content that is old is uploaded again right before the collection: an acknowledged upload, so the
				// content is young, whatever the store did with the bytes it already had
				var cands []string
				for d := range m.Stored {
					if w.U.BlobByD[d] != nil {
						cands = append(cands, d)
					}
				}
				sort.Strings(cands)
				if len(cands) > 0 {
					b := w.U.BlobByD[cands[h.rng.Intn(len(cands))]]
					ack := false
					if h.rng.Intn(3) > 0 {
						// through a session, the path that does not look for existing content first
						rs := w.Do(vh.Req{Method: "POST", URL: "/v2/r/blobs/uploads/"})
						if loc := rs.H.Get("Location"); rs.Status == 202 && loc != "" {
							f := w.Do(vh.Req{Method: "PUT", URL: loc + "&digest=" + b.D, Body: b.B})
							w.T("blob(session) r/%s=%d", b.Name, f.Status)
							ack = f.Status == 201
						}
					} else {
						ack = w.PushBlob("r", b).Status == 201
					}
					if ack {
						h.young[b.D] = true
						allOld = false
						h.r.Count("reuploads_before_collection", 1)
					}
				}
			}
		}
	}
	RM, keepRM, PM, keepPM := h.spec()
	before := w.ModelSnap("r")
	dbg := os.Getenv("VERIF_DEBUG") != ""
	if dbg {
		b, _ := os.ReadFile(filepath.Join(h.root, "r", "index.json"))
		fmt.Fprintf(os.Stderr, "---- before GC %d: %s\n", h.ngc, b)
	}
	err := h.srv.VerifGC(ctx, "r")
	if dbg {
		b, _ := os.ReadFile(filepath.Join(h.root, "r", "index.json"))
		fmt.Fprintf(os.Stderr, "---- after GC %d: %s\n", h.ngc, b)
		for _, mm := range w.U.Mans {
			fmt.Fprintf(os.Stderr, "   %s %s subj=%s refs=%v\n", mm.Name, vh.Short(mm.D), w.NameOf(mm.Subject), w.NamesOf(mm.Refs))
		}
	}
	w.T("GC")
	h.r.Count("collections", 1)
	if !h.gcErrOK(err) {
		h.viol("gc-error", "collection failed: "+err.Error())
		return
	}
	real := w.RealSnap("r")
	// manifests the pass has removed and was free to remove: they no longer derive their adopted children (K1: such
	// a child has no entry of its own, so the pass that takes its last parent cannot see it - not even a young one)
	h.gonePass = map[string]bool{}
	for _, mm := range w.U.Mans {
		if m.Mans[mm.D] != nil && !RM[mm.D] && real.Man[mm.D] != "ok" {
			h.gonePass[mm.D] = true
		}
	}
	defer func() { h.gonePass = nil }()
	knownLost, unknownLost := false, false
	var lost []string
	// ---- C05: nothing of MustKeep is gone
	for _, mm := range w.U.Mans {
		d := mm.D
		if m.Mans[d] == nil || m.Stored[d] == nil {
			continue
		}
		got := real.Man[d]
		switch {
		case RM[d]:
			h.r.Count("mustkeep_manifests_checked", 1)
			if got != "ok" {
				sig := "mustkeep-manifest-lost:" + h.role(mm, RM)
				kf := h.knownLoss(mm, RM)
				if kf != "" {
					sig = kf + ":" + sig
				}
				if h.focus == "C05" || h.focus == "C06" || kf != "" {
					h.viol(sig, fmt.Sprintf("collection (%s) removed manifest %s [%s, subject %s] which the policy retains; answer now %s", h.polString(), mm.Name, h.role(mm, RM), w.NameOf(mm.Subject), got))
				}
				if kf != "" {
					knownLost = true
					lost = append(lost, mm.D)
				} else {
					unknownLost = true
				}
			}
		case !PM[d] && !keepPM[d]:
			if allOld {
				h.r.Count("garbage_manifests_checked", 1)
				if got == "ok" && h.focus == "C06" {
					h.viol("garbage-manifest-kept:"+h.role(mm, RM), fmt.Sprintf("collection (%s) kept manifest %s [%s] which nothing retains", h.polString(), mm.Name, h.role(mm, RM)))
				}
			}
		default:
			h.r.Count("unspecified_manifests", 1)
		}
	}
	if unknownLost {
		h.bad = true
		return
	}
	for _, d := range lost {
		delete(m.Mans, d)
		m.Adopted[d] = false
		h.diverged = true
	}
	if knownLost {
		// the content only a K1/K6-lost manifest referenced goes with it: judge content against the specification
		// of the state without those manifests
		_, keepRM, _, keepPM = h.spec()
		h.bad = false
	}
	for d := range m.Stored {
		got := real.Blob[d]
		_, known := real.Blob[d]
		if !known {
			continue
		}
		switch {
		case keepRM[d]:
			h.r.Count("mustkeep_content_checked", 1)
			if !got {
				sig := "mustkeep-content-lost"
				if kf := h.knownLossOf(d, false); kf != "" {
					sig = kf + ":" + sig // only K1-orphans / K6-vulnerable artifacts retain it
					h.diverged = true
				}
				if h.focus == "C05" || h.focus == "C06" || strings.HasPrefix(sig, "K") {
					h.viol(sig, fmt.Sprintf("collection (%s) removed %s which is referenced by retained content or is younger than the grace period", h.polString(), w.NameOf(d)))
				}
				if !strings.HasPrefix(sig, "K") {
					h.bad = true
				}
			}
		case !keepPM[d]:
			if allOld {
				h.r.Count("garbage_content_checked", 1)
				if got && h.focus == "C06" {
					h.viol("garbage-content-kept", fmt.Sprintf("collection (%s) kept %s which nothing references and which is older than the grace period", h.polString(), w.NameOf(d)))
				}
			}
		default:
			h.r.Count("unspecified_content", 1)
		}
	}
	for t, d := range m.Tags {
		if m.Stored[d] == nil {
			continue
		}
		if real.TagD[t] != d {
			if h.focus == "C05" {
				h.viol("tag-lost", fmt.Sprintf("after collection (%s) tag %s resolves to %q, was %s", h.polString(), t, real.TagD[t], w.NameOf(d)))
			}
			h.bad = true
		}
	}
	for _, p := range real.Prob {
		if h.focus == "C05" {
			h.viol("content-damaged", "after collection: "+p)
		}
		h.bad = true
	}
	if h.bad {
		return
	}
	// every tagged image still pulls completely
	if h.focus == "C05" {
		for t, d := range m.Tags {
			if m.Stored[d] == nil {
				continue
			}
			h.pull(d, "tag "+t, map[string]bool{})
		}
	}
	// ---- adopt the observation for everything the specification leaves open (and for what it constrains: judged above)
	for _, mm := range w.U.Mans {
		if real.Man[mm.D] == "ok" {
			if m.Mans[mm.D] == nil {
				m.Mans[mm.D] = mm      // K5-style resurrection through the reload a directory collection performs
				m.Adopted[mm.D] = true // it exists only as a child of the index that lists it
				h.diverged = true
				h.r.Count("resurrected_manifests_adopted", 1)
			}
		} else if m.Mans[mm.D] != nil && m.Stored[mm.D] != nil {
			delete(m.Mans, mm.D)
			m.Adopted[mm.D] = false
			for tg, d := range m.Tags {
				if d == mm.D {
					delete(m.Tags, tg)
				}
			}
		}
	}
	for d := range m.Stored {
		if got, known := real.Blob[d]; known && !got {
			delete(m.Stored, d)
			delete(h.young, d)
		}
	}
	_ = before
	// K6 observation: a surviving artifact that its subject's referrers answer no longer lists
	for _, sj := range w.U.Subjects {
		listed := map[string]bool{}
		for _, d := range real.Ref[sj] {
			listed[d] = true
		}
		for _, d := range m.Referrers(sj) {
			if !listed[d] && !h.unlisted[d] {
				h.unlisted[d] = true
				h.r.Count("k6_unlisted_observed", 1)
			}
		}
	}
	// ---- C06: no index entry without content; second pass changes nothing; empty repository removed
	if h.focus == "C06" {
		for _, mm := range w.U.Mans {
			rs := w.Do(vh.Req{Method: "GET", URL: "/v2/r/manifests/" + mm.D, H: map[string]string{"Accept": vh.AcceptAll}})
			if rs.Status == 404 {
				if codes, ok := vh.ErrCodes(rs.Body); ok && len(codes) > 0 && codes[0] == "MANIFEST_BLOB_UNKNOWN" {
					h.viol("entry-without-content", fmt.Sprintf("after collection (%s) the index lists %s but its content is gone", h.polString(), mm.Name))
					return
				}
			}
		}
		var l1 string
		if h.kind == vh.Dir {
			l1 = listing(filepath.Join(h.root, "r"))
			if p := vh.ValidateLayout(filepath.Join(h.root, "r")); len(p) > 0 {
				h.viol("layout-after-collection:"+p[0], fmt.Sprintf("after collection (%s): %s", h.polString(), strings.Join(p, "; ")))
				return
			}
		}
		s1 := w.RealSnap("r")
		err := h.srv.VerifGC(ctx, "r")
		if !h.gcErrOK(err) {
			h.viol("gc-error", "second collection failed: "+err.Error())
			return
		}
		h.r.Count("second_passes", 1)
		s2 := w.RealSnap("r")
		j1, _ := json.Marshal(s1)
		j2, _ := json.Marshal(s2)
		if string(j1) != string(j2) {
			// A directory collection may or may not reload index.json (an asynchronous time stamp update decides), so the
			// effects of the recorded findings K1/K5/K6 can surface at the second pass instead of the first.  Everything
			// else is a violation.
			known, unknown := h.classifySecondPass(s1, s2)
			if len(unknown) > 0 {
				h.viol("second-pass-changed-state", fmt.Sprintf("a second collection (%s) changed the observable state: %s", h.polString(), strings.Join(unknown, "; ")))
				return
			}
			for _, k := range known {
				h.viol(k, "surfaced at a second collection: "+diffSnap(w, s1, s2))
			}
			// adopt
			for _, mm := range w.U.Mans {
				if s2.Man[mm.D] == "ok" && m.Mans[mm.D] == nil {
					m.Mans[mm.D] = mm
					m.Adopted[mm.D] = true
				} else if s2.Man[mm.D] != "ok" && m.Mans[mm.D] != nil && m.Stored[mm.D] != nil {
					delete(m.Mans, mm.D)
					m.Adopted[mm.D] = false
				}
			}
			for d := range m.Stored {
				if got, kn := s2.Blob[d]; kn && !got {
					delete(m.Stored, d)
				}
			}
			return
		}
		if h.kind == vh.Dir {
			if l2 := listing(filepath.Join(h.root, "r")); l1 != l2 {
				h.viol("second-pass-changed-files", fmt.Sprintf("a second collection (%s) changed the directory", h.polString()))
				return
			}
			// emptied repository
			ups, _ := h.srv.VerifUploads(ctx, "r")
			emptyModel := len(m.Mans) == 0 && len(ups) == 0
			ents, _ := os.ReadDir(filepath.Join(h.root, "r"))
			hasBlobs := false
			_ = filepath.Walk(filepath.Join(h.root, "r", "blobs"), func(p string, fi os.FileInfo, err error) error {
				if err == nil && !fi.IsDir() {
					hasBlobs = true
				}
				return nil
			})
			if emptyModel && !hasBlobs && h.pol.EmptyRepo && len(ents) > 0 {
				var ns []string
				for _, e := range ents {
					ns = append(ns, e.Name())
				}
				h.viol("empty-repo-not-removed", fmt.Sprintf("repository without manifests, blobs and sessions still has %v after collection with EmptyRepo", ns))
				return
			}
			if emptyModel && !hasBlobs && h.pol.EmptyRepo {
				h.r.Count("empty_repo_removals", 1)
			}
		}
	}
}

// classifySecondPass explains the differences between the snapshots before and after a second collection.
func (h *hist) classifySecondPass(a, b vh.Snap) (known, unknown []string) {
	return h.classifyDiff(a, b, nil)
}

// classifyDiff explains the differences between two snapshots.  alt, when given, is the model of the twin that
// produced snapshot a (C10): a manifest that this history's model has already given up (it was not constrained by
// the collection specification) but the twin still has is K1 if, put back as an adopted child, nothing with an
// entry of its own derives it.
func (h *hist) classifyDiff(a, b vh.Snap, alt *vh.RepoModel) (known, unknown []string) {
	w := h.w
	m := w.Repos["r"]
	orphanIfAdopted := func(mm *vh.Man) bool {
		if alt == nil || alt.Mans[mm.D] == nil || !alt.Adopted[mm.D] || m.Mans[mm.D] != nil {
			return false
		}
		m.Mans[mm.D] = mm
		old := m.Adopted[mm.D]
		m.Adopted[mm.D] = true
		o := h.orphans()[mm.D]
		delete(m.Mans, mm.D)
		m.Adopted[mm.D] = old
		return o
	}
	changed := map[string]bool{}
	lostContent := map[string]bool{}
	h.rm0 = nil
	orph := h.orphans()
	for _, mm := range w.U.Mans {
		d := mm.D
		if a.Man[d] == b.Man[d] {
			continue
		}
		changed[d] = true
		switch {
		case a.Man[d] == "ok" && b.Man[d] == "404" && ((m.Mans[d] != nil && (orph[d] || h.k6Vulnerable(mm))) || orphanIfAdopted(mm)):
			// lived only in a child list kept in memory; the reload dropped it (K1, or K6 when its parent was a referrers answer)
			if mm.Subject != "" {
				known = append(known, "K6:second-pass")
			} else {
				known = append(known, "K1:second-pass")
			}
			var mark func(x string)
			mark = func(x string) {
				if lostContent[x] {
					return
				}
				lostContent[x] = true
				if c := w.U.ByD[x]; c != nil {
					for _, rf := range c.Refs {
						mark(rf)
					}
				}
			}
			mark(d)
		case a.Man[d] == "404" && b.Man[d] == "ok":
			listed := false
			for _, p := range w.U.Mans {
				if p.Index && m.Stored[p.D] != nil {
					for _, c := range p.Refs {
						if c == d {
							listed = true
						}
					}
				}
			}
			if listed && m.Stored[d] != nil {
				known = append(known, "K5:second-pass")
			} else {
				unknown = append(unknown, fmt.Sprintf("manifest %s 404->ok", mm.Name))
			}
		default:
			unknown = append(unknown, fmt.Sprintf("manifest %s %s->%s", mm.Name, a.Man[d], b.Man[d]))
		}
	}
	for d, ca := range a.CT {
		cb, both := b.CT[d]
		mm := w.U.ByD[d]
		if !both || ca == cb || mm == nil {
			continue
		}
		// the media type a manifest is served with changed.  Recorded finding K9 explains it only where acknowledged
		// indexes list the manifest under at least two different types (which listing wins depends on the order of
		// the entries, which a reload may change)
		if n, skew := m.ListingTypes(d, mm.MT); skew && n >= 2 {
			known = append(known, "K9:second-pass")
		} else {
			unknown = append(unknown, fmt.Sprintf("media type of manifest %s %q->%q", mm.Name, ca, cb))
		}
	}
	for d, v := range a.Blob {
		if b.Blob[d] != v {
			if v && !b.Blob[d] && lostContent[d] {
				continue
			}
			unknown = append(unknown, fmt.Sprintf("content %s %v->%v", w.NameOf(d), v, b.Blob[d]))
		}
	}
	for sj, v := range a.Ref {
		if fmt.Sprint(v) != fmt.Sprint(b.Ref[sj]) {
			// explained when the symmetric difference consists of manifests whose presence changed
			diff := map[string]int{}
			for _, d := range v {
				diff[d]++
			}
			for _, d := range b.Ref[sj] {
				diff[d]--
			}
			ok := true
			for d, n := range diff {
				if n != 0 && !changed[d] {
					ok = false
				}
			}
			if !ok {
				unknown = append(unknown, fmt.Sprintf("referrers %s %s->%s", w.NameOf(sj), w.NamesOf(v), w.NamesOf(b.Ref[sj])))
			}
		}
	}
	if fmt.Sprint(a.Tags) != fmt.Sprint(b.Tags) || fmt.Sprint(a.TagD) != fmt.Sprint(b.TagD) {
		unknown = append(unknown, fmt.Sprintf("tags %v->%v", a.TagD, b.TagD))
	}
	return
}

func diffSnap(w *vh.World, a, b vh.Snap) string {
	var out []string
	for d, v := range a.Man {
		if b.Man[d] != v {
			out = append(out, fmt.Sprintf("manifest %s %s->%s", w.NameOf(d), v, b.Man[d]))
		}
	}
	for d, v := range a.Blob {
		if b.Blob[d] != v {
			out = append(out, fmt.Sprintf("content %s %v->%v", w.NameOf(d), v, b.Blob[d]))
		}
	}
	for s, v := range a.Ref {
		if fmt.Sprint(v) != fmt.Sprint(b.Ref[s]) {
			out = append(out, fmt.Sprintf("referrers %s %s->%s", w.NameOf(s), w.NamesOf(v), w.NamesOf(b.Ref[s])))
		}
	}
	if fmt.Sprint(a.Tags) != fmt.Sprint(b.Tags) {
		out = append(out, fmt.Sprintf("tags %v->%v", a.Tags, b.Tags))
	}
	sort.Strings(out)
	return strings.Join(out, "; ")
}

// pull fetches manifest d and everything it references.
func (h *hist) pull(d, what string, seen map[string]bool) {
	if seen[d] || h.bad {
		return
	}
	seen[d] = true
	w := h.w
	m := w.Repos["r"]
	mm := w.U.ByD[d]
	if mm == nil || m.Stored[d] == nil {
		return
	}
	rs := w.Do(vh.Req{Method: "GET", URL: "/v2/r/manifests/" + d, H: map[string]string{"Accept": vh.AcceptAll}})
	h.r.Count("pull_requests", 1)
	if rs.Status != 200 || string(rs.Body) != string(mm.Raw) {
		h.viol("pull-incomplete:manifest", fmt.Sprintf("pull of %s: manifest %s answers %d", what, mm.Name, rs.Status))
		return
	}
	for _, rf := range mm.Refs {
		want := m.Stored[rf]
		if want == nil {
			continue // was never complete (content deleted by a client), not the collector's doing
		}
		if c := w.U.ByD[rf]; c != nil && mm.Index {
			if m.Mans[rf] == nil {
				continue // child deleted by a client
			}
			h.pull(rf, what, seen)
			continue
		}
		bs := w.Do(vh.Req{Method: "GET", URL: "/v2/r/blobs/" + rf})
		h.r.Count("pull_requests", 1)
		if bs.Status != 200 || string(bs.Body) != string(want) {
			h.viol("pull-incomplete:blob", fmt.Sprintf("pull of %s: %s referenced by %s answers %d", what, w.NameOf(rf), mm.Name, bs.Status))
			return
		}
	}
}

// orphans returns the K1-orphans: manifests that were adopted as children (so they have no entry of their own in
// index.json) and that are not derivable from the manifests that do have one, through index children and listed
// referrers.
func (h *hist) orphans() map[string]bool {
	o := h.w.OrphansX(h.w.Repos["r"], h.unlisted, h.gonePass)
	for d := range h.orphSince {
		o[d] = true
	}
	return o
}

// noteOrphans is called after every operation.
func (h *hist) noteOrphans() {
	if h.orphSince == nil {
		h.orphSince = map[string]bool{}
	}
	for d := range h.w.Orphans(h.w.Repos["r"], h.unlisted) {
		h.orphSince[d] = true
	}
}

// knownLoss recognises recorded findings K1 / K6 for retained content d (a manifest or a blob) that disappeared:
// it is retained only through manifests that are K1-orphans or K6-vulnerable.
func (h *hist) knownLossOf(d string, manifest bool) string {
	h.rm0 = nil
	orph := h.orphans()
	pick := func(rm, keep map[string]bool) bool {
		if manifest {
			return rm[d]
		}
		return keep[d]
	}
	rmA, keepA, _, _ := h.specX(func(mm *vh.Man) bool { return orph[mm.D] })
	if !pick(rmA, keepA) {
		if mm := h.w.U.ByD[d]; manifest && mm != nil && mm.Subject != "" {
			return "K6"
		}
		return "K1"
	}
	rmB, keepB, _, _ := h.specX(func(mm *vh.Man) bool { return orph[mm.D] || h.k6Vulnerable(mm) })
	if !pick(rmB, keepB) {
		return "K6"
	}
	return ""
}

func (h *hist) knownLoss(mm *vh.Man, RM map[string]bool) string {
	if h.w.Repos["r"].Tagged(mm.D) {
		return ""
	}
	return h.knownLossOf(mm.D, true)
}

func (h *hist) step() {
	w, rng, u := h.w, h.rng, h.w.U
	m := w.Repos["r"]
	switch k := rng.Intn(20); {
	case k < 5:
		b := u.Blobs[rng.Intn(len(u.Blobs))]
		if rng.Intn(3) == 0 {
			// through a session (POST without digest, then PUT): the other upload path
			rs := w.Do(vh.Req{Method: "POST", URL: "/v2/r/blobs/uploads/"})
			if loc := rs.H.Get("Location"); rs.Status == 202 && loc != "" {
				f := w.Do(vh.Req{Method: "PUT", URL: loc + "&digest=" + b.D, Body: b.B})
				w.T("blob(session) r/%s=%d", b.Name, f.Status)
				if f.Status == 201 {
					m.Stored[b.D] = b.B
					h.young[b.D] = true
				}
			}
			break
		}
		// an acknowledged upload is an upload: the content is young again even if the same bytes were stored before
		if rs := w.PushBlob("r", b); rs.Status == 201 {
			h.young[b.D] = true
		}
	case k < 12:
		mm := u.Mans[rng.Intn(len(u.Mans))]
		tag := ""
		if rng.Intn(3) == 0 {
			tag = u.Tags[rng.Intn(len(u.Tags))]
		}
		rs, ok := w.PutManifest("r", mm, tag)
		if (rs.Status == 201) != ok || rs.Status >= 500 {
			h.bad = true
			h.r.Count("foreign_put_status", 1)
			return
		}
		if rs.Status == 201 {
			h.young[mm.D] = true // a pushed manifest is young, also when the same bytes were stored before
			if mm.Subject != "" {
				h.touched[mm.Subject] = true
			}
			delete(h.unlisted, mm.D)
		}
	case k < 13:
		tag := u.Tags[rng.Intn(len(u.Tags))]
		if rs, exp := w.DeleteTag("r", tag); rs.Status != exp {
			h.bad = true
		}
	case k < 15:
		var ds []string
		for d := range m.Mans {
			ds = append(ds, d)
		}
		if len(ds) == 0 {
			return
		}
		sort.Strings(ds)
		mm := m.Mans[ds[rng.Intn(len(ds))]]
		rs, exp := w.DeleteManifest("r", mm)
		if exp != 0 && rs.Status != exp {
			h.bad = true
			return
		}
		if rs.Status == 202 && mm.Subject != "" {
			h.touched[mm.Subject] = true
		}
	case k < 16:
		// push a whole graph in dependency order by digest (children become implicit entries of their parents), then
		// maybe tag the outermost index
		var lastIdx *vh.Man
		for _, mm := range u.Mans {
			if mm.Subject == "" && m.ValidRefs(mm) {
				rs, ok := w.PutManifest("r", mm, "")
				if (rs.Status == 201) != ok {
					h.bad = true
					return
				}
				if rs.Status == 201 {
					h.young[mm.D] = true
				}
				if mm.Index {
					lastIdx = mm
				}
			}
		}
		if lastIdx != nil && rng.Intn(2) == 0 {
			if rs, _ := w.PutManifest("r", lastIdx, u.Tags[rng.Intn(len(u.Tags))]); rs.Status == 201 {
				h.young[lastIdx.D] = true
			}
		}
		h.r.Count("graph_pushes", 1)
	default:
		h.collect()
	}
}

func runHistory(r *vh.Run, focus string, i int) {
	if only := os.Getenv("VERIF_ONLY"); only != "" && only != fmt.Sprint(i) {
		return
	}
	rng := r.Rand(i)
	kind := []vh.StoreKind{vh.Mem, vh.Dir, vh.MemDir}[i%3]
	u := vh.GenUniverse(rng, vh.UOpts{Aliasing: true, Algs: (i/3)%3 == 0, Docker: (i/3)%2 == 1, BareMT: i%4 == 1, Foreign: i%3 == 2, NArtifact: map[bool]int{true: 10, false: 0}[i%6 == 4], Tag: fmt.Sprint(i)})
	root := ""
	if kind != vh.Mem {
		root = r.TempDir("gc")
		defer vh.RemoveAll(root)
	}
	pol := vh.Policy{Untagged: rng.Intn(2) == 0, Dangling: rng.Intn(2) == 0, WithSubj: rng.Intn(2) == 0, EmptyRepo: rng.Intn(2) == 0, Grace: time.Hour}
	if rng.Intn(2) == 0 {
		pol.Grace = -1
	}
	if i < 6 {
		// the suite's own policy rows (TestGarbageCollect) as fixed first cases
		rows := []vh.Policy{{Untagged: false, Dangling: false, WithSubj: true}, {Untagged: true, Dangling: false, WithSubj: true}, {Untagged: true, Dangling: true, WithSubj: true},
			{Untagged: true, Dangling: true, WithSubj: false}, {Untagged: false, Dangling: true, WithSubj: true}, {Untagged: true, Dangling: false, WithSubj: false}}
		pol = rows[i]
		pol.Grace = -1
	}
	gconf := vh.Conf(kind, root, pol)
	if i%6 == 4 {
		// a small (legal) manifest limit: every pushed manifest is below it, the referrers answers the registry
		// generates for a subject with many artifacts are not - they are not pushed manifests
		gconf.API.Manifest.Limit = 2000
	}
	srv := vh.New(gconf)
	h := &hist{r: r, focus: focus, idx: i, rng: rng, srv: srv, kind: kind, root: root, pol: pol, young: map[string]bool{}, touched: map[string]bool{}, unlisted: map[string]bool{}}
	h.w = vh.NewWorld(r, srv, u, kind, "r")
	if kind == vh.MemDir && (i/3)%2 == 0 {
		// the directory under the memory store is not empty: a directory store (retain-everything policy) wrote part
		// of the universe there first, so that content can lie in the directory, in memory, or in both
		_ = srv.Close()
		ds := vh.New(vh.Conf(vh.Dir, root, vh.Neutral))
		h.w.H, h.w.Kind = ds, vh.Dir
		for _, b := range u.Blobs {
			if rng.Intn(10) < 7 {
				h.w.PushBlob("r", b)
			}
		}
		m := h.w.Repos["r"]
		for _, mm := range u.Mans {
			// plain images and indexes only: nothing the recorded findings K1/K5/K6 could attach to before the history starts
			if mm.Subject == "" && !mm.Index && m.ValidRefs(mm) && rng.Intn(2) == 0 {
				h.w.PutManifest("r", mm, u.Tags[rng.Intn(len(u.Tags))])
			}
		}
		_ = ds.Close()
		srv = vh.New(gconf)
		h.srv = srv
		h.w.H, h.w.Kind = srv, kind
		for d := range m.Stored {
			h.young[d] = true
		}
		h.w.T("PRELUDE on the directory done, memory store opened over it")
		r.Count("memdir_histories_over_populated_directory", 1)
	}
	for _, b := range u.Blobs {
		if rng.Intn(10) < 7 {
			if rs := h.w.PushBlob("r", b); rs.Status == 201 {
				h.young[b.D] = true
			}
		}
	}
	nops := 25 + rng.Intn(25)
	for op := 0; op < nops && !h.bad; op++ {
		h.step()
		h.noteOrphans()
		r.Count("operations", 1)
	}
	if !h.bad {
		h.collect()
	}
	_ = srv.Close()
	r.Count("histories", 1)
	r.Count("requests", h.w.Reqs)
	g := "grace"
	if pol.Grace < 0 {
		g = "nograce"
	}
	r.Distinct("policy_cells", fmt.Sprintf("%v%v%v%v/%s/%s", pol.Untagged, pol.Dangling, pol.WithSubj, pol.EmptyRepo, g, kind))
	if !h.bad {
		r.Distinct("histories_distinct", fmt.Sprintf("%d:%s", i, strings.Join(h.w.Trace, ";")))
	}
	if i < 2 {
		tr := h.w.Trace
		if len(tr) > 30 {
			tr = tr[:30]
		}
		r.Sample(map[string]any{"history": i, "store": kind.String(), "policy": h.polString(), "first_operations": tr})
	}
}

// starvation: a store-wide pass over healthy repositories with garbage, an empty one, an already removed one and one
// whose index.json does not parse must collect every healthy repository, whatever the visiting order.
func starvation(r *vh.Run, i int) {
	tBegin := time.Now()
	rng := r.Rand(900_000 + i)
	kind := []vh.StoreKind{vh.Dir, vh.Mem}[i%2]
	root := ""
	if kind == vh.Dir {
		root = r.TempDir("starve")
		defer vh.RemoveAll(root)
	}
	pol := vh.Policy{Untagged: true, Dangling: true, WithSubj: true, EmptyRepo: false, Grace: -1}
	srv := vh.New(vh.Conf(kind, root, pol))
	defer func() { _ = srv.Close() }()
	healthy := []string{"h1", "h2", "h3", "n/h4"}
	garbage := map[string]string{}
	wit := map[string]any{"trial": i, "store": kind.String()}
	for _, rp := range healthy {
		b := []byte(fmt.Sprintf("garbage %d %s", i, rp))
		d := vh.DigestOf("sha256", b)
		if rs := vh.Do(srv, vh.Req{Method: "POST", URL: "/v2/" + rp + "/blobs/uploads/?digest=" + d, Body: b}); rs.Status != 201 {
			return
		}
		garbage[rp] = d
	}
	// an empty repository (known to the store, nothing in it), and broken ones
	vh.Do(srv, vh.Req{Method: "GET", URL: "/v2/emptyrepo/tags/list"})
	bad := []string{"removed", "corrupt"}
	for _, rp := range bad {
		b := []byte("x" + rp)
		vh.Do(srv, vh.Req{Method: "POST", URL: "/v2/" + rp + "/blobs/uploads/?digest=" + vh.DigestOf("sha256", b), Body: b})
	}
	damage := "none"
	if kind == vh.Dir {
		_ = os.RemoveAll(filepath.Join(root, "removed"))
		// one of the ways a repository on disk can be corrupt (hand-edited, half-copied, written by another tool)
		cdir := filepath.Join(root, "corrupt")
		hexd := strings.Repeat("ab", 32)
		entry := func(digest string, ann string) string {
			return `{"schemaVersion":2,"mediaType":"application/vnd.oci.image.index.v1+json","manifests":[{"mediaType":"application/vnd.oci.image.manifest.v1+json","digest":"` + digest + `","size":2` + ann + `}],"annotations":{"org.olareg.referrer.convert":"true"}}`
		}
		xd := vh.DigestOf("sha256", []byte("xcorrupt"))
		kinds := []string{"index-not-json", "index-truncated", "entry-digest-no-colon", "entry-digest-empty", "entry-digest-unknown-algorithm", "entry-digest-short-hex",
			"subject-annotation-no-colon", "subject-annotation-empty-hex", "subject-annotation-unknown-algorithm", "entry-blob-missing", "manifest-blob-not-json",
			"index-is-directory", "blobs-is-file", "layout-missing", "layout-not-json", "index-manifests-null", "index-empty-file"}
		damage = kinds[(i/2)%len(kinds)]
		ix := filepath.Join(cdir, "index.json")
		switch damage {
		case "index-not-json":
			_ = os.WriteFile(ix, []byte("{not json"), 0o644)
		case "index-truncated":
			_ = os.WriteFile(ix, []byte(entry("sha256:"+hexd, "")[:60]), 0o644)
		case "entry-digest-no-colon":
			_ = os.WriteFile(ix, []byte(entry("sha256-"+hexd, "")), 0o644)
		case "entry-digest-empty":
			_ = os.WriteFile(ix, []byte(entry("", "")), 0o644)
		case "entry-digest-unknown-algorithm":
			_ = os.WriteFile(ix, []byte(entry("md5:"+hexd[:32], "")), 0o644)
		case "entry-digest-short-hex":
			_ = os.WriteFile(ix, []byte(entry("sha256:abcd", "")), 0o644)
		case "subject-annotation-no-colon":
			_ = os.WriteFile(ix, []byte(entry(xd, `,"annotations":{"org.olareg.referrer.subject":"sha256-`+hexd+`"}`)), 0o644)
		case "subject-annotation-empty-hex":
			_ = os.WriteFile(ix, []byte(entry(xd, `,"annotations":{"org.olareg.referrer.subject":"sha256:"}`)), 0o644)
		case "subject-annotation-unknown-algorithm":
			_ = os.WriteFile(ix, []byte(entry(xd, `,"annotations":{"org.olareg.referrer.subject":"md5:`+hexd[:32]+`"}`)), 0o644)
		case "entry-blob-missing":
			_ = os.WriteFile(ix, []byte(entry("sha256:"+hexd, `,"annotations":{"org.opencontainers.image.ref.name":"gone"}`)), 0o644)
		case "manifest-blob-not-json":
			_ = os.WriteFile(ix, []byte(entry(xd, `,"annotations":{"org.opencontainers.image.ref.name":"odd"}`)), 0o644)
		case "index-is-directory":
			_ = os.Remove(ix)
			_ = os.MkdirAll(filepath.Join(ix, "sub"), 0o755)
		case "blobs-is-file":
			_ = os.RemoveAll(filepath.Join(cdir, "blobs"))
			_ = os.WriteFile(filepath.Join(cdir, "blobs"), []byte("x"), 0o644)
		case "layout-missing":
			_ = os.Remove(filepath.Join(cdir, "oci-layout"))
		case "layout-not-json":
			_ = os.WriteFile(filepath.Join(cdir, "oci-layout"), []byte("]["), 0o644)
		case "index-manifests-null":
			_ = os.WriteFile(ix, []byte(`{"schemaVersion":2,"manifests":null}`), 0o644)
		case "index-empty-file":
			_ = os.WriteFile(ix, nil, 0o644)
		}
		if rng.Intn(2) == 0 {
			// the store meets the damaged repository for the first time during the pass (reopened store), instead
			// of re-reading a changed index.json
			_ = srv.Close()
			srv = vh.New(vh.Conf(kind, root, pol))
			wit["reopened_before_pass"] = true
		}
	} else if rng.Intn(2) == 0 {
		return // the memory store has no way to make a repository's collection fail from outside
	}
	wit["damage"] = damage
	r.Distinct("damage_kinds", damage)
	// the pass is given the tick times as the ticker would: the previous tick just before the repositories were written,
	// the current one anything from a moment to a long interval later
	// (the previous tick is taken from a clock reading made before the first repository was written: on a loaded
	// machine writing them can take longer than any fixed allowance)
	now := time.Now()
	prevTick := tBegin.Add(-time.Second)
	cur := now.Add([]time.Duration{0, time.Second, 15 * time.Minute, 2 * time.Hour}[rng.Intn(4)])
	wit["tick_interval"] = cur.Sub(prevTick).String()
	var err error
	panicked := func() (p any) {
		defer func() { p = recover() }()
		err = srv.VerifGCPass(cur, prevTick)
		return nil
	}()
	r.Count("starvation_trials", 1)
	if panicked != nil {
		wit["panic"] = fmt.Sprint(panicked)
		r.Violation("pass-panicked:"+damage, fmt.Sprintf("the store-wide pass panicked on a store with a corrupt repository (%s): %v - in the server this ends the collector (and the process)", damage, panicked), wit)
		return
	}
	starved := []string{}
	for _, rp := range healthy {
		rs := vh.Do(srv, vh.Req{Method: "HEAD", URL: "/v2/" + rp + "/blobs/" + garbage[rp]})
		if rs.Status == 200 {
			starved = append(starved, rp)
		}
	}
	if len(starved) > 0 {
		wit["pass_error"] = fmt.Sprint(err)
		r.Violation("pass-starved", fmt.Sprintf("after one store-wide pass over a store with a corrupt repository (%s) the healthy repositories %v still hold their garbage (pass returned: %v)", damage, starved, err), wit)
	}
	_ = digest.Canonical
}

func main() {
	r := vh.Start()
	focus := r.Focus
	if focus == "" {
		focus = "C05"
	}
	if focus == "C05race" {
		nr := r.N(24, 600)
		vh.Parallel(nr, 8, func(i int) { completionRace(r, i) })
		r.Require("completion_race_trials", int64(nr/2))
		r.Finish("directed schedule on the directory store (binary built with the filesystem shim): an expired unreferenced copy of a blob, the same content uploaded again through a session, a collection held by the shim right before it removes the old copy while the completing PUT is let go; a PUT answered 201 means the blob is served afterwards; a case is one trial", "completion_race_trials", "completion_outcomes")
		return
	}
	if focus == "C05conc" {
		if strings.HasPrefix(r.Variant(), "vsync") {
			vsync.SetJitter(true, uint64(r.Seed)*0x9e3779b97f4a7c15+5)
		}
		nc := r.N(60, 3000)
		vh.Parallel(nc, 8, func(i int) { concurrentGC(r, i) })
		r.Require("concurrent_trials", int64(nc))
		r.Require("concurrent_images_acknowledged", int64(nc*6))
		r.Require("concurrent_final_pulls", int64(nc*4))
		r.RequireDistinct("concurrent_cells", 8)
		r.Finish("schedules: 3-5 clients push complete tagged images (own config and layer, a layer shared by all, sometimes mounted from another repository), look at and delete older ones, while collections with an aggressive policy (untagged collected, grace off) run continuously - through the hook or as the real ticker with a 2-6 ms period - on the memory and the directory store, built with the vsync shim (random yield or sleep at every lock operation); every acknowledged, tagged, undeleted image must pull completely right after the acknowledgement, later, and at the end; a case is one trial, distinct = store x trigger x policy cells", "concurrent_trials", "concurrent_cells")
		return
	}
	n := r.N(300, 9000)
	ns := 0
	if focus == "C06" {
		ns = r.N(80, 1200)
	}
	if focus == "C10" {
		n = r.N(200, 6000)
		nn := r.N(60, 1500)
		vh.Parallel(n+nn, 16, func(i int) {
			if i < n {
				runC10(r, i)
			} else {
				nested(r, i-n)
			}
		})
		r.Require("histories", int64(n))
		r.Require("layout_validations", int64(n*10))
		r.Require("store_equivalence_steps", int64(n*5))
		r.Require("restarts", int64(n))
		r.Require("nested_trials", int64(nn/2))
		r.Finish("the C05/C06 history generator (all policies, collections anywhere, aliased graphs, sha256/384/512) drives a directory store and in lockstep a memory store twin; OCI layout validation + index.json tags == tags/list == model after every operation; snapshots of both stores compared after every operation; collection + close + reopen equivalence at random points; the directory reopened as memory-over-directory at the end; plus nested repositories a, a/b, a/b/c created and emptied in every order with collections between upload and manifest; a case is one history, distinct = distinct complete traces", "histories", "histories_distinct")
		return
	}
	nslow, nnest := 0, 0
	if focus == "C05" {
		nslow, nnest = r.N(24, 240), r.N(16, 400)
	}
	nwild := 0
	if focus == "C05" {
		nwild = r.N(72, 720)
	}
	vh.Parallel(nwild, 16, func(i int) { wildListing(r, i) })
	nbig := 0
	if focus == "C05" {
		nbig = r.N(36, 360)
	}
	vh.Parallel(nbig, 16, func(i int) { bigReferrers(r, i) })
	if focus == "C05" {
		nto := r.N(54, 540)
		vh.Parallel(nto, 16, func(i int) { tagOrderTrial(r, i) })
		r.Require("tag_order_trials", int64(nto*3/4))
	}
	if focus == "C06" {
		nt := r.N(36, 360)
		vh.Parallel(nt, 12, func(i int) { tickSequence(r, i) })
		r.Require("tick_sequence_trials", int64(nt*3/4))
		nnr := r.N(8, 80)
		vh.Parallel(nnr, 4, func(i int) { notARepositoryTrial(r, i) })
		r.Require("not_a_repository_trials", int64(nnr))
		nsr := r.N(12, 120)
		vh.Parallel(nsr, 6, func(i int) { subjectRemovedTrial(r, i) })
		r.Require("subject_removed_trials", int64(nsr*3/4))
		ne := r.N(16, 160)
		vh.Parallel(ne, 8, func(i int) { entryWithoutContent(r, i) })
		r.Require("entry_without_content_trials", int64(ne*3/4))
		nn := r.N(16, 400)
		vh.Parallel(nn, 8, func(i int) { nested(r, i) }) // "exactly the garbage": emptying one repository leaves those below it alone
	}
	vh.Parallel(n+ns+nslow+nnest, 16, func(i int) {
		switch {
		case i < n:
			runHistory(r, focus, i)
		case i < n+ns:
			starvation(r, i-n)
		case i < n+ns+nslow:
			slowUpload(r, i-n-ns)
		default:
			nested(r, i-n-ns-nslow) // nested repositories created and emptied in every order (also run under C10)
		}
	})
	if focus == "C05" {
		r.Require("slow_upload_trials", int64(nslow/2))
		r.Require("nested_trials", int64(nnest/2))
	}
	r.Require("histories", int64(n))
	r.Require("collections", int64(n*3))
	r.RequireDistinct("policy_cells", 60)
	if focus == "C05" {
		r.Require("mustkeep_manifests_checked", 1000)
		r.Require("mustkeep_content_checked", 2000)
	} else {
		r.Require("garbage_content_checked", 100)
		r.Require("second_passes", int64(n))
		r.Require("starvation_trials", 10)
	}
	r.Finish("random object graphs (shared layers/configs, nested indexes, a manifest body reused as a layer, artifacts on images, indexes, artifacts and missing subjects) with push/delete histories of 25-50 operations and collection points anywhere; ages set through the hook (everything stored so far becomes old, or not); collections triggered through the hook; 16 policy combinations x grace on/off x 3 stores; judged against MustKeep / Garbage of DESIGN Appendix A; a case is one history, distinct = histories with distinct traces that ran to the end", "histories", "histories_distinct")
}
