package vh

import (
	"bytes"
	"context"
	"crypto/sha256"
	"crypto/sha512"
	"encoding/hex"
	"encoding/json"
	"fmt"
	"io"
	"net/http"
	"net/http/httptest"
	"os"
	"regexp"
	"runtime/debug"
	"strings"
	"time"

	"github.com/olareg/olareg"
	"github.com/olareg/olareg/config"
)

const (
	MTImage       = "application/vnd.oci.image.manifest.v1+json"
	MTIndex       = "application/vnd.oci.image.index.v1+json"
	MTDockerImage = "application/vnd.docker.distribution.manifest.v2+json"
	MTDockerList  = "application/vnd.docker.distribution.manifest.list.v2+json"
	MTConfig      = "application/vnd.oci.image.config.v1+json"
	MTLayer       = "application/vnd.oci.image.layer.v1.tar"
	AcceptAll     = MTImage + ", " + MTIndex + ", " + MTDockerImage + ", " + MTDockerList
)

func BP(b bool) *bool { return &b }

// Req is one request at the client boundary.
type Req struct {
	Method     string
	URL        string
	H          map[string]string
	HMulti     http.Header // additional multi-valued headers
	Body       []byte
	UnknownLen bool // send with ContentLength -1 (as a chunked client does)
	Short      int  // > 0: the body ends after Body although Short more bytes were announced; the handler's read fails the way net/http's does (unexpected EOF)
	RemoteAddr string
	Ctx        context.Context
}

// Resp is what a client receives (status and headers as snapshotted at WriteHeader).
type Resp struct {
	Status int
	H      http.Header
	Body   []byte
	Panic  string // non-empty if the handler panicked (Status is then 599)
}

type onlyReader struct{ r io.Reader }

type brokenReader struct{}

func (brokenReader) Read(p []byte) (int, error) { return 0, io.ErrUnexpectedEOF }

func (o onlyReader) Read(p []byte) (int, error) { return o.r.Read(p) }

// Do runs one request through the handler in-process.
func Do(h http.Handler, rq Req) (rs Resp) {
	var rdr io.Reader
	if rq.Body != nil {
		rdr = bytes.NewReader(rq.Body)
		if rq.UnknownLen {
			rdr = onlyReader{rdr}
		}
	}
	req, err := http.NewRequest(rq.Method, rq.URL, rdr)
	if err != nil {
		return Resp{Status: 598, Panic: "bad request spec: " + err.Error()}
	}
	if rq.UnknownLen {
		req.ContentLength = -1
	}
	if rq.Short > 0 {
		req.Body = io.NopCloser(io.MultiReader(bytes.NewReader(rq.Body), brokenReader{}))
		if !rq.UnknownLen {
			req.ContentLength = int64(len(rq.Body) + rq.Short)
		}
	}
	if req.Body == nil {
		req.Body = http.NoBody // a server always hands the handler a non-nil body
	}
	req.RemoteAddr = "192.0.2.1:1234"
	if rq.RemoteAddr != "" {
		req.RemoteAddr = rq.RemoteAddr
	}
	req.RequestURI = rq.URL
	for k, v := range rq.H {
		req.Header.Set(k, v)
	}
	for k, vs := range rq.HMulti {
		for _, v := range vs {
			req.Header.Add(k, v)
		}
	}
	if rq.Ctx != nil {
		req = req.WithContext(rq.Ctx)
	}
	w := httptest.NewRecorder()
	func() {
		defer func() {
			if p := recover(); p != nil {
				rs.Panic = fmt.Sprintf("%v\n%s", p, debug.Stack())
			}
		}()
		h.ServeHTTP(w, req)
	}()
	if rs.Panic != "" {
		rs.Status = 599
		rs.H = http.Header{}
		return rs
	}
	res := w.Result()
	b, _ := io.ReadAll(res.Body)
	rs.Status, rs.H, rs.Body = res.StatusCode, res.Header, b
	return rs
}

// DigestOf computes alg:hex of b for the algorithms olareg supports.
func DigestOf(alg string, b []byte) string {
	switch alg {
	case "sha256":
		s := sha256.Sum256(b)
		return "sha256:" + hex.EncodeToString(s[:])
	case "sha384":
		s := sha512.Sum384(b)
		return "sha384:" + hex.EncodeToString(s[:])
	case "sha512":
		s := sha512.Sum512(b)
		return "sha512:" + hex.EncodeToString(s[:])
	}
	return ""
}

func AlgOf(d string) string {
	a, _, _ := strings.Cut(d, ":")
	return a
}

// HashOK reports whether b hashes to digest d under d's own algorithm.
func HashOK(d string, b []byte) bool {
	want := DigestOf(AlgOf(d), b)
	return want != "" && want == d
}

var digestInPath = regexp.MustCompile(`/(?:blobs|manifests)/((?:sha256|sha384|sha512):[0-9a-f]+)$`)

// G1 is the content-addressing monitor: for a 200 on GET of a blob or manifest the body must hash to the
// digest in the path, or else to the Docker-Content-Digest header; the header, when present together with a
// path digest, must equal it; Content-Length must equal the body length.  Returns "" or the problem.
func G1(rq Req, rs Resp) string {
	if rs.Status != 200 || (rq.Method != "GET" && rq.Method != "HEAD") {
		return ""
	}
	p := rq.URL
	if i := strings.IndexByte(p, '?'); i >= 0 {
		p = p[:i]
	}
	if !strings.Contains(p, "/blobs/") && !strings.Contains(p, "/manifests/") {
		return ""
	}
	if strings.Contains(p, "/blobs/uploads/") {
		return ""
	}
	hd := rs.H.Get("Docker-Content-Digest")
	pd := ""
	if m := digestInPath.FindStringSubmatch(p); m != nil {
		pd = m[1]
	}
	if pd != "" && hd != "" && hd != pd {
		return fmt.Sprintf("Docker-Content-Digest %s differs from the digest in the path %s", hd, pd)
	}
	d := pd
	if d == "" {
		d = hd
	}
	if d == "" {
		return "content served without any digest (no digest in path, no Docker-Content-Digest)"
	}
	if rq.Method == "HEAD" {
		return ""
	}
	if cl := rs.H.Get("Content-Length"); cl != "" && cl != fmt.Sprint(len(rs.Body)) {
		return fmt.Sprintf("Content-Length %s but %d bytes served", cl, len(rs.Body))
	}
	if !HashOK(d, rs.Body) {
		return fmt.Sprintf("served %d bytes under %s which hash to %s", len(rs.Body), d, DigestOf(AlgOf(d), rs.Body))
	}
	return ""
}

// OCI error codes registered by the distribution spec.
var ociCodes = map[string]bool{
	"BLOB_UNKNOWN": true, "BLOB_UPLOAD_INVALID": true, "BLOB_UPLOAD_UNKNOWN": true, "DIGEST_INVALID": true,
	"MANIFEST_BLOB_UNKNOWN": true, "MANIFEST_INVALID": true, "MANIFEST_UNKNOWN": true, "NAME_INVALID": true,
	"NAME_UNKNOWN": true, "SIZE_INVALID": true, "UNAUTHORIZED": true, "DENIED": true, "UNSUPPORTED": true,
	"TOOMANYREQUESTS": true,
}

// ErrCodes parses an OCI error document; ok=false if the body is not one.
func ErrCodes(body []byte) (codes []string, ok bool) {
	var doc struct {
		Errors []struct {
			Code    *string         `json:"code"`
			Message *string         `json:"message"`
			Detail  json.RawMessage `json:"detail"`
		} `json:"errors"`
	}
	if err := json.Unmarshal(body, &doc); err != nil || len(doc.Errors) == 0 {
		return nil, false
	}
	for _, e := range doc.Errors {
		if e.Code == nil {
			return nil, false
		}
		codes = append(codes, *e.Code)
	}
	return codes, true
}

func RegisteredCode(c string) bool { return ociCodes[c] }

// StoreKind selects the storage of a server under test.
type StoreKind int

const (
	Mem StoreKind = iota
	Dir
	MemDir // memory store layered over a root directory
)

func (k StoreKind) String() string { return [...]string{"mem", "dir", "memdir"}[k] }

// Policy is a garbage collection policy.
type Policy struct {
	Untagged, Dangling, WithSubj, EmptyRepo bool
	Grace                                   time.Duration // <0 disables the grace period
}

// Neutral is the collection-neutral policy: the implicit collection in Close removes nothing referenced or young.
var Neutral = Policy{Grace: time.Hour}

// Conf builds a config for a server under test: collection ticker idle, deletes enabled.
func Conf(kind StoreKind, root string, p Policy) config.Config {
	c := config.Config{
		Storage: config.ConfigStorage{
			RootDir: root,
			// the ticker exists and never fires: a negative frequency would also switch off the collection that runs
			// when a repository is released (expiry of the repository cache, Close), which the checks want to see
			GC: config.ConfigGC{Frequency: 10000 * time.Hour, GracePeriod: p.Grace, Untagged: BP(p.Untagged), ReferrersDangling: BP(p.Dangling),
				ReferrersWithSubj: BP(p.WithSubj), EmptyRepo: BP(p.EmptyRepo)},
		},
		API: config.ConfigAPI{DeleteEnabled: BP(true), Blob: config.ConfigAPIBlob{DeleteEnabled: BP(true)}},
	}
	switch kind {
	case Mem:
		c.Storage.StoreType = config.StoreMem
		c.Storage.RootDir = ""
	case Dir:
		c.Storage.StoreType = config.StoreDir
	case MemDir:
		c.Storage.StoreType = config.StoreMem
	}
	return c
}

func New(c config.Config) *olareg.Server { return olareg.New(c) }

func RemoveAll(p string) { _ = os.RemoveAll(p) }

// DoStream runs one request whose body is read from body as it comes (unknown length).  If body is an io.Closer it
// is closed once the handler has returned, so that a writer blocked on a pipe is released.
func DoStream(h http.Handler, method, url string, hdr map[string]string, body io.Reader) (rs Resp) {
	req, err := http.NewRequest(method, url, onlyReader{body})
	if err != nil {
		return Resp{Status: 598, Panic: "bad request spec: " + err.Error()}
	}
	req.ContentLength = -1
	req.RemoteAddr = "192.0.2.1:1234"
	req.RequestURI = url
	for k, v := range hdr {
		req.Header.Set(k, v)
	}
	w := httptest.NewRecorder()
	func() {
		defer func() {
			if p := recover(); p != nil {
				rs.Panic = fmt.Sprintf("%v\n%s", p, debug.Stack())
			}
		}()
		h.ServeHTTP(w, req)
	}()
	if c, ok := body.(io.Closer); ok {
		_ = c.Close()
	}
	if rs.Panic != "" {
		rs.Status = 599
		rs.H = http.Header{}
		return rs
	}
	res := w.Result()
	b, _ := io.ReadAll(res.Body)
	rs.Status, rs.H, rs.Body = res.StatusCode, res.Header, b
	return rs
}
