package vh

import (
	"regexp"
	"runtime"
	"sort"
	"strings"
	"time"
)

// Goroutine is one entry of a goroutine dump.
type Goroutine struct {
	ID     string
	State  string // without the wait duration
	Stack  string // frames only, addresses and argument values stripped
	Olareg bool   // has a frame inside olareg proper (not the harness)
}

var (
	gHeader  = regexp.MustCompile(`^goroutine (\d+) \[([^\],]+)(?:, [^\]]+)?\]:$`)
	argStrip = regexp.MustCompile(`\(0x[0-9a-f, x.{}?]*\)|\(\.\.\.\)|\+0x[0-9a-f]+`)
)

const modPath = "github.com/olareg/olareg"

// Dump returns the parsed goroutine dump of the process.
func Dump() []Goroutine {
	buf := make([]byte, 1<<20)
	for {
		n := runtime.Stack(buf, true)
		if n < len(buf) {
			buf = buf[:n]
			break
		}
		buf = make([]byte, 2*len(buf))
	}
	var out []Goroutine
	for _, blk := range strings.Split(string(buf), "\n\n") {
		lines := strings.Split(strings.TrimSpace(blk), "\n")
		if len(lines) == 0 {
			continue
		}
		m := gHeader.FindStringSubmatch(lines[0])
		if m == nil {
			continue
		}
		g := Goroutine{ID: m[1], State: m[2]}
		var fr []string
		for _, l := range lines[1:] {
			if strings.HasPrefix(l, "\t") {
				continue // file:line, kept out so that the comparison is on functions
			}
			f := argStrip.ReplaceAllString(l, "")
			fr = append(fr, f)
			if strings.HasPrefix(f, modPath) && !strings.Contains(f, "/internal/verif/") {
				g.Olareg = true
			}
			if strings.HasPrefix(f, "created by "+modPath) && !strings.Contains(f, "/internal/verif/") {
				g.Olareg = true
			}
		}
		g.Stack = strings.Join(fr, "\n")
		out = append(out, g)
	}
	return out
}

var blockedStates = map[string]bool{
	"semacquire": true, "sync.Mutex.Lock": true, "sync.RWMutex.Lock": true, "sync.RWMutex.RLock": true, "chan receive": true, "chan send": true,
	"select": true, "select (no cases)": true, "sync.WaitGroup.Wait": true, "sync.Cond.Wait": true, "chan receive (nil chan)": true, "chan send (nil chan)": true,
}

// stallKey returns a canonical description of the olareg goroutines if every one of them is blocked on a
// synchronisation primitive, "" otherwise.
func stallKey(gs []Goroutine, extra ...string) string {
	var ks []string
	n := 0
	for _, g := range gs {
		if !g.Olareg {
			continue
		}
		n++
		if !blockedStates[g.State] && !hasState(extra, g.State) {
			return ""
		}
		ks = append(ks, g.ID+"|"+g.State+"|"+g.Stack)
	}
	if n == 0 {
		return ""
	}
	sort.Strings(ks)
	return strings.Join(ks, "\n--\n")
}

func hasState(l []string, s string) bool {
	for _, x := range l {
		if x == s {
			return true
		}
	}
	return false
}

// StableStall decides "nothing inside olareg can make progress": three goroutine dumps, gap apart, in which every
// goroutine with an olareg frame is blocked on a sync primitive or channel with an identical stack, none is
// running, runnable, sleeping or in a syscall.  Returns the description of the blocked goroutines, or "".
func StableStall(gap time.Duration, extra ...string) string {
	k1 := stallKey(Dump(), extra...)
	if k1 == "" {
		return ""
	}
	for i := 0; i < 2; i++ {
		time.Sleep(gap)
		if stallKey(Dump(), extra...) != k1 {
			return ""
		}
	}
	return k1
}

// WatchResult is the outcome of running a function under the stall watch.
type WatchResult struct {
	Done    bool   // fn returned
	Stalled bool   // a stable stall was exhibited while fn was outstanding
	Desc    string // the blocked goroutines
	Waited  time.Duration
}

// Watch runs fn in its own goroutine.  If fn is still outstanding after grace, the stable-stall criterion is
// evaluated every few seconds until fn returns, a stall is exhibited, or limit has passed (then neither Done nor
// Stalled is set: inconclusive).  A stalled fn is abandoned (its goroutine leaks until the process ends).
// extra names further goroutine states that count as blocked for this call: "IO wait" is sound only where every peer
// of every connection is the calling trial itself and it sends nothing more.
func Watch(fn func(), grace, limit time.Duration, extra ...string) WatchResult {
	done := make(chan struct{})
	go func() {
		defer close(done)
		fn()
	}()
	t0 := time.Now()
	select {
	case <-done:
		return WatchResult{Done: true, Waited: time.Since(t0)}
	case <-time.After(grace):
	}
	for time.Since(t0) < limit {
		if d := StableStall(time.Second, extra...); d != "" {
			// confirm once more after a pause: a timer that fires late could still change the picture
			select {
			case <-done:
				return WatchResult{Done: true, Waited: time.Since(t0)}
			case <-time.After(2 * time.Second):
			}
			if d2 := StableStall(500*time.Millisecond, extra...); d2 == d {
				return WatchResult{Stalled: true, Desc: d, Waited: time.Since(t0)}
			}
		}
		select {
		case <-done:
			return WatchResult{Done: true, Waited: time.Since(t0)}
		case <-time.After(time.Second):
		}
	}
	return WatchResult{Waited: time.Since(t0)}
}
