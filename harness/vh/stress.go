package vh

import (
	"fmt"
	"math/rand"
	"net/http"
	"strings"
	"sync/atomic"
	"time"

	"github.com/olareg/olareg/config"
)

// StressConf is the configuration of the concurrency workloads: everything that can happen in the background happens often.
func StressConf(kind StoreKind, root string, rng *rand.Rand) config.Config {
	p := Policy{Untagged: true, Dangling: true, WithSubj: true, EmptyRepo: rng.Intn(2) == 0, Grace: time.Duration(20+rng.Intn(40)) * time.Millisecond}
	c := Conf(kind, root, p)
	c.Storage.GC.Frequency = time.Duration(5+rng.Intn(6)) * time.Millisecond
	c.Storage.GC.RepoUploadMax = 2 + rng.Intn(3)
	c.API.Referrer.Limit = 900
	return c
}

// StressClient runs upload / manifest traffic until stop is closed or n sequences are done.
func StressClient(srv http.Handler, id int, seed int64, n int, repos []string, done *atomic.Int64, inflight *atomic.Int64, stop <-chan struct{}) {
	rng := rand.New(rand.NewSource(seed))
	do := func(rq Req) Resp {
		inflight.Add(1)
		rs := Do(srv, rq)
		inflight.Add(-1)
		done.Add(1)
		return rs
	}
	for s := 0; s < n; s++ {
		select {
		case <-stop:
			return
		default:
		}
		repo := repos[rng.Intn(len(repos))]
		switch k := rng.Intn(11); {
		case k < 6:
			// chunked upload, possibly abandoned, with pauses long enough for expiry to strike mid-upload
			rs := do(Req{Method: "POST", URL: "/v2/" + repo + "/blobs/uploads/"})
			loc := rs.H.Get("Location")
			if rs.Status != 202 || loc == "" {
				continue
			}
			var content []byte
			alive := true
			for c := rng.Intn(5); c > 0 && alive; c-- {
				chunk := []byte(fmt.Sprintf("chunk-%d-%d-%d;", id, s, c))
				p := do(Req{Method: "PATCH", URL: loc, Body: chunk})
				if p.Status == 202 && p.H.Get("Location") != "" {
					loc = p.H.Get("Location")
					content = append(content, chunk...)
				} else {
					alive = false
				}
				if rng.Intn(3) == 0 {
					time.Sleep(time.Duration(rng.Intn(30)) * time.Millisecond)
				}
				if rng.Intn(4) == 0 {
					do(Req{Method: "GET", URL: strings.SplitN(loc, "?", 2)[0]})
				}
			}
			switch rng.Intn(4) {
			case 0:
				do(Req{Method: "DELETE", URL: strings.SplitN(loc, "?", 2)[0]})
			case 1: // abandoned
			default:
				do(Req{Method: "PUT", URL: loc + "&digest=" + DigestOf("sha256", content)})
			}
		case k < 8:
			// image + artifact push
			cfg := []byte(fmt.Sprintf(`{"c":%d,"s":%d}`, id, s%3))
			cd := DigestOf("sha256", cfg)
			do(Req{Method: "POST", URL: "/v2/" + repo + "/blobs/uploads/?digest=" + cd, Body: cfg})
			b := &Blob{Name: "cfg", B: cfg, D: cd}
			img := MkImage("i", "sha256", MTImage, b, MTConfig, nil, "", "", map[string]string{"c": fmt.Sprint(id, s%3)})
			do(Req{Method: "PUT", URL: "/v2/" + repo + "/manifests/t" + fmt.Sprint(rng.Intn(3)), H: map[string]string{"Content-Type": MTImage}, Body: img.Raw})
			art := MkImage("a", "sha256", MTImage, b, MTConfig, nil, img.D, "application/x.a", map[string]string{"c": fmt.Sprint(id, s)})
			do(Req{Method: "PUT", URL: "/v2/" + repo + "/manifests/" + art.D, H: map[string]string{"Content-Type": MTImage}, Body: art.Raw})
			do(Req{Method: "GET", URL: "/v2/" + repo + "/referrers/" + img.D})
			if rng.Intn(2) == 0 {
				do(Req{Method: "DELETE", URL: "/v2/" + repo + "/manifests/" + art.D})
			}
		case k < 9:
			// cross-repository and same-repository mounts of content the target does not hold (two repository handles in
			// one request), with and without a source that has it
			src := repos[rng.Intn(len(repos))]
			content := []byte(fmt.Sprintf("mount-%d-%d", id, s))
			d := DigestOf("sha256", content)
			if rng.Intn(2) == 0 {
				do(Req{Method: "POST", URL: "/v2/" + src + "/blobs/uploads/?digest=" + d, Body: content})
			}
			rs := do(Req{Method: "POST", URL: "/v2/" + repo + "/blobs/uploads/?mount=" + d + "&from=" + src})
			if loc := rs.H.Get("Location"); rs.Status == 202 && loc != "" && rng.Intn(2) == 0 {
				do(Req{Method: "DELETE", URL: strings.SplitN(loc, "?", 2)[0]})
			}
		default:
			do(Req{Method: "GET", URL: "/v2/" + repo + "/tags/list"})
			do(Req{Method: "GET", URL: "/v2/" + repo + "/manifests/t0", H: map[string]string{"Accept": AcceptAll}})
			time.Sleep(time.Duration(rng.Intn(70)) * time.Millisecond) // let the repository go idle: it expires from the store's cache
		}
	}
}
