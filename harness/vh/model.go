package vh

import (
	"encoding/json"
	"fmt"
	"net/http"
	"net/url"
	"sort"
	"strings"
)

// RepoModel is the sequential specification of what a client can observe of one repository.
type RepoModel struct {
	Name   string
	Stored map[string][]byte // content-addressed store: blobs and manifest bodies the harness knows of
	Mans   map[string]*Man   // manifests present at the manifest API
	Tags   map[string]string // tag -> digest

	// deviation tracking, used only to recognise recorded findings (never to form an expectation)
	Adopted map[string]bool // K1: became a child of a later stored index while it had no tag
	DelDig  map[string]bool // K5: deleted by digest
	LostK1  map[string]bool // K1 was observed for this manifest (never deleted by a client): it may come back when a parent is stored again
	// K9: child digest -> digest of an index acknowledged in this repository -> media type that index lists the child under
	Listings map[string]map[string]string
}

// ListedAs reports whether an index acknowledged in this repository lists d under media type mt.
func (m *RepoModel) ListedAs(d, mt string) bool {
	for _, t := range m.Listings[d] {
		if t == mt {
			return true
		}
	}
	return false
}

// ListingTypes returns the number of distinct media types under which acknowledged indexes list d, and whether one
// of them differs from own (the type d was pushed with).
func (m *RepoModel) ListingTypes(d, own string) (n int, skew bool) {
	seen := map[string]bool{}
	for _, t := range m.Listings[d] {
		seen[t] = true
		if t != own {
			skew = true
		}
	}
	return len(seen), skew
}

func NewRepoModel(name string) *RepoModel {
	return &RepoModel{Name: name, Stored: map[string][]byte{}, Mans: map[string]*Man{}, Tags: map[string]string{},
		Adopted: map[string]bool{}, DelDig: map[string]bool{}, LostK1: map[string]bool{}, Listings: map[string]map[string]string{}}
}

// Visible reports whether manifest d is retrievable: present in the index and its bytes stored.
func (m *RepoModel) Visible(d string) bool { return m.Mans[d] != nil && m.Stored[d] != nil }

func (m *RepoModel) Tagged(d string) bool {
	for _, v := range m.Tags {
		if v == d {
			return true
		}
	}
	return false
}

// Referrers returns the digests of present manifests whose subject is s, sorted.
func (m *RepoModel) Referrers(s string) []string {
	out := []string{}
	for d, mm := range m.Mans {
		if mm.Subject == s && m.Stored[d] != nil {
			out = append(out, d)
		}
	}
	sort.Strings(out)
	return out
}

// ValidRefs reports whether every config/layer/child of mm is stored in this repository.
func (m *RepoModel) ValidRefs(mm *Man) bool {
	for _, rf := range mm.Refs {
		if m.Stored[rf] == nil {
			return false
		}
	}
	return true
}

// World couples one server under test with the models of its repositories.
type World struct {
	puts int // manifest pushes so far
	R     *Run
	H     http.Handler
	U     *Universe
	Kind  StoreKind
	Repos map[string]*RepoModel
	Trace []string
	Reqs  int
	Known map[string]int // recorded findings recognised in this world
	// orphans (K1 candidates) of every repository as of the end of the previous Compare
	prevOrph map[string]map[string]bool
	prevK5   map[string]map[string]bool
}

func NewWorld(r *Run, h http.Handler, u *Universe, kind StoreKind, repos ...string) *World {
	w := &World{R: r, H: h, U: u, Kind: kind, Repos: map[string]*RepoModel{}, Known: map[string]int{}, prevOrph: map[string]map[string]bool{}, prevK5: map[string]map[string]bool{}}
	for _, n := range repos {
		w.Repos[n] = NewRepoModel(n)
	}
	return w
}

func (w *World) Do(rq Req) Resp {
	w.Reqs++
	return Do(w.H, rq)
}

func (w *World) T(format string, a ...any) {
	w.Trace = append(w.Trace, fmt.Sprintf(format, a...))
}

// PushBlob uploads b monolithically and updates the model on 201.
func (w *World) PushBlob(repo string, b *Blob) Resp {
	rs := w.Do(Req{Method: "POST", URL: "/v2/" + repo + "/blobs/uploads/?digest=" + b.D, Body: b.B})
	w.T("blob %s/%s=%d", repo, b.Name, rs.Status)
	if rs.Status == 201 {
		w.Repos[repo].Stored[b.D] = b.B
	}
	return rs
}

// ManifestURL returns the PUT url for pushing mm under ref ("" = by digest).
func ManifestURL(repo string, mm *Man, tag string) string {
	if tag == "" {
		return "/v2/" + repo + "/manifests/" + mm.D
	}
	u := "/v2/" + repo + "/manifests/" + tag
	if AlgOf(mm.D) != "sha256" {
		u += "?digest=" + url.QueryEscape(mm.D)
	}
	return u
}

// PutManifest pushes mm; returns the response and whether the specification requires acceptance.
func (w *World) PutManifest(repo string, mm *Man, tag string) (Resp, bool) {
	m := w.Repos[repo]
	ok := m.ValidRefs(mm)
	// every third push is streamed (no Content-Length, as a chunked client sends it): nothing may depend on the
	// announced length
	w.puts++
	rs := w.Do(Req{Method: "PUT", URL: ManifestURL(repo, mm, tag), H: map[string]string{"Content-Type": mm.MT}, Body: mm.Raw, UnknownLen: w.puts%3 == 2})
	w.T("put %s/%s as %s=%d", repo, mm.Name, map[bool]string{true: tag, false: "digest"}[tag != ""], rs.Status)
	if rs.Status == 201 {
		m.Mans[mm.D] = mm
		m.Stored[mm.D] = mm.Raw
		m.Adopted[mm.D] = false
		delete(m.DelDig, mm.D)
		delete(m.LostK1, mm.D)
		if tag != "" {
			m.Tags[tag] = mm.D
		}
		// adoption (K1 tracking): present children of a newly stored index that have no tag (after this push took
		// the tag, if it did) are moved out of index.json
		if mm.Index {
			for _, c := range mm.Refs {
				if m.Mans[c] != nil && !m.Tagged(c) && c != mm.D {
					m.Adopted[c] = true
				}
				if cm := w.U.ByD[c]; cm != nil {
					lt := cm.MT
					if as := mm.Listed[c]; as != "" {
						lt = as
					}
					if m.Listings[c] == nil {
						m.Listings[c] = map[string]string{}
					}
					m.Listings[c][mm.D] = lt
				}
			}
		}
		if mm.Subject != "" {
			// the regenerated referrers answer adopts untagged referrers the same way
			for _, d := range m.Referrers(mm.Subject) {
				if !m.Tagged(d) && d != mm.D {
					m.Adopted[d] = true
				}
			}
			if tag == "" {
				m.Adopted[mm.D] = true
			}
		}
	}
	return rs, ok
}

// DeleteTag deletes a tag; returns response and expected status.
func (w *World) DeleteTag(repo, tag string) (Resp, int) {
	m := w.Repos[repo]
	rs := w.Do(Req{Method: "DELETE", URL: "/v2/" + repo + "/manifests/" + tag})
	w.T("deltag %s/%s=%d", repo, tag, rs.Status)
	exp := 404
	if _, ok := m.Tags[tag]; ok {
		exp = 202
	}
	if rs.Status == 202 {
		delete(m.Tags, tag)
	}
	return rs, exp
}

// DeleteManifest deletes by digest; returns response and expected status (0 = either, recorded finding K5 may apply).
func (w *World) DeleteManifest(repo string, mm *Man) (Resp, int) {
	m := w.Repos[repo]
	rs := w.Do(Req{Method: "DELETE", URL: "/v2/" + repo + "/manifests/" + mm.D})
	w.T("deldig %s/%s=%d", repo, mm.Name, rs.Status)
	exp := 404
	if m.Mans[mm.D] != nil {
		exp = 202
	} else if w.k5Possible(m, mm.D) || m.LostK1[mm.D] || w.k5Entry(m, mm.D) {
		exp = 0
	}
	if rs.Status == 202 {
		delete(m.Mans, mm.D)
		for tg, d := range m.Tags {
			if d == mm.D {
				delete(m.Tags, tg)
			}
		}
		m.DelDig[mm.D] = true
		m.Adopted[mm.D] = false
		delete(m.LostK1, mm.D)
	}
	return rs, exp
}

// DeleteBlob removes content through the blob API.
func (w *World) DeleteBlob(repo, d, name string) (Resp, int) {
	m := w.Repos[repo]
	rs := w.Do(Req{Method: "DELETE", URL: "/v2/" + repo + "/blobs/" + d})
	w.T("delblob %s/%s=%d", repo, name, rs.Status)
	exp := 404
	if m.Stored[d] != nil {
		exp = 202
	}
	if rs.Status == 202 {
		delete(m.Stored, d)
	}
	return rs, exp
}

// k5Possible: recorded finding K5 - a manifest deleted by digest is served again after the repository index is
// reloaded while some stored index still lists it and its bytes are stored.
func (w *World) k5Possible(m *RepoModel, d string) bool {
	if w.prevK5[m.Name][d] && w.Kind != Mem {
		return true // (possible as of the previous look: a reload may have met that state, see k1Possible)
	}
	return w.k5Now(m, d)
}

// k5Entry: the part of K5 that only a DELETE sees - the child entry of a manifest deleted by digest comes back at a
// reload while a stored index lists it, whether or not its bytes are still stored (reads answer 404 without the
// bytes, the delete finds the entry and answers 202).
// K5Entry reports whether a manifest of repo is in the K5 situation as far as its index entry goes (deleted by digest,
// a stored index still lists it): once its bytes are stored again - by a re-push - a reload serves it.
func (w *World) K5Entry(repo, d string) bool { return w.k5Entry(w.Repos[repo], d) }

func (w *World) k5Entry(m *RepoModel, d string) bool {
	if !m.DelDig[d] || w.Kind == Mem {
		return false
	}
	for _, p := range w.U.Mans {
		if p.Index && m.Stored[p.D] != nil {
			for _, c := range p.Refs {
				if c == d {
					return true
				}
			}
		}
	}
	return false
}

func (w *World) k5Now(m *RepoModel, d string) bool {
	if !m.DelDig[d] || m.Stored[d] == nil || w.Kind == Mem {
		return false
	}
	for _, p := range w.U.Mans {
		if p.Index && m.Stored[p.D] != nil {
			for _, c := range p.Refs {
				if c == d {
					return true
				}
			}
		}
	}
	return false
}

// k1Possible: recorded finding K1 - an untagged manifest that was adopted as a child of a later stored index (or
// referrers answer) has no entry of its own in index.json; after a reload it is only found again if it can be
// derived from manifests that do have an entry.
func (w *World) k1Possible(m *RepoModel, d string) bool {
	if w.Kind == Mem || m.Tagged(d) {
		return false
	}
	// The directory store reloads index.json whenever its time stamps ask for it (at the latest one second after the
	// previous look, so under load at any request): the reload may have met the state before the last operation.  A
	// manifest that was an orphan then, and is derivable again only through what that operation stored, is lost all
	// the same.
	return w.Orphans(m, nil)[d] || w.prevOrph[m.Name][d]
}

// Orphans returns the manifests that live only in a child list (adopted, untagged) and are not derivable from the
// manifests that have an index.json entry of their own, through the children of present indexes (at any nesting
// depth) and through the referrers answers of present subjects (unlisted = artifacts known to be missing from
// their subject's answer).
func (w *World) Orphans(m *RepoModel, unlisted map[string]bool) map[string]bool {
	return w.OrphansX(m, unlisted, nil)
}

// OrphansX is Orphans in the state in which the manifests in gone have no entry any more (a collection pass that
// removes a parent as garbage takes away what derived its adopted children in the same step).
func (w *World) OrphansX(m *RepoModel, unlisted, gone map[string]bool) map[string]bool {
	reach := map[string]bool{}
	var q []string
	for d := range m.Mans {
		if gone[d] {
			continue
		}
		if (!m.Adopted[d] || m.Tagged(d)) && m.Stored[d] != nil {
			reach[d] = true
			q = append(q, d)
		}
	}
	for len(q) > 0 {
		d := q[0]
		q = q[1:]
		p := m.Mans[d]
		var next []string
		if p != nil && p.Index {
			next = append(next, p.Refs...)
		}
		for _, a := range m.Referrers(d) {
			if !unlisted[a] {
				next = append(next, a)
			}
		}
		for _, c := range next {
			if !reach[c] && !gone[c] && m.Mans[c] != nil && m.Stored[c] != nil {
				reach[c] = true
				q = append(q, c)
			}
		}
	}
	out := map[string]bool{}
	for d := range m.Mans {
		if m.Adopted[d] && !reach[d] && !gone[d] {
			out[d] = true
		}
	}
	return out
}

// Snap is the observable state of one repository over the universe.
type Snap struct {
	Tags []string            // tags/list
	TagD map[string]string   // tag -> digest it resolves to ("" = 404)
	Man  map[string]string   // digest -> "ok" | "404" | other
	Ref  map[string][]string // subject -> sorted digests
	Blob map[string]bool     // digest -> retrievable through the blob API
	CT   map[string]string   // digest of a served manifest -> Content-Type it is served with (Accept: every manifest type)
	Prob []string            // problems found while reading (bytes differ, wrong headers, ...)
	K9   []string            `json:"-"` // recorded finding K9: served under the media type a stored index lists it with, not the pushed one
}

// ModelSnap renders the model in the same form.
func (w *World) ModelSnap(repo string) Snap {
	m := w.Repos[repo]
	s := Snap{TagD: map[string]string{}, Man: map[string]string{}, Ref: map[string][]string{}, Blob: map[string]bool{}}
	for t := range m.Tags {
		s.Tags = append(s.Tags, t)
	}
	sort.Strings(s.Tags)
	for _, t := range w.U.Tags {
		if d, ok := m.Tags[t]; ok && m.Visible(d) {
			s.TagD[t] = d
		} else {
			s.TagD[t] = ""
		}
	}
	for _, mm := range w.U.Mans {
		if m.Visible(mm.D) {
			s.Man[mm.D] = "ok"
		} else {
			s.Man[mm.D] = "404"
		}
		s.Blob[mm.D] = m.Stored[mm.D] != nil
	}
	for _, sj := range w.U.Subjects {
		s.Ref[sj] = m.Referrers(sj)
	}
	for _, b := range w.U.Blobs {
		s.Blob[b.D] = m.Stored[b.D] != nil
	}
	return s
}

// RealSnap reads the same from the server, checking bytes and headers of everything it reads (C01/C02 monitors).
func (w *World) RealSnap(repo string) Snap {
	s := Snap{TagD: map[string]string{}, Man: map[string]string{}, Ref: map[string][]string{}, Blob: map[string]bool{}}
	acc := map[string]string{"Accept": AcceptAll}
	rs := w.Do(Req{Method: "GET", URL: "/v2/" + repo + "/tags/list"})
	var tl struct {
		Name string
		Tags []string
	}
	if rs.Status == 200 {
		if err := json.Unmarshal(rs.Body, &tl); err != nil {
			s.Prob = append(s.Prob, "tags/list is not valid JSON")
		}
		s.Tags = tl.Tags
		if s.Tags == nil {
			s.Tags = []string{}
		}
	} else if rs.Status != 404 {
		s.Prob = append(s.Prob, fmt.Sprintf("tags/list status %d", rs.Status))
	}
	if s.Tags == nil {
		s.Tags = []string{}
	}
	for _, t := range w.U.Tags {
		rq := Req{Method: "GET", URL: "/v2/" + repo + "/manifests/" + t, H: acc}
		rs := w.Do(rq)
		switch rs.Status {
		case 200:
			d := rs.H.Get("Docker-Content-Digest")
			s.TagD[t] = d
			if p := G1(rq, rs); p != "" {
				s.Prob = append(s.Prob, "tag "+t+": "+p)
			}
			if mm := w.U.ByD[d]; mm != nil {
				if string(rs.Body) != string(mm.Raw) {
					s.Prob = append(s.Prob, "tag "+t+": body differs from the pushed bytes")
				}
				if ct := rs.H.Get("Content-Type"); ct != mm.MT {
					s.Prob = append(s.Prob, fmt.Sprintf("tag %s: Content-Type %q, pushed %q", t, ct, mm.MT))
				}
			}
		case 404:
			s.TagD[t] = ""
		default:
			s.TagD[t] = fmt.Sprintf("status%d", rs.Status)
		}
	}
	for _, mm := range w.U.Mans {
		rq := Req{Method: "GET", URL: "/v2/" + repo + "/manifests/" + mm.D, H: acc}
		rs := w.Do(rq)
		switch rs.Status {
		case 200:
			s.Man[mm.D] = "ok"
			if p := G1(rq, rs); p != "" {
				s.Prob = append(s.Prob, "manifest "+mm.Name+": "+p)
			}
			if string(rs.Body) != string(mm.Raw) {
				s.Prob = append(s.Prob, "manifest "+mm.Name+": body differs from the pushed bytes")
			}
			ct := rs.H.Get("Content-Type")
			if s.CT == nil {
				s.CT = map[string]string{}
			}
			s.CT[mm.D] = ct
			if ct != mm.MT {
				if rm := w.Repos[repo]; rm != nil && rm.ListedAs(mm.D, ct) {
					s.K9 = append(s.K9, fmt.Sprintf("manifest %s: Content-Type %q, pushed %q, an acknowledged index lists it under the former", mm.Name, ct, mm.MT))
				} else {
					s.Prob = append(s.Prob, fmt.Sprintf("manifest %s: Content-Type %q, pushed %q", mm.Name, ct, mm.MT))
				}
			}
			hd := w.Do(Req{Method: "HEAD", URL: rq.URL, H: acc})
			if hd.Status != 200 || hd.H.Get("Content-Length") != fmt.Sprint(len(mm.Raw)) || hd.H.Get("Docker-Content-Digest") != mm.D {
				s.Prob = append(s.Prob, fmt.Sprintf("manifest %s: HEAD status %d length %s digest %s", mm.Name, hd.Status, hd.H.Get("Content-Length"), hd.H.Get("Docker-Content-Digest")))
			}
		case 404:
			s.Man[mm.D] = "404"
		default:
			s.Man[mm.D] = fmt.Sprintf("status%d", rs.Status)
		}
		bh := w.Do(Req{Method: "HEAD", URL: "/v2/" + repo + "/blobs/" + mm.D})
		s.Blob[mm.D] = bh.Status == 200
	}
	for _, sj := range w.U.Subjects {
		ds, prob := w.ReadReferrers(repo, sj, "")
		if prob != "" {
			s.Prob = append(s.Prob, "referrers "+Short(sj)+": "+prob)
		}
		s.Ref[sj] = ds
	}
	for _, b := range w.U.Blobs {
		rq := Req{Method: "GET", URL: "/v2/" + repo + "/blobs/" + b.D}
		rs := w.Do(rq)
		s.Blob[b.D] = rs.Status == 200
		if rs.Status == 200 {
			if p := G1(rq, rs); p != "" {
				s.Prob = append(s.Prob, "blob "+b.Name+": "+p)
			}
			if string(rs.Body) != string(b.B) {
				s.Prob = append(s.Prob, "blob "+b.Name+": body differs from the pushed bytes")
			}
		} else if rs.Status != 404 {
			s.Prob = append(s.Prob, fmt.Sprintf("blob %s: status %d", b.Name, rs.Status))
		}
	}
	return s
}

// RefDesc is a descriptor of a referrers response.
type RefDesc struct {
	MediaType    string            `json:"mediaType"`
	Digest       string            `json:"digest"`
	Size         int64             `json:"size"`
	ArtifactType string            `json:"artifactType"`
	Annotations  map[string]string `json:"annotations"`
}

// WalkReferrers follows the Link chain of a referrers request; returns all descriptors in order, the number of
// pages, per-page body sizes and a problem string.
func (w *World) WalkReferrers(repo, subject, filter string) (descs []RefDesc, pages int, sizes []int, hdrs []http.Header, prob string) {
	u := "/v2/" + repo + "/referrers/" + subject
	if filter != "" {
		u += "?artifactType=" + url.QueryEscape(filter)
	}
	for pages < 200 {
		rs := w.Do(Req{Method: "GET", URL: u})
		pages++
		if rs.Status != 200 {
			return descs, pages, sizes, hdrs, fmt.Sprintf("status %d", rs.Status)
		}
		if ct := rs.H.Get("Content-Type"); ct != MTIndex {
			prob = fmt.Sprintf("Content-Type %q", ct)
		}
		var idx struct {
			SchemaVersion int       `json:"schemaVersion"`
			MediaType     string    `json:"mediaType"`
			Manifests     []RefDesc `json:"manifests"`
		}
		if err := json.Unmarshal(rs.Body, &idx); err != nil {
			return descs, pages, sizes, hdrs, "response is not valid JSON"
		}
		if idx.Manifests == nil && prob == "" {
			// "an empty index": the image-spec requires the manifests array, null or absent is not an index
			prob = fmt.Sprintf("the answer has no manifests array: %.120s", rs.Body)
		}
		if (idx.SchemaVersion != 2 || idx.MediaType != MTIndex) && prob == "" {
			prob = fmt.Sprintf("the answer is not an OCI index (schemaVersion %d, mediaType %q)", idx.SchemaVersion, idx.MediaType)
		}
		descs = append(descs, idx.Manifests...)
		sizes = append(sizes, len(rs.Body))
		hdrs = append(hdrs, rs.H)
		link := rs.H.Get("Link")
		if link == "" {
			return
		}
		i, j := strings.Index(link, "<"), strings.Index(link, ">")
		if i < 0 || j < i || !strings.Contains(link, `rel=next`) && !strings.Contains(link, `rel="next"`) {
			return descs, pages, sizes, hdrs, "malformed Link header " + link
		}
		u = link[i+1 : j]
	}
	return descs, pages, sizes, hdrs, "Link chain does not terminate"
}

// ReadReferrers returns the sorted digests listed for subject, and a problem if a digest occurs twice.
func (w *World) ReadReferrers(repo, subject, filter string) ([]string, string) {
	descs, _, _, _, prob := w.WalkReferrers(repo, subject, filter)
	out := []string{}
	seen := map[string]bool{}
	for _, d := range descs {
		if seen[d.Digest] && prob == "" {
			prob = "digest " + Short(d.Digest) + " listed twice"
		}
		seen[d.Digest] = true
		out = append(out, d.Digest)
	}
	sort.Strings(out)
	return out, prob
}

// Diff is one difference between model and observation.
type Diff struct {
	Kind  string // tags | tag | man | ref | blob | prob
	Key   string
	Want  string
	Got   string
	Known string // id of a recorded finding that explains exactly this difference, or ""
}

func (d Diff) String() string {
	return fmt.Sprintf("%s %s: specification says %s, registry shows %s", d.Kind, d.Key, d.Want, d.Got)
}

// NameOf / NamesOf render digests by their universe names.
func (w *World) NameOf(d string) string     { return w.name(d) }
func (w *World) NamesOf(ds []string) string { return w.names(ds) }

func (w *World) name(d string) string {
	if mm := w.U.ByD[d]; mm != nil {
		return mm.Name
	}
	if b := w.U.BlobByD[d]; b != nil {
		return b.Name
	}
	return Short(d)
}

func (w *World) names(ds []string) string {
	out := make([]string, len(ds))
	for i, d := range ds {
		out[i] = w.name(d)
	}
	return "[" + strings.Join(out, " ") + "]"
}

// Compare returns the differences between the model of repo and the real snapshot.  Differences that are exactly
// a recorded finding carry its id in Known, and the model adopts the observation so that later predictions are
// not built on a state the registry is known not to be in.
func (w *World) Compare(repo string, real Snap) []Diff {
	m := w.Repos[repo]
	want := w.ModelSnap(repo)
	var out []Diff
	for _, p := range real.Prob {
		out = append(out, Diff{Kind: "prob", Key: repo, Want: "intact content and headers", Got: p})
	}
	for _, p := range real.K9 {
		out = append(out, Diff{Kind: "prob", Key: repo, Want: "the pushed media type", Got: p, Known: "K9"})
	}
	// manifests first: K1/K5 adoption changes the expectation of derived items
	for _, mm := range w.U.Mans {
		wv, gv := want.Man[mm.D], real.Man[mm.D]
		if wv == gv {
			continue
		}
		d := Diff{Kind: "man", Key: mm.D, Want: wv, Got: gv}
		if wv == "404" && gv == "ok" && w.k5Possible(m, mm.D) {
			d.Known = "K5"
			m.Mans[mm.D] = mm      // adopt
			m.Adopted[mm.D] = true // it exists only as a child of the index that lists it
			delete(m.DelDig, mm.D)
		} else if wv == "ok" && gv == "404" && w.k1Possible(m, mm.D) {
			d.Known = "K1"
			delete(m.Mans, mm.D) // adopt
			m.Adopted[mm.D] = false
			m.LostK1[mm.D] = true
		} else if wv == "404" && gv == "ok" && m.LostK1[mm.D] {
			// the manifest lost through K1 is back (a parent listing it was stored again and the index reloaded):
			// this is the state the specification asked for all along
			d.Known = "K1"
			m.Mans[mm.D] = mm
			m.Adopted[mm.D] = true
			delete(m.LostK1, mm.D)
		}
		d.Key = mm.Name + "(" + Short(mm.D) + ")"
		out = append(out, d)
	}
	adopted := false
	for _, d := range out {
		if d.Known != "" {
			adopted = true
			w.Known[d.Known]++
		}
	}
	if adopted {
		want = w.ModelSnap(repo)
	}
	if strings.Join(want.Tags, ",") != strings.Join(real.Tags, ",") {
		out = append(out, Diff{Kind: "tags", Key: repo, Want: fmt.Sprint(want.Tags), Got: fmt.Sprint(real.Tags)})
	}
	for _, t := range w.U.Tags {
		if want.TagD[t] != real.TagD[t] {
			out = append(out, Diff{Kind: "tag", Key: t, Want: w.name(want.TagD[t]), Got: w.name(real.TagD[t])})
		}
	}
	for _, sj := range w.U.Subjects {
		if strings.Join(want.Ref[sj], ",") != strings.Join(real.Ref[sj], ",") {
			d := Diff{Kind: "ref", Key: w.name(sj), Want: w.names(want.Ref[sj]), Got: w.names(real.Ref[sj])}
			out = append(out, d)
		}
	}
	for d, wv := range want.Blob {
		if gv := real.Blob[d]; gv != wv {
			out = append(out, Diff{Kind: "blob", Key: w.name(d), Want: fmt.Sprint(wv), Got: fmt.Sprint(gv)})
		}
	}
	w.prevOrph[repo] = w.Orphans(m, nil)
	k5 := map[string]bool{}
	for d := range m.DelDig {
		if w.k5Now(m, d) {
			k5[d] = true
		}
	}
	w.prevK5[repo] = k5
	return out
}

// Unknown returns the differences that are not explained by a recorded finding.
func Unknown(ds []Diff) []Diff {
	var out []Diff
	for _, d := range ds {
		if d.Known == "" {
			out = append(out, d)
		}
	}
	return out
}

// RealSnapVia reads the snapshot of repo through another handler (e.g. a server reopened on the same directory).
func (w *World) RealSnapVia(h http.Handler, repo string) Snap {
	old := w.H
	w.H = h
	defer func() { w.H = old }()
	return w.RealSnap(repo)
}
