package vh

import (
	"encoding/json"
	"fmt"
	"math/rand"
	"strings"
)

// Blob is a piece of unique content.
type Blob struct {
	Name string
	B    []byte
	D    string
}

// Man is a manifest the harness may push.
type Man struct {
	Name    string
	Raw     []byte
	D       string
	MT      string
	Refs    []string          // config, layers, children (digests)
	Subject string            // subject digest, "" if none
	AT      string            // artifactType expected in the referrers descriptor
	Ann     map[string]string // annotations expected in the referrers descriptor
	Index   bool
	Bare    bool              // the body has no mediaType field: the type is known from the Content-Type of the push only
	Listed  map[string]string // index only: child digest -> media type this index lists it under, where that differs from the child's own
}

// Universe is the small closed world of one history: few blobs, few manifests, few tags, so that
// collisions, overwrites and aliasing happen constantly.
type Universe struct {
	Blobs    []*Blob
	Mans     []*Man
	ByD      map[string]*Man
	BlobByD  map[string]*Blob
	Tags     []string
	Subjects []string // every digest that may be asked for referrers
	Missing  string   // a subject digest that is never stored
}

// UOpts tunes the generator.
type UOpts struct {
	Algs      bool // mix sha512/sha384 digests in (default sha256 only)
	Aliasing  bool // manifests whose body digest is also used as a layer/config elsewhere
	Docker    bool // some docker media types
	NBlobs    int
	NImages   int
	NIndexes  int
	NArtifact int
	BareMT    bool // some OCI manifests and indexes omit the optional mediaType field of the body
	MTSkew    bool // some index entries list a child under another (docker <-> OCI) media type than it was pushed with, or with another size
	Foreign   bool // some layers carry a foreign / non-distributable layer media type
	MTWild    bool // some index entries list a child manifest under a media type that is no manifest type at all
	OddAT     bool // artifact types that contain + & = % #
	ChildName bool // some child descriptors inside indexes carry the annotation org.opencontainers.image.ref.name with the value of one of the universe's tags (image exporters write such entries); it names nothing in the repository
	HotAnn    bool // some artifacts carry the annotation org.opencontainers.image.ref.name (a standard key, a tag in a layout index)
	Tags      []string
	Tag       string // unique content marker
}

func pickAlg(r *rand.Rand, on bool) string {
	if !on {
		return "sha256"
	}
	switch x := r.Intn(10); {
	case x < 7:
		return "sha256"
	case x < 9:
		return "sha512"
	}
	return "sha384"
}

func descJSON(mt, d string, size int) map[string]any {
	return map[string]any{"mediaType": mt, "digest": d, "size": size}
}

// MkImage builds an image manifest.
func MkImage(name, alg, mt string, cfg *Blob, cfgMT string, layers []Descriptorish, subject, at string, ann map[string]string) *Man {
	return MkImageX(name, alg, mt, cfg, cfgMT, layers, subject, at, ann, MkOpt{})
}

// MkOpt are the rarely used variations of MkImageX / MkIndexX.
type MkOpt struct {
	Bare   bool              // leave the mediaType field out of the body
	ListAs map[string]string // index: child digest -> media type to list it under
	Resize map[string]int    // index: child digest -> bytes to add to the size it is listed with
	Names  map[string]string // index: child digest -> value of the annotation org.opencontainers.image.ref.name on its descriptor
}

// MkImageX is MkImage with variations.
func MkImageX(name, alg, mt string, cfg *Blob, cfgMT string, layers []Descriptorish, subject, at string, ann map[string]string, o MkOpt) *Man {
	m := map[string]any{"schemaVersion": 2, "mediaType": mt, "config": descJSON(cfgMT, cfg.D, len(cfg.B))}
	if o.Bare {
		delete(m, "mediaType")
	}
	ls := []any{}
	refs := []string{cfg.D}
	for _, l := range layers {
		ls = append(ls, descJSON(l.MT, l.D, l.Size))
		refs = append(refs, l.D)
	}
	m["layers"] = ls
	if subject != "" {
		m["subject"] = descJSON(MTImage, subject, 7)
	}
	eff := cfgMT
	if at != "" {
		m["artifactType"] = at
		eff = at
	}
	if ann != nil {
		m["annotations"] = ann
	}
	raw, _ := json.Marshal(m)
	return &Man{Name: name, Raw: raw, MT: mt, D: DigestOf(alg, raw), Refs: refs, Subject: subject, AT: eff, Ann: ann, Bare: o.Bare}
}

// Descriptorish is the minimum needed to reference content.
type Descriptorish struct {
	MT   string
	D    string
	Size int
}

// MkIndex builds an index manifest.
func MkIndex(name, alg, mt string, children []*Man, subject, at string, ann map[string]string) *Man {
	return MkIndexX(name, alg, mt, children, subject, at, ann, MkOpt{})
}

// MkIndexX is MkIndex with variations.
func MkIndexX(name, alg, mt string, children []*Man, subject, at string, ann map[string]string, o MkOpt) *Man {
	ms := []any{}
	refs := []string{}
	var listed map[string]string
	for _, c := range children {
		cmt := c.MT
		if as := o.ListAs[c.D]; as != "" && as != c.MT {
			cmt = as
			if listed == nil {
				listed = map[string]string{}
			}
			listed[c.D] = as
		}
		dj := descJSON(cmt, c.D, len(c.Raw)+o.Resize[c.D])
		if n := o.Names[c.D]; n != "" {
			dj["annotations"] = map[string]string{"org.opencontainers.image.ref.name": n}
		}
		ms = append(ms, dj)
		refs = append(refs, c.D)
	}
	m := map[string]any{"schemaVersion": 2, "mediaType": mt, "manifests": ms}
	if o.Bare {
		delete(m, "mediaType")
	}
	if subject != "" {
		m["subject"] = descJSON(MTImage, subject, 7)
	}
	if at != "" {
		m["artifactType"] = at
	}
	if ann != nil {
		m["annotations"] = ann
	}
	raw, _ := json.Marshal(m)
	return &Man{Name: name, Raw: raw, MT: mt, D: DigestOf(alg, raw), Refs: refs, Subject: subject, AT: at, Ann: ann, Index: true, Bare: o.Bare, Listed: listed}
}

// GenUniverse draws a random universe.
func GenUniverse(r *rand.Rand, o UOpts) *Universe {
	if o.NBlobs == 0 {
		o.NBlobs = 4 + r.Intn(3)
	}
	if o.NImages == 0 {
		o.NImages = 3 + r.Intn(2)
	}
	if o.NIndexes == 0 {
		o.NIndexes = 1 + r.Intn(3)
	}
	if o.NArtifact == 0 {
		o.NArtifact = 3 + r.Intn(4)
	}
	u := &Universe{ByD: map[string]*Man{}, BlobByD: map[string]*Blob{}, Tags: o.Tags}
	if u.Tags == nil {
		u.Tags = []string{"t1", "t2", "t3"}
	}
	for i := 0; i < o.NBlobs; i++ {
		sz := []int{0, 1, 12, 300, 5000}[r.Intn(5)]
		b := []byte(fmt.Sprintf(`{"blob":%d,"u":"%s","pad":"`, i, o.Tag))
		for len(b) < sz {
			b = append(b, byte('a'+r.Intn(26)))
		}
		b = append(b, '"', '}')
		if sz == 0 && i == 1 {
			b = []byte{} // the empty blob
		}
		bl := &Blob{Name: fmt.Sprintf("b%d", i), B: b, D: DigestOf(pickAlg(r, o.Algs), b)}
		u.Blobs = append(u.Blobs, bl)
	}
	blob := func() *Blob { return u.Blobs[r.Intn(len(u.Blobs))] }
	ann := func(name string) map[string]string {
		if r.Intn(3) == 0 {
			return nil
		}
		a := map[string]string{"name": name, "u": o.Tag}
		if o.HotAnn && r.Intn(2) == 0 {
			// annotation keys that mean something to an OCI layout: on an artifact manifest they are just annotations
			a["org.opencontainers.image.ref.name"] = []string{"v1", "v1", "release"}[r.Intn(3)]
		}
		return a
	}
	var images, indexes, all []*Man
	for i := 0; i < o.NImages; i++ {
		mt, cmt := MTImage, MTConfig
		if o.Docker && r.Intn(4) == 0 {
			mt, cmt = MTDockerImage, "application/vnd.docker.container.image.v1+json"
		}
		var ls []Descriptorish
		for k := r.Intn(3); k > 0; k-- {
			b := blob()
			lmt := MTLayer
			if o.Foreign && r.Intn(3) == 0 {
				// layers of the "foreign" / non-distributable kinds: the registry stores them like any other layer
				lmt = []string{"application/vnd.docker.image.rootfs.foreign.diff.tar.gzip", "application/vnd.oci.image.layer.nondistributable.v1.tar+gzip"}[r.Intn(2)]
			}
			ls = append(ls, Descriptorish{lmt, b.D, len(b.B)})
		}
		if o.Aliasing && len(images) > 0 && r.Intn(3) == 0 {
			// a layer that is itself a manifest body (one digest, two roles)
			o2 := images[r.Intn(len(images))]
			ls = append(ls, Descriptorish{MTLayer, o2.D, len(o2.Raw)})
		}
		mo := MkOpt{Bare: o.BareMT && mt == MTImage && r.Intn(3) == 0}
		m := MkImageX(fmt.Sprintf("i%d", i), pickAlg(r, o.Algs), mt, blob(), cmt, ls, "", "", map[string]string{"name": fmt.Sprintf("i%d", i), "u": o.Tag}, mo)
		images = append(images, m)
		all = append(all, m)
	}
	for i := 0; i < o.NIndexes; i++ {
		mt := MTIndex
		if o.Docker && r.Intn(2) == 0 {
			mt = MTDockerList
		}
		var ch []*Man
		n := 1 + r.Intn(2)
		for k := 0; k < n; k++ {
			if len(indexes) > 0 && r.Intn(3) == 0 {
				ch = append(ch, indexes[r.Intn(len(indexes))]) // nesting
			} else {
				ch = append(ch, images[r.Intn(len(images))])
			}
		}
		if i == 1 && len(indexes) > 0 {
			ch[0] = indexes[0] // every universe has at least one index nested in another
		}
		if r.Intn(8) == 0 && i != 1 {
			ch = nil // the empty index
		}
		mo := MkOpt{Bare: o.BareMT && mt == MTIndex && r.Intn(4) == 0}
		if o.MTWild {
			// a tool that writes an index may get a child's media type wrong altogether (a manifest listed as a layer)
			for _, c := range ch {
				if r.Intn(3) == 0 {
					if mo.ListAs == nil {
						mo.ListAs = map[string]string{}
					}
					mo.ListAs[c.D] = MTLayer
				}
			}
		}
		if o.MTSkew {
			// a tool that rewrites an index may list its children under the sibling media type
			swap := map[string]string{MTImage: MTDockerImage, MTDockerImage: MTImage, MTIndex: MTDockerList, MTDockerList: MTIndex}
			for _, c := range ch {
				if r.Intn(3) == 0 {
					if mo.ListAs == nil {
						mo.ListAs = map[string]string{}
					}
					mo.ListAs[c.D] = swap[c.MT]
				}
				if r.Intn(3) == 0 {
					// ... or with a size that is not the child's (the registry only checks that the child exists)
					if mo.Resize == nil {
						mo.Resize = map[string]int{}
					}
					mo.Resize[c.D] = 1 + r.Intn(9)
				}
			}
		}
		if o.ChildName {
			for _, c := range ch {
				if r.Intn(2) == 0 {
					if mo.Names == nil {
						mo.Names = map[string]string{}
					}
					mo.Names[c.D] = u.Tags[r.Intn(len(u.Tags))]
				}
			}
		}
		m := MkIndexX(fmt.Sprintf("x%d", i), pickAlg(r, o.Algs), mt, ch, "", "", map[string]string{"name": fmt.Sprintf("x%d", i), "u": o.Tag}, mo)
		indexes = append(indexes, m)
		all = append(all, m)
	}
	u.Missing = DigestOf("sha256", []byte("missing-subject-"+o.Tag))
	subjPool := []string{u.Missing}
	for _, m := range all {
		subjPool = append(subjPool, m.D)
	}
	ats := []string{"application/x.a", "application/x.b", ""}
	if o.OddAT {
		// artifact types with characters that have a meaning of their own in a query string
		ats = []string{"application/vnd.example.sbom.v1+json", "application/x.a&b=%63#d", ""}
		if o.Tag != "" && o.Tag[len(o.Tag)-1]%2 == 0 {
			// types that differ only in case, and one with a parameter: the filter compares the strings as they are
			ats = []string{"application/vnd.example.sbom.v1+json", "application/vnd.example.SBOM.v1+json", "Application/X.p;v=1"}
		}
	}
	var arts []*Man
	for i := 0; i < o.NArtifact; i++ {
		name := fmt.Sprintf("a%d", i)
		subj := subjPool[r.Intn(len(subjPool))]
		if len(arts) > 0 && r.Intn(5) == 0 {
			subj = arts[r.Intn(len(arts))].D // referrer of a referrer
		}
		if r.Intn(4) == 0 && len(subjPool) > 1 {
			subj = subjPool[1] // concentrate on one subject
		}
		var m *Man
		if r.Intn(5) == 0 {
			// index artifact: artifactType field only (may be empty)
			m = MkIndex(name, pickAlg(r, o.Algs), MTIndex, []*Man{images[r.Intn(len(images))]}, subj, ats[r.Intn(3)], ann(name))
		} else {
			var ls []Descriptorish
			if r.Intn(2) == 0 {
				b := blob()
				ls = append(ls, Descriptorish{MTLayer, b.D, len(b.B)})
			}
			cmt := []string{MTConfig, "application/vnd.oci.empty.v1+json", "application/x.cfg"}[r.Intn(3)]
			a := ann(name)
			if a == nil {
				a = map[string]string{"name": name} // keep bodies unique
			}
			m = MkImage(name, pickAlg(r, o.Algs), MTImage, blob(), cmt, ls, subj, ats[r.Intn(3)], a)
		}
		arts = append(arts, m)
		all = append(all, m)
	}
	// de-duplicate by digest (two generated manifests may coincide)
	for _, m := range all {
		if u.ByD[m.D] == nil {
			u.ByD[m.D] = m
			u.Mans = append(u.Mans, m)
		}
	}
	for _, b := range u.Blobs {
		u.BlobByD[b.D] = b
	}
	seen := map[string]bool{}
	for _, m := range u.Mans {
		if m.Subject != "" && !seen[m.Subject] {
			seen[m.Subject] = true
			u.Subjects = append(u.Subjects, m.Subject)
		}
	}
	if !seen[u.Missing] {
		u.Subjects = append(u.Subjects, u.Missing)
	}
	if len(u.Mans) > 0 && !seen[u.Mans[0].D] {
		u.Subjects = append(u.Subjects, u.Mans[0].D) // a subject nobody refers to
	}
	return u
}

// Short is a short form of a digest for messages.
func Short(d string) string {
	a, h, ok := strings.Cut(d, ":")
	if !ok || len(h) < 8 || len(a) < 4 {
		return d
	}
	return a[3:] + ":" + h[:8]
}
