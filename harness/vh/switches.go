package vh

import (
	"fmt"
	"math/rand"
	"strings"

	"github.com/olareg/olareg/config"
)

// Switches is one combination of the boolean settings that gate requests.
type Switches struct {
	ReadOnly, Push, Delete, BlobDelete, Referrers bool
}

func (s Switches) String() string {
	return fmt.Sprintf("readonly=%v push=%v delete=%v blobdelete=%v referrers=%v", s.ReadOnly, s.Push, s.Delete, s.BlobDelete, s.Referrers)
}

// Apply sets the switches on a config.
func (s Switches) Apply(c *config.Config) {
	c.Storage.ReadOnly = BP(s.ReadOnly)
	c.API.PushEnabled = BP(s.Push)
	c.API.DeleteEnabled = BP(s.Delete)
	c.API.Blob.DeleteEnabled = BP(s.BlobDelete)
	c.API.Referrer.Enabled = BP(s.Referrers)
}

// AllSwitches enumerates the 2^5 combinations.
func AllSwitches() []Switches {
	var out []Switches
	for m := 0; m < 32; m++ {
		out = append(out, Switches{m&1 != 0, m&2 != 0, m&4 != 0, m&8 != 0, m&16 != 0})
	}
	return out
}

// SwitchProbe is one request of the behaviour table with the class of answer the documentation implies.
type SwitchProbe struct {
	Name    string
	Req     Req
	Allowed bool // true: the switch combination permits the request (answer must not be a refusal by configuration)
	Mutates bool
}

// SwitchTable builds the probes for a populated repository `repo` whose model is in w; fresh content is derived
// from tag so that every probe is a genuinely new operation.
func SwitchTable(w *World, repo string, s Switches, rng *rand.Rand, tag string) []SwitchProbe {
	m := w.Repos[repo]
	u := w.U
	var tagged, anyMan, plainBlob string
	// deterministic choices (map iteration order must not influence what a seed explores)
	for t := range m.Tags {
		if tagged == "" || t < tagged {
			tagged = t
		}
	}
	for d := range m.Mans {
		if anyMan == "" || d < anyMan {
			anyMan = d
		}
	}
	for d := range m.Stored {
		if m.Mans[d] == nil && u.ByD[d] == nil && (plainBlob == "" || d < plainBlob) {
			plainBlob = d
		}
	}
	nb := []byte("switch probe " + tag)
	nd := DigestOf("sha256", nb)
	cfg := &Blob{Name: "cfg", B: nb, D: nd}
	img := MkImage("sw", "sha256", MTImage, cfg, MTConfig, nil, "", "", map[string]string{"sw": tag})
	canPush := s.Push && !s.ReadOnly
	canDel := s.Delete && !s.ReadOnly
	canBlobDel := s.Delete && s.BlobDelete && !s.ReadOnly
	p := []SwitchProbe{
		{"ping", Req{Method: "GET", URL: "/v2/"}, true, false},
		{"tags-list", Req{Method: "GET", URL: "/v2/" + repo + "/tags/list"}, true, false},
		{"blob-upload-monolithic", Req{Method: "POST", URL: "/v2/" + repo + "/blobs/uploads/?digest=" + nd, Body: nb}, canPush, true},
		{"blob-upload-session", Req{Method: "POST", URL: "/v2/" + repo + "/blobs/uploads/"}, canPush, true},
		{"manifest-put", Req{Method: "PUT", URL: "/v2/" + repo + "/manifests/swtag", H: map[string]string{"Content-Type": MTImage}, Body: img.Raw}, canPush, true},
	}
	// the rarely used forms of the push API: a mount (of content the source holds, and of content nobody holds - which
	// falls back to an ordinary session when pushing is allowed) and a chunk for a session that does not exist
	absent := DigestOf("sha256", []byte("absent "+tag))
	if plainBlob != "" {
		p = append(p, SwitchProbe{"blob-mount", Req{Method: "POST", URL: "/v2/" + repo + "/mnt" + "/blobs/uploads/?mount=" + plainBlob + "&from=" + repo}, canPush, true})
	}
	p = append(p, SwitchProbe{"blob-mount-unknown", Req{Method: "POST", URL: "/v2/" + repo + "/mnu" + "/blobs/uploads/?mount=" + absent + "&from=" + repo}, canPush, true})
	if tagged != "" {
		p = append(p, SwitchProbe{"manifest-get-tag", Req{Method: "GET", URL: "/v2/" + repo + "/manifests/" + tagged, H: map[string]string{"Accept": AcceptAll}}, true, false})
	}
	if anyMan != "" {
		p = append(p, SwitchProbe{"manifest-head-digest", Req{Method: "HEAD", URL: "/v2/" + repo + "/manifests/" + anyMan, H: map[string]string{"Accept": AcceptAll}}, true, false})
		p = append(p, SwitchProbe{"referrers-get", Req{Method: "GET", URL: "/v2/" + repo + "/referrers/" + anyMan}, s.Referrers, false})
	}
	if plainBlob != "" {
		p = append(p, SwitchProbe{"blob-get", Req{Method: "GET", URL: "/v2/" + repo + "/blobs/" + plainBlob}, true, false})
	}
	// deletes last: they change the state when permitted
	if tagged != "" {
		p = append(p, SwitchProbe{"manifest-delete-tag", Req{Method: "DELETE", URL: "/v2/" + repo + "/manifests/" + tagged}, canDel, true})
	}
	if plainBlob != "" {
		p = append(p, SwitchProbe{"blob-delete", Req{Method: "DELETE", URL: "/v2/" + repo + "/blobs/" + plainBlob}, canBlobDel, true})
	}
	_ = rng
	return p
}

// RefusedByConfig reports whether an answer is a refusal of the kind a disabled switch produces (405 method not
// allowed, 403 denied, 404 for a disabled API).
func RefusedByConfig(rs Resp) bool {
	if rs.Status == 405 || rs.Status == 403 {
		return true
	}
	if codes, ok := ErrCodes(rs.Body); ok {
		for _, c := range codes {
			if c == "DENIED" || c == "UNSUPPORTED" {
				return true
			}
		}
	}
	return false
}

// ShortReq renders a request for messages.
func ShortReq(rq Req) string {
	u := rq.URL
	if len(u) > 90 {
		u = u[:90] + "..."
	}
	return rq.Method + " " + strings.ReplaceAll(u, "\n", " ")
}
