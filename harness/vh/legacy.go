package vh

import (
	"encoding/json"
	"fmt"
	"math/rand"
	"os"
	"path/filepath"
	"sort"
	"strings"
)

// LMan is a manifest of a generated legacy layout.
type LMan struct {
	D, Subject, AT string
	Raw            []byte
	Ann            map[string]string
	Index          bool // an OCI index (as artifact: no config to fall back to for the artifactType)
}

// Legacy describes a generated layout whose referrers are maintained with the fallback tag scheme.
type Legacy struct {
	Expected  map[string][]string // subject -> referrers that some fallback index lists, grouped by the subject each names
	All       []LMan
	OtherTags map[string]string
	Kinds     []string
	Subjects  []string
	// Fallback: fallback tag -> its subject and the existing manifests it lists that name that subject
	Fallback map[string]LFallback
}

type LFallback struct {
	Subject string
	Lists   []string
}

// BuildLegacy writes a legacy layout into root/leg.
func BuildLegacy(r *rand.Rand, root string, tag string) Legacy {
	p := filepath.Join(root, "leg")
	for _, a := range []string{"sha256", "sha512"} {
		_ = os.MkdirAll(filepath.Join(p, "blobs", a), 0o755)
	}
	wr := func(b []byte, alg string) string {
		d := DigestOf(alg, b)
		_ = os.WriteFile(filepath.Join(p, "blobs", alg, d[len(alg)+1:]), b, 0o644)
		return d
	}
	_ = os.WriteFile(filepath.Join(p, "oci-layout"), []byte(`{"imageLayoutVersion":"1.0.0"}`), 0o644)
	cfg := []byte(`{}`)
	cd := wr(cfg, "sha256")
	img := func(seed, subj, at, alg string) LMan {
		ann := map[string]string{"seed": seed, "u": tag}
		m := map[string]any{"schemaVersion": 2, "mediaType": MTImage,
			"config": map[string]any{"mediaType": MTConfig, "digest": cd, "size": len(cfg)},
			"layers": []any{}, "annotations": ann}
		if subj != "" {
			m["subject"] = map[string]any{"mediaType": MTImage, "digest": subj, "size": 1}
		}
		if at != "" {
			m["artifactType"] = at
		}
		raw, _ := json.Marshal(m)
		return LMan{D: wr(raw, alg), Raw: raw, Subject: subj, AT: at, Ann: ann}
	}
	idxMan := func(seed, subj, at string, children []any) LMan {
		ann := map[string]string{"seed": seed, "u": tag}
		m := map[string]any{"schemaVersion": 2, "mediaType": MTIndex, "manifests": children, "annotations": ann}
		if subj != "" {
			m["subject"] = map[string]any{"mediaType": MTImage, "digest": subj, "size": 1}
		}
		if at != "" {
			m["artifactType"] = at
		}
		raw, _ := json.Marshal(m)
		return LMan{D: wr(raw, "sha256"), Raw: raw, Subject: subj, AT: at, Ann: ann, Index: true}
	}
	L := Legacy{Expected: map[string][]string{}, OtherTags: map[string]string{}, Fallback: map[string]LFallback{}}
	entries := []any{}
	tagEntry := func(mt, d string, size int, tg string) any {
		return map[string]any{"mediaType": mt, "digest": d, "size": size, "annotations": map[string]string{AnnotRefName: tg}}
	}
	for i, n := 0, r.Intn(4); i < n; i++ {
		alg := "sha256"
		if r.Intn(4) == 0 {
			alg = "sha512"
		}
		s := img(fmt.Sprintf("subj%d", i), "", "", alg)
		L.All = append(L.All, s)
		L.Subjects = append(L.Subjects, s.D)
		tg := fmt.Sprintf("v%d", i)
		L.OtherTags[tg] = s.D
		entries = append(entries, tagEntry(MTImage, s.D, len(s.Raw), tg))
	}
	if r.Intn(3) == 0 {
		// a subject that does not exist in the layout at all (dangling fallback tag)
		L.Subjects = append(L.Subjects, DigestOf("sha256", []byte("nosuchsubject"+tag)))
	}
	for si, sd := range L.Subjects {
		nref := r.Intn(5)
		kind := []string{"accurate", "accurate", "stale-size", "stale-artifacttype", "stale-annotations", "missing-manifest", "mixed-subject", "extra-nonreferrer", "duplicate-entry", "index-referrer", "index-referrer-wrong-artifacttype"}[r.Intn(11)]
		if nref == 0 {
			kind = "accurate"
		}
		L.Kinds = append(L.Kinds, kind)
		descs := []any{}
		accDescs := []any{} // the accurate descriptors of this subject's own referrers
		var own []string
		for j := 0; j < nref; j++ {
			subjFor := sd
			if kind == "mixed-subject" && j == 0 && len(L.Subjects) > 1 {
				subjFor = L.Subjects[(si+1)%len(L.Subjects)]
			}
			at := fmt.Sprintf("application/x.t%d", j%2)
			if j == 3 {
				at = "" // falls back to the config media type
			}
			a := img(fmt.Sprintf("art%d-%d", si, j), subjFor, at, "sha256")
			eff := at
			if eff == "" {
				eff = MTConfig
			}
			dsc := map[string]any{"mediaType": MTImage, "digest": a.D, "size": len(a.Raw), "artifactType": eff, "annotations": a.Ann}
			if j == 0 && strings.HasPrefix(kind, "index-referrer") {
				// the referrer is an index that names no artifactType: there is no config to fall back to, it is
				// listed without one - whatever the fallback descriptor says
				a = idxMan(fmt.Sprintf("iart%d-%d", si, j), subjFor, "", []any{})
				eff = ""
				dsc = map[string]any{"mediaType": MTIndex, "digest": a.D, "size": len(a.Raw), "annotations": a.Ann}
				if kind == "index-referrer-wrong-artifacttype" {
					dsc["artifactType"] = "application/wrong-for-an-index"
				}
			}
			L.All = append(L.All, a)
			L.Expected[subjFor] = append(L.Expected[subjFor], a.D)
			if subjFor == sd {
				own = append(own, a.D)
				acc := map[string]any{"mediaType": dsc["mediaType"], "digest": a.D, "size": len(a.Raw), "annotations": a.Ann}
				if eff != "" {
					acc["artifactType"] = eff
				}
				accDescs = append(accDescs, acc)
			}
			if j == 0 {
				switch kind {
				case "stale-size":
					dsc["size"] = 1
				case "stale-artifacttype":
					dsc["artifactType"] = "application/wrong"
				case "stale-annotations":
					dsc["annotations"] = map[string]string{"seed": "other"}
					if len(a.D)%2 == 0 || a.D[len(a.D)-1] < '8' {
						// same keys, one value differs (the comparison of the values decides, not the count)
						dsc["annotations"] = map[string]string{"seed": "other", "u": tag}
					}
				}
			}
			descs = append(descs, dsc)
		}
		if kind == "duplicate-entry" && len(descs) > 0 {
			descs = append(descs, descs[0]) // one referrer listed twice: it is still one referrer
		}
		if kind == "missing-manifest" {
			descs = append(descs, map[string]any{"mediaType": MTImage, "digest": DigestOf("sha256", []byte(fmt.Sprintf("gone%d%s", si, tag))), "size": 10})
		}
		if kind == "extra-nonreferrer" {
			n := img(fmt.Sprintf("plain%d", si), "", "", "sha256")
			L.All = append(L.All, n)
			descs = append(descs, map[string]any{"mediaType": MTImage, "digest": n.D, "size": len(n.Raw)})
		}
		if nref == 0 && r.Intn(2) == 0 {
			continue // no fallback tag at all for this subject
		}
		fb, _ := json.Marshal(map[string]any{"schemaVersion": 2, "mediaType": MTIndex, "manifests": descs})
		fbd := wr(fb, "sha256")
		alg, hex, _ := strings.Cut(sd, ":")
		if len(hex) > 64 {
			hex = hex[:64]
		}
		entries = append(entries, tagEntry(MTIndex, fbd, len(fb), alg+"-"+hex))
		L.Fallback[alg+"-"+hex] = LFallback{Subject: sd, Lists: own}
		if strings.ContainsAny(fbd[len(fbd)-1:], "0123") {
			// index.json lists the fallback tag's entry twice (a tool that appends without looking): still one tag, one
			// index of referrers.  Decided by the digest, not by the generator, so the other choices keep their sequence.
			entries = append(entries, tagEntry(MTIndex, fbd, len(fb), alg+"-"+hex))
			L.Kinds[len(L.Kinds)-1] += "+entry-twice"
		}
		if r.Intn(4) == 0 {
			// an ordinary tag on the very same index: it is one of "every other tag" and stays
			ot := fmt.Sprintf("artifacts-%d", si)
			L.OtherTags[ot] = fbd
			entries = append(entries, tagEntry(MTIndex, fbd, len(fb), ot))
			L.Kinds[len(L.Kinds)-1] += "+also-tagged"
		}
		if nref >= 2 && kind != "accurate" && len(accDescs) >= 2 && r.Intn(3) == 0 {
			// ... or a converted response that lists the same referrers as the (unusable as it is) fallback index, in
			// another order: the sources overlap completely, the result lists each referrer once
			var rev []any
			for k := len(accDescs) - 1; k >= 0; k-- {
				rev = append(rev, accDescs[k])
			}
			old, _ := json.Marshal(map[string]any{"schemaVersion": 2, "mediaType": MTIndex, "manifests": rev})
			od := wr(old, "sha256")
			entries = append(entries, map[string]any{"mediaType": MTIndex, "digest": od, "size": len(old), "annotations": map[string]string{"org.olareg.referrer.subject": sd}})
			L.Kinds[len(L.Kinds)-1] += "+overlapping-response"
		}
		if nref >= 2 && kind == "accurate" && r.Intn(3) == 0 {
			// a converted response for the same subject already sits in the (unmarked) index.json, written when only
			// the first referrer existed: the conversion has to merge, the result is still all of them
			old, _ := json.Marshal(map[string]any{"schemaVersion": 2, "mediaType": MTIndex, "manifests": descs[:1]})
			od := wr(old, "sha256")
			entries = append(entries, map[string]any{"mediaType": MTIndex, "digest": od, "size": len(old), "annotations": map[string]string{"org.olareg.referrer.subject": sd}})
			L.Kinds[len(L.Kinds)-1] += "+coexisting-response"
		}
	}
	u := img("unrelated", "", "", "sha256")
	L.All = append(L.All, u)
	L.OtherTags["latest"] = u.D
	entries = append(entries, tagEntry(MTImage, u.D, len(u.Raw), "latest"))
	// tags that merely look like fallback tags: right shape but pointing at an image, and a near miss
	lk := img("lookalike", "", "", "sha256")
	L.All = append(L.All, lk)
	look := "sha256-" + strings.Repeat("0", 63)
	L.OtherTags[look] = lk.D
	entries = append(entries, tagEntry(MTImage, lk.D, len(lk.Raw), look))
	if r.Intn(3) == 0 {
		// ... and right shape, pointing at an index - but an ordinary multi-platform one: none of its manifests names
		// a subject, so it is no "index of referrers" and its tag is one of "every other tag"
		p1, p2 := img("platform-a", "", "", "sha256"), img("platform-b", "", "", "sha256")
		L.All = append(L.All, p1, p2)
		mp := idxMan("multi-platform", "", "", []any{
			map[string]any{"mediaType": MTImage, "digest": p1.D, "size": len(p1.Raw), "platform": map[string]string{"os": "linux", "architecture": "amd64"}},
			map[string]any{"mediaType": MTImage, "digest": p2.D, "size": len(p2.Raw), "platform": map[string]string{"os": "linux", "architecture": "arm64"}}})
		L.All = append(L.All, mp)
		tg := "sha256-" + DigestOf("sha256", []byte("release"+tag))[7:]
		L.OtherTags[tg] = mp.D
		entries = append(entries, tagEntry(MTIndex, mp.D, len(mp.Raw), tg))
		L.Kinds = append(L.Kinds, "ordinary-index-under-digest-shaped-tag")
	}
	r.Shuffle(len(entries), func(i, j int) { entries[i], entries[j] = entries[j], entries[i] })
	ib, _ := json.Marshal(map[string]any{"schemaVersion": 2, "manifests": entries})
	_ = os.WriteFile(filepath.Join(p, "index.json"), ib, 0o644)
	for s := range L.Expected {
		sort.Strings(L.Expected[s])
	}
	return L
}
