package vh

import (
	"encoding/json"
	"fmt"
	"os"
	"path/filepath"
	"strings"
)

// LayoutIndex is index.json as far as the validator needs it.
type LayoutIndex struct {
	SchemaVersion int    `json:"schemaVersion"`
	MediaType     string `json:"mediaType"`
	Manifests     []struct {
		MediaType   string            `json:"mediaType"`
		Digest      string            `json:"digest"`
		Size        int64             `json:"size"`
		Annotations map[string]string `json:"annotations"`
	} `json:"manifests"`
	Annotations map[string]string `json:"annotations"`
}

const AnnotRefName = "org.opencontainers.image.ref.name"

// ValidateLayout checks that a repository directory that holds content is a valid OCI image layout:
// oci-layout with the supported version, a parseable index.json with unique tags whose entries each have a blob
// of the recorded size and digest, blobs stored as blobs/<alg>/<hex> whose content hashes to the name, and
// nothing else in the directory besides _uploads and nested repositories.  Returns the problems found.
func ValidateLayout(dir string) []string {
	probs := []string{}
	ents, err := os.ReadDir(dir)
	if err != nil {
		return nil // absent: nothing to validate
	}
	names := map[string]bool{}
	for _, e := range ents {
		names[e.Name()] = true
	}
	if !names["blobs"] && !names["index.json"] && !names["oci-layout"] {
		return nil // holds no content of its own (may hold nested repositories)
	}
	lb, err := os.ReadFile(filepath.Join(dir, "oci-layout"))
	var lay struct {
		V string `json:"imageLayoutVersion"`
	}
	if err != nil || json.Unmarshal(lb, &lay) != nil || lay.V != "1.0.0" {
		probs = append(probs, "oci-layout missing or not version 1.0.0")
	}
	ib, err := os.ReadFile(filepath.Join(dir, "index.json"))
	var idx LayoutIndex
	if err != nil || json.Unmarshal(ib, &idx) != nil {
		probs = append(probs, "index.json missing or unparsable")
		return probs
	}
	// the image-spec requires "manifests" to be an array (an index without entries is `[]`, not `null` or absent)
	var rawIdx map[string]json.RawMessage
	if json.Unmarshal(ib, &rawIdx) == nil {
		if mr, ok := rawIdx["manifests"]; !ok || len(mr) == 0 || mr[0] != '[' {
			probs = append(probs, "index.json: manifests is not an array")
		}
	}
	seen := map[string]bool{}
	for _, m := range idx.Manifests {
		if tg := m.Annotations[AnnotRefName]; tg != "" {
			if seen[tg] {
				probs = append(probs, "duplicate tag "+tg+" in index.json")
			}
			seen[tg] = true
		}
		alg, hex, ok := strings.Cut(m.Digest, ":")
		if !ok {
			probs = append(probs, "malformed digest in index.json")
			continue
		}
		b, err := os.ReadFile(filepath.Join(dir, "blobs", alg, hex))
		if err != nil {
			probs = append(probs, "index entry without blob")
			continue
		}
		if int64(len(b)) != m.Size {
			probs = append(probs, fmt.Sprintf("index entry size %d, blob has %d bytes", m.Size, len(b)))
		}
	}
	algs, _ := os.ReadDir(filepath.Join(dir, "blobs"))
	for _, a := range algs {
		if !a.IsDir() || (a.Name() != "sha256" && a.Name() != "sha384" && a.Name() != "sha512") {
			probs = append(probs, "stray entry blobs/"+a.Name())
			continue
		}
		files, _ := os.ReadDir(filepath.Join(dir, "blobs", a.Name()))
		for _, f := range files {
			b, err := os.ReadFile(filepath.Join(dir, "blobs", a.Name(), f.Name()))
			if err != nil || f.IsDir() {
				probs = append(probs, "unreadable entry blobs/"+a.Name()+"/"+f.Name())
				continue
			}
			if !HashOK(a.Name()+":"+f.Name(), b) {
				probs = append(probs, "blob content does not hash to its name: blobs/"+a.Name()+"/"+f.Name()[:8])
			}
		}
	}
	for n := range names {
		if strings.HasPrefix(n, "index.json.") {
			probs = append(probs, "leftover temporary index file")
		}
	}
	return probs
}

// LayoutTags returns tag -> digest of index.json (nil if unreadable).
func LayoutTags(dir string) map[string]string {
	ib, err := os.ReadFile(filepath.Join(dir, "index.json"))
	var idx LayoutIndex
	if err != nil || json.Unmarshal(ib, &idx) != nil {
		return nil
	}
	out := map[string]string{}
	for _, m := range idx.Manifests {
		if tg := m.Annotations[AnnotRefName]; tg != "" {
			out[tg] = m.Digest
		}
	}
	return out
}
