// Package vh is the shared part of the runtime-monitoring harness: run context (seed, tier,
// counters, evidence, violations), the in-process client with the global response monitors,
// seeded generators, the reference model and the layout validator.
//
// It is compiled inside the olareg module through a go build overlay (see /verif/check).
package vh

import (
	"encoding/json"
	"fmt"
	"math/rand"
	"os"
	"path/filepath"
	"sort"
	"strconv"
	"sync"
	"time"
)

// Run is the context of one child process of a check.
type Run struct {
	ID    string
	Tier  string
	Seed  int64
	Work  string
	Focus string
	Scale float64

	mu         sync.Mutex
	out        *os.File
	counters   map[string]int64
	distinct   map[string]map[string]struct{}
	samples    []any
	nviol      map[string]int
	start      time.Time
	assume     []string
	tooLittle  string
	evalKey    string
	distinctOf string
}

// Start reads the environment prepared by the driver.
func Start() *Run {
	r := &Run{
		ID:       os.Getenv("VERIF_ID"),
		Tier:     os.Getenv("VERIF_TIER"),
		Work:     os.Getenv("VERIF_WORK"),
		Focus:    os.Getenv("VERIF_FOCUS"),
		Scale:    1,
		counters: map[string]int64{},
		distinct: map[string]map[string]struct{}{},
		nviol:    map[string]int{},
		start:    time.Now(),
	}
	if r.Tier == "" {
		r.Tier = "quick"
	}
	r.Seed, _ = strconv.ParseInt(os.Getenv("VERIF_SEED"), 10, 64)
	if s := os.Getenv("VERIF_SCALE"); s != "" {
		if f, err := strconv.ParseFloat(s, 64); err == nil && f > 0 {
			r.Scale = f
		}
	}
	if r.Work == "" {
		r.Work, _ = os.MkdirTemp("", "verif-work")
	}
	outp := os.Getenv("VERIF_OUT")
	if outp == "" {
		outp = filepath.Join(r.Work, "out.jsonl")
	}
	f, err := os.OpenFile(outp, os.O_CREATE|os.O_WRONLY|os.O_APPEND, 0o644)
	if err != nil {
		fmt.Fprintln(os.Stderr, "cannot open result file:", err)
		os.Exit(2)
	}
	r.out = f
	return r
}

// Variant returns the build variant the driver built this binary with (plain, race, vfs, vsync, vsyncrace).
func (r *Run) Variant() string { return os.Getenv("VERIF_VARIANT") }

// N returns the case count for the tier, scaled by VERIF_SCALE (at least 1).
func (r *Run) N(quick, thorough int) int {
	n := quick
	if r.Tier == "thorough" {
		n = thorough
	}
	n = int(float64(n) * r.Scale)
	if n < 1 {
		n = 1
	}
	return n
}

// Rand returns the PRNG of batch i: a batch is replayable from (seed, i).
func (r *Run) Rand(i int) *rand.Rand {
	return rand.New(rand.NewSource(r.Seed*1_000_003 + int64(i)*7919 + 17))
}

// TempDir returns a fresh directory under the run's work directory.
func (r *Run) TempDir(prefix string) string {
	d, err := os.MkdirTemp(r.Work, prefix)
	if err != nil {
		panic(err)
	}
	return d
}

func (r *Run) Count(name string, n int) {
	r.mu.Lock()
	r.counters[name] += int64(n)
	r.mu.Unlock()
}

func (r *Run) Counter(name string) int64 {
	r.mu.Lock()
	defer r.mu.Unlock()
	return r.counters[name]
}

// Distinct records key in the set named class; the size of the set is reported in the evidence.
func (r *Run) Distinct(class, key string) {
	r.mu.Lock()
	m := r.distinct[class]
	if m == nil {
		m = map[string]struct{}{}
		r.distinct[class] = m
	}
	if len(m) < 2_000_000 {
		m[key] = struct{}{}
	}
	r.mu.Unlock()
}

func (r *Run) DistinctN(class string) int {
	r.mu.Lock()
	defer r.mu.Unlock()
	return len(r.distinct[class])
}

// Sample keeps up to 6 written-out cases for the evidence file.
func (r *Run) Sample(v any) {
	r.mu.Lock()
	if len(r.samples) < 6 {
		r.samples = append(r.samples, v)
	}
	r.mu.Unlock()
}

func (r *Run) Assume(s string) {
	r.mu.Lock()
	r.assume = append(r.assume, s)
	r.mu.Unlock()
}

func (r *Run) emit(v any) {
	b, err := json.Marshal(v)
	if err != nil {
		b, _ = json.Marshal(map[string]any{"t": "error", "err": err.Error()})
	}
	r.mu.Lock()
	_, _ = r.out.Write(append(b, '\n'))
	r.mu.Unlock()
}

// Violation records a violation of this run's property.  sig is a short class string that the
// driver matches against known_findings.json; at most 3 witnesses per sig are written out.
func (r *Run) Violation(sig, detail string, witness any) {
	r.mu.Lock()
	r.nviol[sig]++
	n := r.nviol[sig]
	r.mu.Unlock()
	if n > 3 {
		return
	}
	r.emit(map[string]any{"t": "violation", "sig": sig, "detail": detail, "witness": witness, "seed": r.Seed})
}

func (r *Run) Violations() int {
	r.mu.Lock()
	defer r.mu.Unlock()
	n := 0
	for _, c := range r.nviol {
		n += c
	}
	return n
}

// Inconclusive records a sub-result that is neither "held" nor "violated".
func (r *Run) Inconclusive(what string) {
	r.Count("inconclusive", 1)
	r.emit(map[string]any{"t": "inconclusive", "what": what})
}

// Require marks the run as having observed too little (harness failure, never a violation).
func (r *Run) Require(name string, min int64) {
	if r.Scale < 1 {
		min = int64(float64(min) * r.Scale) // reduced-scale reruns (e.g. under -race) need proportionally less
	}
	r.mu.Lock()
	defer r.mu.Unlock()
	if r.counters[name] < min && r.tooLittle == "" {
		r.tooLittle = fmt.Sprintf("%s=%d < %d", name, r.counters[name], min)
	}
}

func (r *Run) RequireDistinct(class string, min int) {
	if r.Scale < 1 {
		min = int(float64(min) * r.Scale)
	}
	r.mu.Lock()
	defer r.mu.Unlock()
	if len(r.distinct[class]) < min && r.tooLittle == "" {
		r.tooLittle = fmt.Sprintf("distinct %s=%d < %d", class, len(r.distinct[class]), min)
	}
}

// Finish writes the evidence record.  evaluations is taken from counter evalCounter,
// distinct_nontrivial from the size of distinct set distinctClass.
func (r *Run) Finish(rule, evalCounter, distinctClass string) {
	r.mu.Lock()
	dc := map[string]int{}
	for k, m := range r.distinct {
		dc[k] = len(m)
	}
	keys := make([]string, 0, len(r.counters))
	for k := range r.counters {
		keys = append(keys, k)
	}
	sort.Strings(keys)
	nv := 0
	for _, c := range r.nviol {
		nv += c
	}
	rec := map[string]any{
		"t": "evidence", "evaluations": r.counters[evalCounter], "distinct_nontrivial": dc[distinctClass],
		"rule": rule, "samples": r.samples, "counters": r.counters, "distinct": dc,
		"assumptions": r.assume, "wall_s": time.Since(r.start).Seconds(), "violations": nv,
		"too_little": r.tooLittle,
	}
	r.mu.Unlock()
	r.emit(rec)
	_ = r.out.Close()
}

// Parallel runs fn(i) for i in [0,n) on w workers; fn must be goroutine-safe.
func Parallel(n, w int, fn func(i int)) {
	if w < 1 {
		w = 1
	}
	var wg sync.WaitGroup
	ch := make(chan int)
	for k := 0; k < w; k++ {
		wg.Add(1)
		go func() {
			defer wg.Done()
			for i := range ch {
				fn(i)
			}
		}()
	}
	only := os.Getenv("VERIF_ONLY") // debugging aid: run one batch index; never set by the driver
	for i := 0; i < n; i++ {
		if only != "" && only != fmt.Sprint(i) {
			continue
		}
		ch <- i
	}
	close(ch)
	wg.Wait()
}
