// C01: served content always hashes to the digest it is served under.
//
// Product generator over upload protocol {monolithic POST, POST+PUT, chunked PATCH with Content-Range,
// streamed PATCH, cross-repository mount} x algorithm at session creation {default, sha256, sha384, sha512}
// x algorithm of the final digest {sha256, sha384, sha512} x declared digest {right, wrong hex, right hex of
// another algorithm, digest of a prefix, digest of another blob that exists}; sessions of several uploads are
// interleaved step by step; manifests are pushed by tag, by digest and by tag with ?digest= with right and
// wrong digests.  Monitors: G1 on every read of every digest ever declared or computed, in every repository;
// status of completions (right => 201, wrong => 4xx); on the directory store a scan of blobs/<alg>/<hex>.
package main

import (
	"encoding/base64"
	"encoding/json"
	"fmt"
	"io"
	"math/rand"
	"net/http"
	"net/http/httptest"
	"net/url"
	"os"
	"path/filepath"
	"runtime"
	"sort"
	"strings"
	"sync"

	"github.com/olareg/olareg/internal/verif/vh"
	"github.com/olareg/olareg/internal/verif/vsync"
)

var algs = []string{"sha256", "sha384", "sha512"}

type upload struct {
	repo      string
	content   []byte
	proto     string
	createAlg string
	finAlg    string
	kind      string
	decl      string
	good      string
	loc       string
	off       int
	chunks    []int
	done      bool
	cell      string
	retried   bool
}

type env struct {
	r     *vh.Run
	idx   int
	srv   http.Handler
	kind  vh.StoreKind
	root  string
	have  map[string]map[string][]byte // repo -> digest -> bytes acknowledged
	probe map[string]bool              // every digest ever declared or computed
	repos []string
	trace []string
	bad   bool
}

func (e *env) viol(sig, detail string) {
	e.bad = true
	tr := e.trace
	if len(tr) > 60 {
		tr = tr[len(tr)-60:]
	}
	e.r.Violation(sig, detail, map[string]any{"batch": e.idx, "store": e.kind.String(), "trace": tr})
}

func (e *env) do(rq vh.Req) vh.Resp {
	e.r.Count("requests", 1)
	return vh.Do(e.srv, rq)
}

// probeAll reads every digest of interest in every repository and applies G1 + the served-subset-of-acknowledged rule.
func (e *env) probeAll() {
	ds := make([]string, 0, len(e.probe))
	for d := range e.probe {
		ds = append(ds, d)
	}
	sort.Strings(ds)
	for _, rp := range e.repos {
		for _, d := range ds {
			for _, kind := range []string{"blobs", "manifests"} {
				rq := vh.Req{Method: "GET", URL: "/v2/" + rp + "/" + kind + "/" + d, H: map[string]string{"Accept": vh.AcceptAll}}
				rs := e.do(rq)
				e.r.Count("probes", 1)
				if rs.Status == 200 {
					if p := vh.G1(rq, rs); p != "" {
						e.viol("g1:"+kind, fmt.Sprintf("GET %s: %s", rq.URL, p))
						return
					}
					want, ok := e.have[rp][d]
					if kind == "blobs" {
						if !ok {
							e.viol("served-not-acknowledged", fmt.Sprintf("GET %s serves %d bytes although no upload of that digest was acknowledged in %s", rq.URL, len(rs.Body), rp))
							return
						}
						if string(want) != string(rs.Body) {
							e.viol("bytes-differ", fmt.Sprintf("GET %s serves bytes that differ from the acknowledged upload", rq.URL))
							return
						}
					}
				} else if rs.Status >= 500 {
					e.viol("read-5xx", fmt.Sprintf("GET %s answered %d", rq.URL, rs.Status))
					return
				} else if _, ok := e.have[rp][d]; ok && kind == "blobs" {
					e.viol("acknowledged-not-served", fmt.Sprintf("GET %s answered %d although the upload was acknowledged", rq.URL, rs.Status))
					return
				}
			}
		}
	}
}

func (e *env) newUpload(rng *rand.Rand, n int) *upload {
	u := &upload{repo: e.repos[rng.Intn(len(e.repos))]}
	size := []int{0, 1, 7, 300, 5000, 70000}[rng.Intn(6)]
	c := make([]byte, size)
	for i := range c {
		c[i] = byte('a' + rng.Intn(26))
	}
	u.content = append(c, []byte(fmt.Sprintf("#%d.%d", e.idx, n))...)
	if size == 0 && rng.Intn(2) == 0 {
		u.content = []byte{}
	}
	u.createAlg = []string{"", "sha256", "sha384", "sha512"}[rng.Intn(4)]
	u.finAlg = algs[rng.Intn(3)]
	u.good = vh.DigestOf(u.finAlg, u.content)
	u.kind = []string{"right", "right", "wrong-hex", "prefix", "other-alg-hex", "existing-other"}[rng.Intn(6)]
	u.decl = u.good
	switch u.kind {
	case "wrong-hex":
		u.decl = vh.DigestOf(u.finAlg, append([]byte("x"), u.content...))
	case "prefix":
		if len(u.content) < 2 {
			u.kind = "wrong-hex"
			u.decl = vh.DigestOf(u.finAlg, append([]byte("x"), u.content...))
		} else {
			u.decl = vh.DigestOf(u.finAlg, u.content[:len(u.content)/2])
		}
	case "other-alg-hex":
		// hex of the right content under another algorithm, labelled with finAlg: malformed length => must be refused
		o := algs[(indexOf(algs, u.finAlg)+1+rng.Intn(2))%3]
		_, hex, _ := strings.Cut(vh.DigestOf(o, u.content), ":")
		u.decl = u.finAlg + ":" + hex
	case "existing-other":
		// the digest of another blob that already exists in this repository
		var ds []string
		for d := range e.have[u.repo] {
			if vh.AlgOf(d) == u.finAlg {
				ds = append(ds, d)
			}
		}
		if len(ds) == 0 {
			u.kind = "wrong-hex"
			u.decl = vh.DigestOf(u.finAlg, append([]byte("x"), u.content...))
		} else {
			sort.Strings(ds)
			u.decl = ds[rng.Intn(len(ds))]
		}
	}
	if u.decl == u.good {
		u.kind = "right" // e.g. the existing other blob has the same (empty) content
	}
	u.proto = []string{"mono", "post-put", "chunked", "stream", "chunked-then-empty-put"}[rng.Intn(5)]
	// chunk plan
	rest := len(u.content)
	if u.proto == "chunked" || u.proto == "stream" || u.proto == "chunked-then-empty-put" {
		for k := rng.Intn(5); k > 0 && rest >= 0; k-- {
			sz := 0
			if rest > 0 {
				sz = []int{0, 1, rng.Intn(rest + 1), rest}[rng.Intn(4)]
			}
			u.chunks = append(u.chunks, sz)
			rest -= sz
		}
		if u.proto == "chunked-then-empty-put" {
			u.chunks = append(u.chunks, rest)
		}
	}
	u.cell = fmt.Sprintf("%s/create=%s/fin=%s/%s", u.proto, u.createAlg, u.finAlg, u.kind)
	e.probe[u.decl] = true
	e.probe[u.good] = true
	if len(u.content) > 1 {
		e.probe[vh.DigestOf(u.finAlg, u.content[:len(u.content)/2])] = true
	}
	return u
}

func indexOf(l []string, s string) int {
	for i, x := range l {
		if x == s {
			return i
		}
	}
	return 0
}

// advance performs the next request of an upload; returns true when the upload is finished.
func (e *env) advance(u *upload) bool {
	q := ""
	if u.createAlg != "" {
		q = "digest-algorithm=" + u.createAlg
	}
	finish := func(code int) bool {
		u.done = true
		e.r.Count("uploads", 1)
		e.r.Distinct("cells", u.cell)
		e.trace = append(e.trace, fmt.Sprintf("%s in %s size=%d -> %d", u.cell, u.repo, len(u.content), code))
		if _, declExists := e.have[u.repo][u.decl]; declExists && u.proto == "mono" {
			e.r.Count("wrong_bytes_for_a_stored_digest", 1) // (no excuse: the bytes received do not match, the answer is a refusal)
		}
		switch {
		case u.kind == "right":
			if code != 201 {
				e.viol("right-upload-refused", fmt.Sprintf("correct upload (%s) of %d bytes answered %d", u.cell, len(u.content), code))
			} else {
				e.have[u.repo][u.good] = u.content
				e.r.Count("uploads_acknowledged", 1)
			}
		case code < 400 || code >= 500:
			e.viol("wrong-digest-not-4xx", fmt.Sprintf("upload whose declared digest (%s) does not match the bytes answered %d (%s)", u.kind, code, u.cell))
		default:
			e.r.Count("wrong_digest_refused", 1)
		}
		return true
	}
	if u.proto == "mono" {
		url := "/v2/" + u.repo + "/blobs/uploads/?digest=" + u.decl
		if q != "" {
			url += "&" + q
		}
		// every other monolithic upload is streamed (no Content-Length): verification does not depend on the announced length
		rs := e.do(vh.Req{Method: "POST", URL: url, Body: u.content, UnknownLen: len(u.content)%2 == 1})
		return finish(rs.Status)
	}
	if u.loc == "" {
		url := "/v2/" + u.repo + "/blobs/uploads/"
		if q != "" {
			url += "?" + q
		}
		rs := e.do(vh.Req{Method: "POST", URL: url})
		u.loc = rs.H.Get("Location")
		if rs.Status != 202 || u.loc == "" {
			e.viol("session-create", fmt.Sprintf("POST %s answered %d", url, rs.Status))
			return true
		}
		return false
	}
	if len(u.chunks) > 0 {
		sz := u.chunks[0]
		u.chunks = u.chunks[1:]
		hdr := map[string]string{}
		if u.proto != "stream" {
			hdr["Content-Range"] = fmt.Sprintf("%d-%d", u.off, u.off+sz-1)
		}
		rs := e.do(vh.Req{Method: "PATCH", URL: u.loc, H: hdr, Body: u.content[u.off : u.off+sz]})
		if rs.Status != 202 {
			e.viol("valid-patch-refused", fmt.Sprintf("in-order PATCH of %d bytes at offset %d answered %d (%s)", sz, u.off, rs.Status, u.cell))
			return true
		}
		u.loc = rs.H.Get("Location")
		u.off += sz
		return false
	}
	rs := e.do(vh.Req{Method: "PUT", URL: u.loc + "&digest=" + u.decl, Body: u.content[u.off:]})
	if rs.Status >= 400 && rs.Status < 500 && u.kind != "right" && !u.retried {
		// a refused completion: whatever the registry does with the session afterwards (C08 says it is gone), bytes must
		// never become retrievable under a digest they do not hash to.  Retry on the same session: more data, then a
		// digest (under each algorithm) of the content as it was at the refused attempt.
		u.retried = true
		extra := []byte(fmt.Sprintf("+retry%d", len(e.trace)))
		p := e.do(vh.Req{Method: "PATCH", URL: u.loc, Body: extra})
		loc := u.loc
		if p.Status == 202 && p.H.Get("Location") != "" {
			loc = p.H.Get("Location")
		}
		for _, alg := range algs {
			d := vh.DigestOf(alg, u.content)
			e.probe[d] = true
			e.probe[vh.DigestOf(alg, append(append([]byte{}, u.content...), extra...))] = true
			f := e.do(vh.Req{Method: "PUT", URL: loc + "&digest=" + d})
			e.r.Count("retries_after_refusal", 1)
			if f.Status == 201 {
				// acknowledged: then the session really held exactly u.content
				if p.Status == 202 {
					e.viol("retry-accepted-wrong-digest", fmt.Sprintf("after a refused completion the session accepted %d more bytes and was then completed (201) under %s, the digest of the content without them", len(extra), vh.Short(d)))
					return true
				}
				e.have[u.repo][d] = u.content
				break
			}
		}
	}
	return finish(rs.Status)
}

func (e *env) manifests(rng *rand.Rand) {
	// a config blob, then manifests pushed by tag / digest / tag+?digest= with right and wrong digests
	repo := e.repos[rng.Intn(len(e.repos))]
	cfg := &vh.Blob{Name: "cfg", B: []byte(fmt.Sprintf(`{"cfg":%d}`, e.idx))}
	cfg.D = vh.DigestOf("sha256", cfg.B)
	if rs := e.do(vh.Req{Method: "POST", URL: "/v2/" + repo + "/blobs/uploads/?digest=" + cfg.D, Body: cfg.B}); rs.Status != 201 {
		e.viol("right-upload-refused", fmt.Sprintf("config upload answered %d", rs.Status))
		return
	}
	e.have[repo][cfg.D] = cfg.B
	e.probe[cfg.D] = true
	var prev *vh.Man // a manifest acknowledged earlier in this repository
	for n := 0; n < 10 && !e.bad; n++ {
		alg := algs[rng.Intn(3)]
		m := vh.MkImage(fmt.Sprintf("m%d", n), alg, vh.MTImage, cfg, vh.MTConfig, nil, "", "", map[string]string{"n": fmt.Sprintf("%d.%d", e.idx, n)})
		other := vh.MkImage("o", alg, vh.MTImage, cfg, vh.MTConfig, nil, "", "", map[string]string{"n": fmt.Sprintf("other%d.%d", e.idx, n)})
		kind := []string{"right", "right", "wrong-hex", "prefix", "wrong-alg-label", "existing-manifest", "existing-blob"}[rng.Intn(7)]
		if kind == "existing-manifest" && prev == nil {
			kind = "existing-blob"
		}
		decl := m.D
		switch kind {
		case "wrong-hex":
			decl = other.D
		case "existing-manifest":
			// the digest of a manifest that is already stored in the repository, under either algorithm
			decl = []string{prev.D, vh.DigestOf("sha512", prev.Raw), vh.DigestOf("sha256", prev.Raw)}[rng.Intn(3)]
			if e.have[repo][decl] == nil {
				decl = prev.D
			}
		case "existing-blob":
			decl = cfg.D
		case "prefix":
			decl = vh.DigestOf(alg, m.Raw[:len(m.Raw)/2])
		case "wrong-alg-label":
			o := algs[(indexOf(algs, alg)+1)%3]
			_, hex, _ := strings.Cut(m.D, ":")
			decl = o + ":" + hex
		}
		how := []string{"digest", "tag+param", "tag", "digest+param", "param+digest"}[rng.Intn(5)]
		url := "/v2/" + repo + "/manifests/"
		switch how {
		case "param+digest":
			// the mirror image: the parameter is right, the digest in the path is the varied one
			url += decl + "?digest=" + m.D
		case "digest+param":
			// two declarations: the digest in the path is right, the one in the parameter is the varied one (right,
			// or not matching the bytes) - possibly of another algorithm
			url += m.D + "?digest=" + decl
			if kind == "right" && rng.Intn(2) == 0 {
				decl2 := vh.DigestOf(algs[rng.Intn(3)], m.Raw)
				url = "/v2/" + repo + "/manifests/" + m.D + "?digest=" + decl2
			}
			e.probe[decl] = true
			decl = m.D
		case "digest":
			url += decl
		case "tag+param":
			url += fmt.Sprintf("tg%d?digest=%s", n, decl)
		case "tag":
			url += fmt.Sprintf("tg%d", n)
			kind, decl = "right", vh.DigestOf("sha256", m.Raw)
		}
		e.probe[decl] = true
		e.probe[m.D] = true
		rs := e.do(vh.Req{Method: "PUT", URL: url, H: map[string]string{"Content-Type": vh.MTImage}, Body: m.Raw})
		e.r.Count("manifest_pushes", 1)
		e.r.Distinct("cells", "manifest/"+how+"/"+alg+"/"+kind)
		e.trace = append(e.trace, fmt.Sprintf("manifest %s %s %s -> %d", how, alg, kind, rs.Status))
		if kind == "right" {
			if rs.Status != 201 {
				e.viol("right-manifest-refused", fmt.Sprintf("manifest push (%s, %s) with the correct digest answered %d", how, alg, rs.Status))
				return
			}
			if got := rs.H.Get("Docker-Content-Digest"); got != decl {
				e.viol("manifest-digest-header", fmt.Sprintf("manifest push acknowledged with Docker-Content-Digest %s, body hashes to %s", got, decl))
				return
			}
			e.have[repo][decl] = m.Raw
			prev = m
			if how == "tag" {
				prev = nil // (m.D may be of another algorithm than the one the push was stored under)
			}
			if how == "tag" || how == "tag+param" {
				// by tag: the answer must report a digest the bytes hash to
				rq := vh.Req{Method: "GET", URL: fmt.Sprintf("/v2/%s/manifests/tg%d", repo, n), H: map[string]string{"Accept": vh.AcceptAll}}
				g := e.do(rq)
				if g.Status != 200 {
					e.viol("acknowledged-not-served", fmt.Sprintf("GET %s answered %d", rq.URL, g.Status))
					return
				}
				if p := vh.G1(rq, g); p != "" {
					e.viol("g1:tag", fmt.Sprintf("GET %s: %s", rq.URL, p))
					return
				}
			}
		} else if rs.Status < 400 || rs.Status >= 500 {
			e.viol("wrong-digest-not-4xx", fmt.Sprintf("manifest push (%s) whose declared digest (%s) does not match the body answered %d", how, kind, rs.Status))
			return
		}
	}
}

// negotiation: a tag that points to an index, read with Accept lists that need negotiation; whatever is served must
// hash to the digest it is served under.
func (e *env) negotiation(rng *rand.Rand) {
	repo := e.repos[rng.Intn(len(e.repos))]
	cfg := &vh.Blob{Name: "ncfg", B: []byte(fmt.Sprintf(`{"ncfg":%d}`, e.idx))}
	cfg.D = vh.DigestOf("sha256", cfg.B)
	if rs := e.do(vh.Req{Method: "POST", URL: "/v2/" + repo + "/blobs/uploads/?digest=" + cfg.D, Body: cfg.B}); rs.Status != 201 {
		return
	}
	e.have[repo][cfg.D] = cfg.B
	var children []*vh.Man
	for n := 0; n < 2; n++ {
		mt, cmt := vh.MTImage, vh.MTConfig
		if n == 1 && rng.Intn(2) == 0 {
			mt = vh.MTDockerImage
		}
		m := vh.MkImage(fmt.Sprintf("c%d", n), algs[rng.Intn(3)], mt, cfg, cmt, nil, "", "", map[string]string{"neg": fmt.Sprintf("%d.%d", e.idx, n)})
		if rs := e.do(vh.Req{Method: "PUT", URL: "/v2/" + repo + "/manifests/" + m.D, H: map[string]string{"Content-Type": m.MT}, Body: m.Raw}); rs.Status != 201 {
			e.viol("right-manifest-refused", fmt.Sprintf("child manifest push answered %d", rs.Status))
			return
		}
		e.have[repo][m.D] = m.Raw
		e.probe[m.D] = true
		children = append(children, m)
	}
	idx := vh.MkIndex("nx", algs[rng.Intn(3)], vh.MTIndex, children, "", "", map[string]string{"neg": fmt.Sprint(e.idx)})
	if rng.Intn(2) == 0 {
		// descriptors may carry an embedded copy of the content ("data"); the registry does not validate it, so here
		// it holds other bytes of the same length - nothing of it may ever be served under the child's digest
		var doc map[string]any
		if json.Unmarshal(idx.Raw, &doc) == nil {
			if ms, ok := doc["manifests"].([]any); ok {
				for k, x := range ms {
					if dm, ok := x.(map[string]any); ok {
						fake := []byte(strings.Repeat("F", len(children[k].Raw)))
						dm["data"] = base64.StdEncoding.EncodeToString(fake)
					}
				}
				if raw, err := json.Marshal(doc); err == nil {
					alg := vh.AlgOf(idx.D)
					idx = &vh.Man{Name: "nx-data", Raw: raw, MT: idx.MT, D: vh.DigestOf(alg, raw), Refs: idx.Refs, Index: true}
					e.r.Count("indexes_with_embedded_data", 1)
				}
			}
		}
	}
	if rs := e.do(vh.Req{Method: "PUT", URL: vh.ManifestURL(repo, idx, "negot"), H: map[string]string{"Content-Type": idx.MT}, Body: idx.Raw}); rs.Status != 201 {
		e.viol("right-manifest-refused", fmt.Sprintf("index push answered %d", rs.Status))
		return
	}
	e.have[repo][idx.D] = idx.Raw
	e.probe[idx.D] = true
	for _, acc := range []string{vh.MTImage, vh.MTDockerImage, vh.MTImage + ", " + vh.MTDockerImage, vh.MTIndex, vh.AcceptAll, "application/json, " + vh.MTImage + ";q=0.5", vh.MTDockerList} {
		// by tag, and by the digest of the index: there the digest in the request names the content - whatever the
		// Accept list lacks, nothing but those bytes may come back with 200
		for _, mr := range [][2]string{{"GET", "negot"}, {"HEAD", "negot"}, {"GET", idx.D}, {"HEAD", idx.D}} {
			method := mr[0]
			rq := vh.Req{Method: method, URL: "/v2/" + repo + "/manifests/" + mr[1], H: map[string]string{"Accept": acc}}
			rs := e.do(rq)
			e.r.Count("negotiated_reads", 1)
			if mr[1] != "negot" {
				e.r.Count("negotiated_reads_by_digest", 1)
			}
			e.r.Distinct("cells", "negotiation/"+method+"/"+fmt.Sprint(rs.Status))
			if rs.Status >= 500 {
				e.viol("read-5xx", fmt.Sprintf("%s %s (Accept %s) answered %d", method, rq.URL, acc, rs.Status))
				return
			}
			if rs.Status != 200 {
				continue
			}
			if p := vh.G1(rq, rs); p != "" {
				e.viol("g1:negotiated", fmt.Sprintf("%s %s with Accept %q: %s", method, rq.URL, acc, p))
				return
			}
			d := rs.H.Get("Docker-Content-Digest")
			if want, ok := e.have[repo][d]; !ok {
				e.viol("served-not-acknowledged", fmt.Sprintf("%s %s with Accept %q reports digest %s which was never pushed", method, rq.URL, acc, vh.Short(d)))
				return
			} else if method == "GET" && string(want) != string(rs.Body) {
				e.viol("bytes-differ", fmt.Sprintf("GET %s with Accept %q serves bytes that differ from what was pushed under %s", rq.URL, acc, vh.Short(d)))
				return
			}
		}
	}
}

func (e *env) mounts(rng *rand.Rand) {
	for n := 0; n < 6 && !e.bad; n++ {
		src, dst := e.repos[rng.Intn(len(e.repos))], e.repos[rng.Intn(len(e.repos))]
		var ds []string
		for d := range e.have[e.repos[rng.Intn(len(e.repos))]] {
			ds = append(ds, d)
		}
		if len(ds) == 0 {
			continue
		}
		sort.Strings(ds)
		d := ds[rng.Intn(len(ds))]
		_, srcHas := e.have[src][d]
		_, dstHas := e.have[dst][d]
		rs := e.do(vh.Req{Method: "POST", URL: "/v2/" + dst + "/blobs/uploads/?mount=" + d + "&from=" + src})
		e.r.Count("mounts", 1)
		e.trace = append(e.trace, fmt.Sprintf("mount %s from %s to %s (src has %v) -> %d", vh.Short(d), src, dst, srcHas, rs.Status))
		if rs.Status == 201 && srcHas {
			e.have[dst][d] = e.have[src][d]
			e.r.Distinct("cells", "mount/hit")
		} else if rs.Status == 202 {
			e.r.Distinct("cells", "mount/miss-session")
			// fallback session carrying the expected digest: complete it with other bytes => must be refused
			loc := rs.H.Get("Location")
			wrong := []byte(fmt.Sprintf("not the mounted content %d.%d", e.idx, n))
			if n%2 == 1 {
				// ... or with other bytes under *their own* digest, computed with the other algorithm than the mount digest: the
				// registry may refuse (the session remembers the mount digest) or acknowledge it under the digest given - in
				// neither case may the mount digest serve these bytes; probeAll rehashes whatever both digests serve
				alg := "sha512"
				if vh.AlgOf(d) == "sha512" {
					alg = "sha256"
				}
				own := vh.DigestOf(alg, wrong)
				p := e.do(vh.Req{Method: "PUT", URL: loc + "&digest=" + url.QueryEscape(own), Body: wrong})
				e.r.Count("mount_fallback_other_algorithm", 1)
				e.trace = append(e.trace, fmt.Sprintf("  fallback session completed with other bytes under their %s digest -> %d", alg, p.Status))
				e.probe[own], e.probe[d] = true, true
				if p.Status == 201 {
					e.have[dst][own] = wrong
				} else if p.Status >= 500 {
					e.viol("completion-5xx", fmt.Sprintf("completing a mount fallback session with other bytes under their own %s digest answered %d", alg, p.Status))
				}
				continue
			}
			p := e.do(vh.Req{Method: "PUT", URL: loc + "&digest=" + d, Body: wrong})
			if p.Status < 400 || p.Status >= 500 {
				if !(p.Status == 201 && dstHas) {
					e.viol("wrong-digest-not-4xx", fmt.Sprintf("completing a mount fallback session with other bytes under the mount digest answered %d", p.Status))
				}
			}
		}
	}
}

func (e *env) scanFiles() {
	if e.kind != vh.Dir {
		return
	}
	_ = filepath.Walk(e.root, func(p string, fi os.FileInfo, err error) error {
		if err != nil || fi.IsDir() {
			return nil
		}
		dir := filepath.Dir(p)
		if filepath.Base(filepath.Dir(dir)) != "blobs" {
			return nil
		}
		b, err := os.ReadFile(p)
		if err != nil {
			return nil
		}
		d := filepath.Base(dir) + ":" + filepath.Base(p)
		e.r.Count("files_scanned", 1)
		if !vh.HashOK(d, b) {
			e.viol("file-hash", fmt.Sprintf("file %s does not hash to its name", strings.TrimPrefix(p, e.root)))
		}
		return nil
	})
}

func batch(r *vh.Run, i int) {
	rng := r.Rand(i)
	kind := []vh.StoreKind{vh.Mem, vh.Dir}[i%2]
	root := ""
	if kind == vh.Dir {
		root = r.TempDir("c01")
		defer vh.RemoveAll(root)
	}
	srv := vh.New(vh.Conf(kind, root, vh.Neutral))
	defer srv.Close()
	e := &env{r: r, idx: i, kind: kind, root: root, have: map[string]map[string][]byte{}, probe: map[string]bool{}, repos: []string{"a", "a/b", "ab"}}
	e.srv = srv
	for _, rp := range e.repos {
		e.have[rp] = map[string][]byte{}
	}
	// interleaved sessions
	var open []*upload
	started := 0
	total := 10 + rng.Intn(6)
	for (started < total || len(open) > 0) && !e.bad {
		if started < total && (len(open) == 0 || (len(open) < 5 && rng.Intn(2) == 0)) {
			open = append(open, e.newUpload(rng, started))
			started++
			continue
		}
		k := rng.Intn(len(open))
		if e.advance(open[k]) {
			open = append(open[:k], open[k+1:]...)
			if !e.bad && rng.Intn(3) == 0 {
				e.probeAll()
			}
		}
	}
	if !e.bad {
		e.mounts(rng)
	}
	if !e.bad {
		e.manifests(rng)
	}
	if !e.bad {
		e.negotiation(rng)
	}
	if !e.bad {
		e.probeAll()
	}
	if !e.bad {
		e.scanFiles()
	}
	r.Count("batches", 1)
	if i < 2 {
		tr := e.trace
		if len(tr) > 12 {
			tr = tr[:12]
		}
		r.Sample(map[string]any{"batch": i, "store": kind.String(), "first_uploads": tr})
	}
}

type pipeBody struct{ r *io.PipeReader }

func (p *pipeBody) Read(b []byte) (int, error) { return p.r.Read(b) }
func (p *pipeBody) Close() error               { return p.r.Close() }

// interleave: requests of ONE session in flight at the same time ("every interleaving of sessions").  After a first
// chunk A is stored, a streamed PATCH that delivers B in pieces races with the completing PUT that declares the
// digest of A (or of A+B, or of a prefix).  Whatever the outcome of the two requests, every digest involved is read
// afterwards and what is served must hash to it.  Under the vsync variant every lock and unlock of the stores is
// followed by a random yield or sleep, which opens the windows between their critical sections.
func interleave(r *vh.Run, i int) {
	rng := r.Rand(5_000_000 + i)
	kind := []vh.StoreKind{vh.Mem, vh.Dir, vh.Mem, vh.MemDir}[i%4]
	root := ""
	if kind != vh.Mem {
		root = r.TempDir("c01i")
		defer vh.RemoveAll(root)
	}
	srv := vh.New(vh.Conf(kind, root, vh.Neutral))
	defer srv.Close()
	acked := map[string][]byte{} // digest -> content of every completion acknowledged in this trial
	defer func() {
		// what was acknowledged earlier must still hash to its digest after everything that followed (a later upload
		// must not reach into the bytes of an earlier blob)
		for d, want := range acked {
			rq := vh.Req{Method: "GET", URL: "/v2/il/blobs/" + d}
			g := vh.Do(srv, rq)
			r.Count("interleave_final_rereads", 1)
			if g.Status != 200 {
				continue
			}
			if p := vh.G1(rq, g); p != "" || string(g.Body) != string(want) {
				r.Violation("g1:interleaved-session-later", fmt.Sprintf("a blob acknowledged earlier in the trial no longer serves its bytes after later uploads: GET %s: %s (%d bytes served, %d acknowledged)", rq.URL, p, len(g.Body), len(want)),
					map[string]any{"trial": i, "store": kind.String()})
				return
			}
		}
	}()
	for t := 0; t < 6; t++ {
		alg := algs[rng.Intn(3)]
		a := []byte(fmt.Sprintf("first part %d.%d;", i, t))
		var pieces [][]byte
		var b []byte
		for k := 1 + rng.Intn(4); k > 0; k-- {
			pc := []byte(fmt.Sprintf("piece %d of %d.%d;", k, i, t))
			pieces = append(pieces, pc)
			b = append(b, pc...)
		}
		ab := append(append([]byte{}, a...), b...)
		rs := vh.Do(srv, vh.Req{Method: "POST", URL: "/v2/il/blobs/uploads/?digest-algorithm=" + alg})
		loc := rs.H.Get("Location")
		if rs.Status != 202 || loc == "" {
			continue
		}
		ps := vh.Do(srv, vh.Req{Method: "PATCH", URL: loc, Body: a})
		if ps.Status != 202 || ps.H.Get("Location") == "" {
			continue
		}
		loc = ps.H.Get("Location")
		declKind := []string{"first-part", "first-part", "all", "first-part-and-one-piece"}[rng.Intn(4)]
		var declared []byte
		switch declKind {
		case "first-part":
			declared = a
		case "all":
			declared = ab
		default:
			declared = append(append([]byte{}, a...), pieces[0]...)
		}
		// the completing digest may be of another algorithm than the session was created with (the store then
		// hashes what it holds again)
		finAlg := alg
		if rng.Intn(2) == 0 {
			finAlg = algs[rng.Intn(3)]
		}
		d := vh.DigestOf(finAlg, declared)
		// the third party: nothing, or a cancel of the same session
		cancel := rng.Intn(3) == 0
		pr, pw := io.Pipe()
		req := httptest.NewRequest("PATCH", loc, &pipeBody{r: pr})
		req.ContentLength = -1
		var wg sync.WaitGroup
		var stPatch, stPut int
		wg.Add(2)
		if cancel {
			wg.Add(1)
			cd := rng.Intn(5)
			go func() {
				defer wg.Done()
				for k := 0; k < cd; k++ {
					runtime.Gosched()
				}
				vh.Do(srv, vh.Req{Method: "DELETE", URL: strings.SplitN(loc, "?", 2)[0]})
			}()
		}
		go func() {
			defer wg.Done()
			w := httptest.NewRecorder()
			func() {
				defer func() { _ = recover() }()
				srv.ServeHTTP(w, req)
			}()
			_ = pr.Close() // a handler that answered without reading the body must not block the sender
			stPatch = w.Code
		}()
		delay := rng.Intn(4)
		go func() {
			defer wg.Done()
			for k := 0; k < delay; k++ {
				runtime.Gosched()
			}
			sep := "&"
			if !strings.Contains(loc, "?") {
				sep = "?"
			}
			stPut = vh.Do(srv, vh.Req{Method: "PUT", URL: loc + sep + "digest=" + d}).Status
		}()
		for _, pc := range pieces {
			_, _ = pw.Write(pc)
			runtime.Gosched()
		}
		_ = pw.Close()
		wg.Wait()
		r.Count("interleaved_completions", 1)
		r.Distinct("cells", fmt.Sprintf("interleave/%s/%s>%s/%s/cancel=%v/patch%d/put%d", kind, alg, finAlg, declKind, cancel, stPatch/100, stPut/100))
		if stPut == 201 {
			acked[d] = declared
		}
		// every digest a client could name for this session
		cands := [][]byte{a, ab}
		acc := append([]byte{}, a...)
		for _, pc := range pieces {
			acc = append(acc, pc...)
			cands = append(cands, append([]byte{}, acc...))
		}
		for _, c := range cands {
			for _, al := range algs {
				dd := vh.DigestOf(al, c)
				for _, m := range []string{"GET", "HEAD"} {
					rq := vh.Req{Method: m, URL: "/v2/il/blobs/" + dd}
					g := vh.Do(srv, rq)
					r.Count("probes", 1)
					if g.Status != 200 {
						continue
					}
					r.Count("interleave_served", 1)
					if p := vh.G1(rq, g); p != "" {
						r.Violation("g1:interleaved-session", fmt.Sprintf("after a streamed PATCH (%d pieces, answered %d) raced with PUT ?digest=<%s> (answered %d) on one session: %s %s: %s", len(pieces), stPatch, declKind, stPut, m, rq.URL, p),
							map[string]any{"trial": i, "store": kind.String(), "algorithm": alg, "declared": declKind, "patch_status": stPatch, "put_status": stPut, "pieces": len(pieces)})
						return
					}
				}
			}
		}
		if stPut == 201 {
			// the acknowledged completion names d: it must be served and (checked above) hash to d
			if g := vh.Do(srv, vh.Req{Method: "GET", URL: "/v2/il/blobs/" + d}); g.Status != 200 {
				r.Violation("interleaved-acknowledged-not-served", fmt.Sprintf("PUT ?digest=%s answered 201, GET answers %d", vh.Short(d), g.Status), map[string]any{"trial": i, "store": kind.String(), "algorithm": alg, "declared": declKind, "patch_status": stPatch, "put_status": stPut, "pieces": len(pieces), "session": t, "digest": d})
				return
			}
		}
	}
	r.Count("interleave_trials", 1)
}

func main() {
	r := vh.Start()
	if strings.HasPrefix(r.Variant(), "vsync") {
		vsync.SetJitter(true, uint64(r.Seed)*0x9e3779b97f4a7c15+1)
	}
	if os.Getenv("VERIF_FOCUS") == "interleave" {
		n := r.N(320, 8000)
		vh.Parallel(n, 16, func(i int) { interleave(r, i) })
		r.Require("interleaved_completions", int64(n*3))
		r.Require("interleave_served", int64(n))
		r.Finish("requests of one session in flight together: a streamed PATCH delivering 1-4 pieces races with the completing PUT (declaring the digest of the first part, of everything, or of a prefix), 6 sessions per trial, memory / directory / memory-over-directory stores, 3 algorithms, lock jitter from the vsync shim; every digest a client could name for the session is read under each algorithm with the content-addressing monitor; a case is one raced completion", "interleaved_completions", "cells")
		return
	}
	n := r.N(120, 5000)
	ni := r.N(40, 1500)
	vh.Parallel(n+ni, 16, func(i int) {
		if i < n {
			batch(r, i)
		} else {
			interleave(r, i-n)
		}
	})
	r.Require("uploads", int64(n*8))
	r.RequireDistinct("cells", 150)
	r.Require("probes", 5000)
	r.Finish("batches of 10-15 interleaved uploads drawn from protocol x algorithm-at-creation x algorithm-at-completion x declared-digest-kind, 6 mounts with wrong-bytes completion of the fallback session, 8 manifest pushes by digest / tag / tag+?digest= with right and wrong digests; every digest ever declared or computed is read as blob and as manifest in 3 repositories with the content-addressing monitor; directory store files are re-hashed; a case is one upload or manifest push, distinct = matrix cells hit", "uploads", "cells")
}
