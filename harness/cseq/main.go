// cseq: sequential differential histories against the reference model (focus C02 or C03).
//
// A history is a random sequence of blob pushes, manifest pushes (by tag / digest, re-pushes, tag moves),
// tag deletes, digest deletes, blob deletes and restarts on a tiny universe.  After every operation the
// complete observable snapshot (tags/list, every tag, every manifest with bytes + headers, every blob with
// bytes, referrers of every subject) is compared with the model.
//
// Focus C02 additionally checks byte ranges, Accept lists, HEAD answers and the manifest size limit;
// focus C03 uses tags from the whole grammar and walks n/last pagination with ordinary and odd values.
package main

import (
	"encoding/json"
	"fmt"
	"math/rand"
	"net/http"
	"sort"
	"strconv"
	"strings"
	"time"

	"github.com/olareg/olareg"
	"github.com/olareg/olareg/internal/verif/vh"
)

var focusKinds = map[string]map[string]bool{
	"C02": {"man": true, "blob": true, "prob": true},
	"C03": {"tags": true, "tag": true, "man": true},
}

func grammarTags(r *rand.Rand) []string {
	hex := "0123456789abcdef"
	look := "sha256-"
	for i := 0; i < 64; i++ {
		look += string(hex[r.Intn(16)])
	}
	long := ""
	for len(long) < 128 {
		long += string("abcXYZ019_.-"[r.Intn(12)])
	}
	long = "L" + long[1:]
	pool := []string{"a", "_", "_x", "0", "007", "v1.2.3", "a-b", "a.b", "a_b", "A", "latest", "Z-.-_", look, long, "t1", "t2", "t10", "t9"}
	r.Shuffle(len(pool), func(i, j int) { pool[i], pool[j] = pool[j], pool[i] })
	n := 3 + r.Intn(3)
	return pool[:n]
}

type hist struct {
	r     *vh.Run
	focus string
	rng   *rand.Rand
	idx   int
	w     *vh.World
	srv   *olareg.Server
	root  string
	kind  vh.StoreKind
	pol   vh.Policy
	bad   bool
}

func (h *hist) viol(sig, detail string) {
	h.bad = true
	tr := h.w.Trace
	if len(tr) > 80 {
		tr = tr[len(tr)-80:]
	}
	h.r.Violation(sig, detail, map[string]any{"history": h.idx, "store": h.kind.String(), "trace": tr})
}

func (h *hist) compare(repo, when string) {
	ds := h.w.Compare(repo, h.w.RealSnap(repo))
	h.r.Count("snapshots_compared", 1)
	for _, d := range ds {
		if d.Known != "" {
			// recorded findings are reported under the property they were recorded for
			h.r.Violation(d.Known+":"+d.Kind, d.String()+" ("+when+")", map[string]any{"history": h.idx, "store": h.kind.String(), "trace": h.w.Trace})
			continue
		}
		if focusKinds[h.focus][d.Kind] || (h.focus == "C02" && d.Kind == "tag" && d.Want != "" && d.Want != "<nil>") {
			// (C02 owns a tag of an acknowledged push that no longer resolves to it; a tag that should be gone is C03's)
			h.viol("state:"+d.Kind+":"+when, d.String()+" ("+when+")")
		} else {
			h.bad = true // the model is no longer a sound basis; stop this history silently (another check owns this kind)
			h.r.Count("foreign_differences_"+d.Kind, 1)
		}
	}
}

func (h *hist) restart() {
	if h.kind != vh.Dir {
		return
	}
	_ = h.srv.Close()
	h.srv = vh.New(vh.Conf(vh.Dir, h.root, h.pol))
	h.w.H = h.srv
	h.w.T("RESTART")
	h.r.Count("restarts", 1)
}

func (h *hist) step(repo string) {
	w, rng, u := h.w, h.rng, h.w.U
	m := w.Repos[repo]
	switch k := rng.Intn(20); {
	case k < 5:
		b := u.Blobs[rng.Intn(len(u.Blobs))]
		rs := w.PushBlob(repo, b)
		if rs.Status != 201 && h.focus == "C02" {
			h.viol("push:blob-status", fmt.Sprintf("monolithic upload of %s answered %d", b.Name, rs.Status))
		}
	case k < 13:
		mm := u.Mans[rng.Intn(len(u.Mans))]
		if len(m.Mans) > 0 && rng.Intn(2) == 0 {
			// re-push / tag move / multi-tagging of something that is already there
			var ds []string
			for d := range m.Mans {
				ds = append(ds, d)
			}
			sort.Strings(ds)
			mm = m.Mans[ds[rng.Intn(len(ds))]]
		}
		tag := ""
		if rng.Intn(3) > 0 {
			tag = u.Tags[rng.Intn(len(u.Tags))]
		}
		rs, ok := w.PutManifest(repo, mm, tag)
		h.r.Count("manifest_pushes", 1)
		if ok && rs.Status == 201 {
			h.r.Count("manifest_pushes_acknowledged", 1)
			if tag != "" {
				h.r.Count("tag_writes", 1)
			}
		}
		if (rs.Status == 201) != ok || rs.Status >= 500 {
			h.bad = true // acceptance is C04's business
			h.r.Count("foreign_differences_put_status", 1)
		}
	case k < 15:
		tag := u.Tags[rng.Intn(len(u.Tags))]
		rs, exp := w.DeleteTag(repo, tag)
		if exp == 202 {
			h.r.Count("tag_deletes", 1)
		}
		if rs.Status != exp {
			if h.focus == "C03" {
				h.viol("delete:tag-status", fmt.Sprintf("DELETE of tag %s answered %d, specification says %d", tag, rs.Status, exp))
			}
			h.bad = true
		}
	case k < 17:
		mm := u.Mans[rng.Intn(len(u.Mans))]
		ntags := 0
		for _, d := range m.Tags {
			if d == mm.D {
				ntags++
			}
		}
		rs, exp := w.DeleteManifest(repo, mm)
		if exp == 202 {
			h.r.Count("digest_deletes", 1)
			if ntags > 1 {
				h.r.Count("digest_deletes_multi_tag", 1)
			}
		}
		if exp != 0 && rs.Status != exp {
			if h.focus == "C03" {
				h.viol("delete:digest-status", fmt.Sprintf("DELETE of manifest %s answered %d, specification says %d", mm.Name, rs.Status, exp))
			}
			h.bad = true
		}
	case k < 18:
		// blob delete, only for content that is not the body of a present manifest (DESIGN C10)
		var cands []string
		for d := range m.Stored {
			if m.Mans[d] == nil {
				cands = append(cands, d)
			}
		}
		if len(cands) == 0 {
			return
		}
		sort.Strings(cands)
		d := cands[rng.Intn(len(cands))]
		rs, exp := w.DeleteBlob(repo, d, vh.Short(d))
		if rs.Status != exp {
			if h.focus == "C02" {
				h.viol("delete:blob-status", fmt.Sprintf("DELETE of blob %s answered %d, specification says %d", vh.Short(d), rs.Status, exp))
			}
			h.bad = true
		}
	case k < 19:
		h.restart()
		// a reload is where the recorded findings K1/K5 surface: look at every repository right now, so that they are
		// recognised in the state they occur in
		for _, rp := range []string{"r", "r/n", "p/q"} {
			if rp != repo && !h.bad {
				h.compare(rp, "after restart")
			}
		}
	default:
		if rng.Intn(3) == 0 {
			// push a whole graph in dependency order by digest (children become implicit entries of their parents), then
			// tag the outermost index: deep parent chains for the next reload
			var lastIdx *vh.Man
			for _, mm := range u.Mans {
				if mm.Subject == "" && m.ValidRefs(mm) {
					if rs, ok := w.PutManifest(repo, mm, ""); (rs.Status == 201) != ok {
						h.bad = true
						return
					}
					if mm.Index {
						lastIdx = mm
					}
				}
			}
			if lastIdx != nil {
				w.PutManifest(repo, lastIdx, u.Tags[rng.Intn(len(u.Tags))])
			}
			h.r.Count("graph_pushes", 1)
			return
		}
		if h.focus == "C02" {
			h.reads(repo)
		} else {
			h.paging(repo)
		}
	}
}

// reads: ranges, HEAD and Accept variants on items that are present (C02).
func (h *hist) reads(repo string) {
	w, rng := h.w, h.rng
	m := w.Repos[repo]
	type item struct {
		url, d, mt string
		b          []byte
		man        bool
	}
	var items []item
	for d, b := range m.Stored {
		if mm := m.Mans[d]; mm != nil {
			items = append(items, item{"/v2/" + repo + "/manifests/" + d, d, mm.MT, b, true})
			for t, td := range m.Tags {
				if td == d {
					items = append(items, item{"/v2/" + repo + "/manifests/" + t, d, mm.MT, b, true})
				}
			}
		}
		items = append(items, item{"/v2/" + repo + "/blobs/" + d, d, "", b, false})
	}
	sort.Slice(items, func(i, j int) bool { return items[i].url < items[j].url })
	if len(items) == 0 {
		return
	}
	for n := 0; n < 4; n++ {
		it := items[rng.Intn(len(items))]
		hd := map[string]string{}
		hm := http.Header{}
		if it.man {
			// every Accept list that contains the stored type: comma separated, several lines, parameters
			switch rng.Intn(7) {
			case 4: // one header value, bare commas (what strings.Join(types, ",") produces)
				hd["Accept"] = "application/json," + it.mt + ",text/plain"
			case 5: // bare commas with parameters
				hd["Accept"] = "application/x.other;q=0.9," + it.mt + ";q=0.8"
			case 6: // comma followed by a tab, the stored type last
				hd["Accept"] = "text/plain,\t" + it.mt
			case 0:
				hd["Accept"] = it.mt
			case 1:
				hd["Accept"] = "application/json, " + it.mt + ";q=0.9, text/plain"
			case 2:
				hm.Add("Accept", "application/x.other")
				hm.Add("Accept", strings.ToUpper(it.mt[:12])+it.mt[12:])
			case 3:
				hd["Accept"] = vh.AcceptAll
			}
		}
		L := len(it.b)
		// a range request
		if L > 0 && rng.Intn(2) == 0 {
			a := rng.Intn(L)
			b := a + rng.Intn(L-a)
			var spec string
			var want []byte
			switch rng.Intn(3) {
			case 0:
				spec, want = fmt.Sprintf("bytes=%d-%d", a, b), it.b[a:b+1]
			case 1:
				spec, want = fmt.Sprintf("bytes=%d-", a), it.b[a:]
			default:
				nn := 1 + rng.Intn(L)
				spec, want = fmt.Sprintf("bytes=-%d", nn), it.b[L-nn:]
				a = L - nn
			}
			hd["Range"] = spec
			rs := w.Do(vh.Req{Method: "GET", URL: it.url, H: hd, HMulti: hm})
			h.r.Count("range_reads", 1)
			wantCR := fmt.Sprintf("bytes %d-%d/%d", a, a+len(want)-1, L)
			if rs.Status != 206 || string(rs.Body) != string(want) || rs.H.Get("Content-Range") != wantCR {
				if _, skew := m.ListingTypes(it.d, it.mt); skew && it.man && strings.HasSuffix(it.url, it.d) && rs.Status == 404 {
					h.r.Violation("K9:read", fmt.Sprintf("GET %s Range %s (Accept %q %v): status 404; pushed as %q, an acknowledged index lists it under another media type", it.url, spec, hd["Accept"], hm["Accept"], it.mt), map[string]any{"history": h.idx, "store": h.kind.String(), "trace": w.Trace})
					continue
				}
				h.viol("read:range", fmt.Sprintf("GET %s Range %s: status %d, %d bytes, Content-Range %q; want 206, %d bytes, %q", it.url, spec, rs.Status, len(rs.Body), rs.H.Get("Content-Range"), len(want), wantCR))
			}
			continue
		}
		method := []string{"GET", "HEAD"}[rng.Intn(2)]
		rs := w.Do(vh.Req{Method: method, URL: it.url, H: hd, HMulti: hm})
		h.r.Count("plain_reads", 1)
		okBody := method == "HEAD" || string(rs.Body) == string(it.b)
		if rs.Status != 200 || !okBody || rs.H.Get("Content-Length") != fmt.Sprint(L) || rs.H.Get("Docker-Content-Digest") != it.d || (it.man && rs.H.Get("Content-Type") != it.mt) {
			if _, skew := m.ListingTypes(it.d, it.mt); skew && it.man && strings.HasSuffix(it.url, it.d) && (rs.Status == 404 || (rs.Status == 200 && m.ListedAs(it.d, rs.H.Get("Content-Type")))) {
				// recorded finding K9: read by digest, the manifest is served under the media type an acknowledged index
				// lists it with (so a request that accepts only the pushed type finds nothing)
				h.r.Violation("K9:read", fmt.Sprintf("%s %s (Accept %q %v): status %d, type %q; pushed as %q", method, it.url, hd["Accept"], hm["Accept"], rs.Status, rs.H.Get("Content-Type"), it.mt), map[string]any{"history": h.idx, "store": h.kind.String(), "trace": w.Trace})
				continue
			}
			h.viol("read:plain", fmt.Sprintf("%s %s (Accept %q %v): status %d, %d bytes, Content-Length %s, digest %s, type %q; want 200, %d bytes, %s, %q",
				method, it.url, hd["Accept"], hm["Accept"], rs.Status, len(rs.Body), rs.H.Get("Content-Length"), vh.Short(rs.H.Get("Docker-Content-Digest")), rs.H.Get("Content-Type"), L, vh.Short(it.d), it.mt))
		}
	}
}

// paging: n/last pagination walks and odd parameter values (C03).
func (h *hist) paging(repo string) {
	w, rng := h.w, h.rng
	m := w.Repos[repo]
	want := []string{}
	for t := range m.Tags {
		want = append(want, t)
	}
	sort.Strings(want)
	base := "/v2/" + repo + "/tags/list"
	ns := []int{1, 2, 3, len(want) - 1, len(want), len(want) + 1, 1000}
	n := ns[rng.Intn(len(ns))]
	if n >= 1 {
		u := fmt.Sprintf("%s?n=%d", base, n)
		var got []string
		reqs := 0
		for u != "" && reqs <= len(want)+2 {
			rs := w.Do(vh.Req{Method: "GET", URL: u})
			reqs++
			var tl struct{ Tags []string }
			if rs.Status != 200 || json.Unmarshal(rs.Body, &tl) != nil {
				if len(want) == 0 && rs.Status == 404 {
					break // unknown repository
				}
				h.viol("page:status", fmt.Sprintf("GET %s: status %d", u, rs.Status))
				return
			}
			if len(tl.Tags) > n {
				h.viol("page:size", fmt.Sprintf("GET %s returned %d tags", u, len(tl.Tags)))
				return
			}
			got = append(got, tl.Tags...)
			u = ""
			if l := rs.H.Get("Link"); l != "" {
				i, j := strings.Index(l, "<"), strings.Index(l, ">")
				if i < 0 || j < i {
					h.viol("page:link", "malformed Link header "+l)
					return
				}
				u = l[i+1 : j]
			}
		}
		h.r.Count("pagination_walks", 1)
		if u != "" {
			h.viol("page:terminate", fmt.Sprintf("pagination with n=%d did not end after %d requests for %d tags", n, reqs, len(want)))
		} else if strings.Join(got, ",") != strings.Join(want, ",") && !(len(want) == 0 && len(got) == 0) {
			h.viol("page:union", fmt.Sprintf("pagination with n=%d visited %v, tags are %v", n, got, want))
		}
	}
	// odd values: status 200, valid JSON, sorted duplicate-free subset of the tags greater than last
	odd := []string{"0", "-1", "-2147483648", "9223372036854775808", "9223372036854775807", "9223372036854775806", "-9223372036854775808", "2147483647", "2147483648", "4294967295", "4294967296", "18446744073709551615", "18446744073709551616", "x", "", "1e3", "%00", "00", "1", "2", "3", "1000", "absent", "absent"}
	lasts := []string{"", "0", "zzzz", "\x00", "%ff"}
	if len(want) > 0 {
		t := want[rng.Intn(len(want))]
		lasts = append(lasts, t, t+"0", t[:len(t)-1])
	}
	nv, lv := odd[rng.Intn(len(odd))], lasts[rng.Intn(len(lasts))]
	q := "?n=" + nv
	if nv == "absent" {
		q = "?x=1"
	}
	lastDec := ""
	if rng.Intn(3) > 0 {
		q += "&last=" + strings.NewReplacer("\x00", "%00").Replace(lv)
		lastDec = strings.NewReplacer("%ff", "\xff", "%00", "\x00").Replace(lv)
	}
	rs := w.Do(vh.Req{Method: "GET", URL: base + q})
	h.r.Count("odd_listings", 1)
	h.r.Distinct("n_last_classes", nv+"|"+lv)
	if len(m.Mans) == 0 && len(m.Stored) == 0 && rs.Status == 404 {
		return // repository unknown: not a listing
	}
	var tl struct{ Tags []string }
	if rs.Status != 200 || json.Unmarshal(rs.Body, &tl) != nil {
		if rs.Status == 404 && len(want) == 0 {
			return
		}
		h.viol("list:odd-status", fmt.Sprintf("GET %s: status %d %s", base+q, rs.Status, firstLine(rs.Panic)))
		return
	}
	set := map[string]bool{}
	for _, t := range want {
		set[t] = true
	}
	for i, t := range tl.Tags {
		if !set[t] || (i > 0 && tl.Tags[i-1] >= t) || (lastDec != "" && t <= lastDec) {
			h.viol("list:odd-content", fmt.Sprintf("GET %s returned %v, tags are %v", base+q, tl.Tags, want))
			return
		}
	}
	// with no n, or a positive page size, the answer is exact: the first n of the tags greater than last - whether or
	// not last is itself a current tag
	if nn, err := strconv.Atoi(nv); nv == "absent" || (err == nil && nn >= 1 && nv != "00") {
		var exp []string
		for _, t := range want {
			if lastDec == "" || t > lastDec {
				exp = append(exp, t)
			}
		}
		if nv != "absent" && len(exp) > nn {
			exp = exp[:nn]
		}
		h.r.Count("exact_listings_with_last", 1)
		if strings.Join(exp, ",") != strings.Join(tl.Tags, ",") {
			h.viol("list:last-inexact", fmt.Sprintf("GET %s returned %v, the tags greater than last are %v (all tags %v)", base+q, tl.Tags, exp, want))
			return
		}
	}
}

func firstLine(s string) string {
	if i := strings.IndexByte(s, '\n'); i >= 0 {
		return s[:i]
	}
	return s
}

// churnStep: few keys, many operations - three or four plain manifests and three tags, only index-changing operations
// (tag, multi-tag, re-tag, push by digest, tag delete, digest delete, the occasional restart), so that orders of
// entries, duplicates and swap-removes inside the index are reached that a wide universe rarely produces.
func (h *hist) churnStep(repo string) {
	w, rng, u := h.w, h.rng, h.w.U
	switch k := rng.Intn(20); {
	case k < 10:
		mm := u.Mans[rng.Intn(len(u.Mans))]
		tag := u.Tags[rng.Intn(len(u.Tags))]
		if rng.Intn(6) == 0 {
			tag = ""
		}
		rs, ok := w.PutManifest(repo, mm, tag)
		h.r.Count("manifest_pushes", 1)
		if ok && rs.Status == 201 && tag != "" {
			h.r.Count("tag_writes", 1)
		}
		if (rs.Status == 201) != ok || rs.Status >= 500 {
			h.bad = true
			h.r.Count("foreign_differences_put_status", 1)
		}
	case k < 14:
		tag := u.Tags[rng.Intn(len(u.Tags))]
		rs, exp := w.DeleteTag(repo, tag)
		if exp == 202 {
			h.r.Count("tag_deletes", 1)
		}
		if rs.Status != exp {
			if h.focus == "C03" {
				h.viol("delete:tag-status", fmt.Sprintf("DELETE of tag %s answered %d, specification says %d", tag, rs.Status, exp))
			}
			h.bad = true
		}
	case k < 18:
		mm := u.Mans[rng.Intn(len(u.Mans))]
		rs, exp := w.DeleteManifest(repo, mm)
		if exp == 202 {
			h.r.Count("digest_deletes", 1)
		}
		if exp != 0 && rs.Status != exp {
			if h.focus == "C03" {
				h.viol("delete:digest-status", fmt.Sprintf("DELETE of manifest %s answered %d, specification says %d", mm.Name, rs.Status, exp))
			}
			h.bad = true
		}
	case k < 19:
		h.restart()
	default:
		if h.focus == "C02" {
			h.reads(repo)
		} else {
			h.paging(repo)
		}
	}
}

func runHistory(r *vh.Run, focus string, i int) {
	rng := r.Rand(i)
	kind := []vh.StoreKind{vh.Mem, vh.Dir}[i%2]
	uo := vh.UOpts{Algs: i%5 == 0, Docker: (i/2)%2 == 0, BareMT: i%4 == 1, ChildName: (i/3)%3 == 1, Tag: fmt.Sprint(i)}
	if focus == "C03" {
		uo.Tags = grammarTags(rng)
	} else {
		uo.MTSkew = i%4 == 3
	}
	churn := i%3 == 2 // a third of the histories (i%2 picks the store, so both stores)
	u := vh.GenUniverse(rng, uo)
	if churn {
		// keep three or four manifests that stand on their own (no subject, no children) and three tags
		var keep []*vh.Man
		for _, mm := range u.Mans {
			if !mm.Index && mm.Subject == "" && len(keep) < 3+i%2 {
				keep = append(keep, mm)
			}
		}
		if len(keep) >= 2 {
			// ... and one index over some of them, so that a manifest can be a child and have entries of its own
			in := map[string]bool{}
			for _, k := range keep {
				in[k.D] = true
			}
			for _, mm := range u.Mans {
				if mm.Index && mm.Subject == "" && len(mm.Refs) > 0 {
					all := true
					for _, c := range mm.Refs {
						all = all && in[c]
					}
					if all {
						keep = append(keep, mm)
						break
					}
				}
			}
			u.Mans = keep
			if len(u.Tags) > 3 {
				u.Tags = u.Tags[:3]
			}
		} else {
			churn = false
		}
	}
	root := ""
	if kind != vh.Mem {
		root = r.TempDir("seq")
		defer vh.RemoveAll(root)
	}
	// the collection in Close removes nothing referenced or young under this policy; in half of the histories it may
	// remove a repository that is empty (the registry's default): "p" is only ever asked for its tags, "p/q" below it
	// holds a tagged image
	pol := vh.Neutral
	pol.EmptyRepo = (i/2)%2 == 0
	srv := vh.New(vh.Conf(kind, root, pol))
	h := &hist{r: r, focus: focus, rng: rng, idx: i, srv: srv, root: root, kind: kind, pol: pol}
	h.w = vh.NewWorld(r, srv, u, kind, "r", "r/n", "p/q")
	{
		// a repository nested below a name that is addressed but never holds anything
		h.w.Do(vh.Req{Method: "GET", URL: "/v2/p/tags/list"})
		for _, mm := range u.Mans {
			if !mm.Index && mm.Subject == "" {
				for _, rf := range mm.Refs {
					if b := u.BlobByD[rf]; b != nil {
						h.w.PushBlob("p/q", b)
					}
				}
				if h.w.Repos["p/q"].ValidRefs(mm) {
					h.w.PutManifest("p/q", mm, "kept")
				}
				break
			}
		}
	}
	// prelude: most of the blobs, so that manifests are mostly acceptable
	for _, b := range u.Blobs {
		if rng.Intn(10) < 7 {
			h.w.PushBlob("r", b)
		}
	}
	nops := 25 + rng.Intn(30)
	if churn {
		for _, b := range u.Blobs {
			h.w.PushBlob("r", b)
		}
		nops = 100 + rng.Intn(80)
		r.Count("churn_histories", 1)
	}
	// a few directory-store histories pause for more than a second now and then: the store looks at index.json again
	// (it trusts what it has in memory for one second) and may reload it in the middle of the history
	pauses := 0
	if kind == vh.Dir && i%40 == 5 {
		pauses = 4
		r.Count("histories_with_mid_history_reloads", 1)
	}
	for op := 0; op < nops && !h.bad; op++ {
		repo := "r"
		if rng.Intn(6) == 0 && !churn {
			repo = "r/n"
		}
		if pauses > 0 && op > 3 && rng.Intn(5) == 0 {
			pauses--
			time.Sleep(1100 * time.Millisecond)
			h.w.T("PAUSE 1.1s")
		}
		if churn {
			h.churnStep(repo)
		} else {
			h.step(repo)
		}
		r.Count("operations", 1)
		if !h.bad {
			h.compare(repo, "after an operation")
		}
	}
	if !h.bad && kind == vh.Dir {
		h.restart()
		h.compare("r", "after restart")
		h.compare("r/n", "after restart")
		h.compare("p/q", "after restart")
		if !h.bad && i%4 == 1 {
			// continue on a memory store layered over the directory just written
			_ = h.srv.Close()
			h.srv = vh.New(vh.Conf(vh.MemDir, root, pol))
			h.w.H, h.w.Kind, h.kind = h.srv, vh.MemDir, vh.MemDir
			h.w.T("REOPEN as memory over directory")
			h.compare("r", "after reopening as memory over directory")
			for op := 0; op < 10 && !h.bad; op++ {
				h.step("r")
				if !h.bad {
					h.compare("r", "after an operation on memory over directory")
				}
			}
			r.Count("memdir_continuations", 1)
		}
	}
	_ = h.srv.Close()
	r.Count("histories", 1)
	r.Count("requests", h.w.Reqs)
	if !h.bad {
		r.Distinct("histories_distinct", fmt.Sprintf("%d:%s", i, strings.Join(h.w.Trace, ";")))
	}
	if i < 2 {
		tr := h.w.Trace
		if len(tr) > 30 {
			tr = tr[:30]
		}
		r.Sample(map[string]any{"history": i, "store": kind.String(), "first_operations": tr})
	}
	for k, n := range h.w.Known {
		r.Count("known_"+k, n)
	}
}

// limitCases: manifest size limit (C02): bodies of length L-1, L, L+1, 4L with known and unknown length.
func limitCases(r *vh.Run, i int) {
	rng := r.Rand(500_000 + i)
	kind := []vh.StoreKind{vh.Mem, vh.Dir}[i%2]
	root := ""
	if kind == vh.Dir {
		root = r.TempDir("lim")
		defer vh.RemoveAll(root)
	}
	L := int64(500 + rng.Intn(400))
	c := vh.Conf(kind, root, vh.Neutral)
	c.API.Manifest.Limit = L
	srv := vh.New(c)
	defer srv.Close()
	cfg := &vh.Blob{Name: "cfg", B: []byte(fmt.Sprintf(`{"limit":%d}`, i))}
	cfg.D = vh.DigestOf("sha256", cfg.B)
	if rs := vh.Do(srv, vh.Req{Method: "POST", URL: "/v2/l/blobs/uploads/?digest=" + cfg.D, Body: cfg.B}); rs.Status != 201 {
		r.Violation("limit:setup", fmt.Sprintf("config upload answered %d", rs.Status), nil)
		return
	}
	for _, size := range []int64{L - 1, L, L + 1, L + 2, 4 * L} {
		for _, unknown := range []bool{false, true} {
			// every case has its own content, so that a prefix of one body is never another case's body
			base := vh.MkImage("m", "sha256", vh.MTImage, cfg, vh.MTConfig, nil, "", "", map[string]string{"case": fmt.Sprintf("%d/%d/%v", i, size, unknown)})
			// valid JSON padded with trailing whitespace so that a cut body still parses
			body := append([]byte{}, base.Raw...)
			for int64(len(body)) < size {
				body = append(body, ' ')
			}
			if int64(len(body)) != size {
				continue
			}
			d := vh.DigestOf("sha256", body)
			tag := fmt.Sprintf("s%d", size)
			rs := vh.Do(srv, vh.Req{Method: "PUT", URL: "/v2/l/manifests/" + tag, H: map[string]string{"Content-Type": vh.MTImage}, Body: body, UnknownLen: unknown})
			r.Count("limit_cases", 1)
			wit := map[string]any{"limit": L, "size": size, "unknown_length": unknown, "store": kind.String()}
			if size <= L {
				if rs.Status != 201 {
					r.Violation("limit:refused-within-limit", fmt.Sprintf("manifest of %d bytes (limit %d) answered %d", size, L, rs.Status), wit)
					continue
				}
				g := vh.Do(srv, vh.Req{Method: "GET", URL: "/v2/l/manifests/" + tag, H: map[string]string{"Accept": vh.MTImage}})
				if g.Status != 200 || string(g.Body) != string(body) || g.H.Get("Docker-Content-Digest") != d {
					r.Violation("limit:readback", fmt.Sprintf("manifest of %d bytes (limit %d) read back with status %d, %d bytes", size, L, g.Status, len(g.Body)), wit)
				}
			} else {
				if rs.Status < 400 || rs.Status >= 500 {
					r.Violation("limit:accepted-over-limit", fmt.Sprintf("manifest of %d bytes (limit %d, unknown length %v) answered %d", size, L, unknown, rs.Status), wit)
				}
				// never stored in a shortened form: the tag does not exist, nothing is served under the digest of any prefix
				g := vh.Do(srv, vh.Req{Method: "GET", URL: "/v2/l/manifests/" + tag, H: map[string]string{"Accept": vh.MTImage}})
				if g.Status == 200 && string(g.Body) != string(body) {
					r.Violation("limit:stored-shortened", fmt.Sprintf("manifest of %d bytes (limit %d, unknown length %v) is served as %d bytes", size, L, unknown, len(g.Body)), wit)
				}
				for _, cut := range []int64{L, L - 1, L + 1} {
					dc := vh.DigestOf("sha256", body[:cut])
					for _, p := range []string{"manifests", "blobs"} {
						g := vh.Do(srv, vh.Req{Method: "GET", URL: "/v2/l/" + p + "/" + dc, H: map[string]string{"Accept": vh.MTImage}})
						if g.Status == 200 {
							r.Violation("limit:stored-shortened", fmt.Sprintf("the first %d bytes of a refused %d byte manifest are served under %s/%s", cut, size, p, vh.Short(dc)), wit)
						}
					}
				}
			}
		}
	}
}

// responseCollision: a manifest a client pushed may have the very bytes of a referrers answer the registry generates
// itself - the empty OCI index is what is stored for a subject whose last referrer was deleted, and what a Go client
// marshals for an index without manifests.  The client's manifest was acknowledged and never deleted: it stays
// addressable by digest (C02), also after its only tag was deleted (C03), whatever happens to the referrers of some
// subject.
func responseCollision(r *vh.Run, i int) {
	kind := []vh.StoreKind{vh.Mem, vh.Dir, vh.MemDir}[i%3]
	byTag := (i/3)%2 == 1   // pushed under a tag that is deleted later, or by digest
	before := (i/6)%2 == 1  // pushed before the registry generated the same bytes, or after
	reload := (i/12)%2 == 1 // directory store: a pause that makes the next request re-read index.json
	root := ""
	if kind != vh.Mem {
		root = r.TempDir("coll")
		defer vh.RemoveAll(root)
	}
	srv := vh.New(vh.Conf(kind, root, vh.Neutral))
	defer func() { _ = srv.Close() }()
	wit := map[string]any{"trial": i, "store": kind.String(), "pushed_by_tag": byTag, "pushed_before_the_answer_existed": before}
	var trace []string
	do := func(rq vh.Req) vh.Resp {
		rs := vh.Do(srv, rq)
		trace = append(trace, fmt.Sprintf("%s = %d", vh.ShortReq(rq), rs.Status))
		return rs
	}
	acc := map[string]string{"Accept": vh.AcceptAll}
	cfg := &vh.Blob{Name: "cfg", B: []byte(fmt.Sprintf("collision config %d", i))}
	cfg.D = vh.DigestOf("sha256", cfg.B)
	img := vh.MkImage("img", "sha256", vh.MTImage, cfg, vh.MTConfig, nil, "", "", map[string]string{"n": fmt.Sprint(i)})
	E := []byte(`{"schemaVersion":2,"mediaType":"application/vnd.oci.image.index.v1+json","manifests":[]}`)
	ED := vh.DigestOf("sha256", E)
	art := func(k int) *vh.Man {
		return vh.MkImage(fmt.Sprint("art", k), "sha256", vh.MTImage, cfg, vh.MTConfig, nil, img.D, "application/x.a", map[string]string{"k": fmt.Sprint(i, k)})
	}
	pushE := func() bool {
		u := "/v2/c/manifests/" + ED
		if byTag {
			u = "/v2/c/manifests/scratch"
		}
		return do(vh.Req{Method: "PUT", URL: u, H: map[string]string{"Content-Type": vh.MTIndex}, Body: E}).Status == 201
	}
	do(vh.Req{Method: "POST", URL: "/v2/c/blobs/uploads/?digest=" + cfg.D, Body: cfg.B})
	if do(vh.Req{Method: "PUT", URL: "/v2/c/manifests/img", H: map[string]string{"Content-Type": img.MT}, Body: img.Raw}).Status != 201 {
		r.Inconclusive("responseCollision: image refused")
		return
	}
	if before && !pushE() {
		r.Inconclusive("responseCollision: empty index refused")
		return
	}
	a1 := art(1)
	s1 := do(vh.Req{Method: "PUT", URL: "/v2/c/manifests/" + a1.D, H: map[string]string{"Content-Type": a1.MT}, Body: a1.Raw}).Status
	s2 := do(vh.Req{Method: "DELETE", URL: "/v2/c/manifests/" + a1.D}).Status
	if g := do(vh.Req{Method: "GET", URL: "/v2/c/referrers/" + img.D}); s1 != 201 || s2 != 202 || strings.TrimSpace(string(g.Body)) != string(E) {
		r.Count("collision_trials_without_collision", 1) // the generated answer has other bytes: nothing to decide
		return
	}
	if !before && !pushE() {
		r.Inconclusive("responseCollision: empty index refused")
		return
	}
	if byTag {
		if do(vh.Req{Method: "DELETE", URL: "/v2/c/manifests/scratch"}).Status != 202 {
			r.Inconclusive("responseCollision: tag delete refused")
			return
		}
	}
	check := func(when string) bool {
		g := do(vh.Req{Method: "GET", URL: "/v2/c/manifests/" + ED, H: acc})
		r.Count("collision_reads", 1)
		if g.Status != 200 || string(g.Body) != string(E) {
			wit["requests"] = trace
			r.Violation("acknowledged-manifest-lost:response-collision", fmt.Sprintf("%s store: the empty OCI index was pushed (201, %s) and never deleted; %s GET by its digest answers %d - its index entry was taken over by, and then removed with, the referrers answer of an unrelated subject, which has the same bytes", kind, map[bool]string{true: "under a tag that was deleted afterwards", false: "by digest"}[byTag], when, g.Status), wit)
			return false
		}
		return true
	}
	if !check("right after,") {
		return
	}
	if reload && kind == vh.Dir {
		time.Sleep(1100 * time.Millisecond)
	}
	a2 := art(2)
	do(vh.Req{Method: "PUT", URL: "/v2/c/manifests/" + a2.D, H: map[string]string{"Content-Type": a2.MT}, Body: a2.Raw})
	if !check("after another referrer of that subject was pushed,") {
		return
	}
	do(vh.Req{Method: "DELETE", URL: "/v2/c/manifests/" + a2.D})
	a3 := art(3)
	do(vh.Req{Method: "PUT", URL: "/v2/c/manifests/" + a3.D, H: map[string]string{"Content-Type": a3.MT}, Body: a3.Raw})
	check("after the subject's referrers went to none and back to one,")
	r.Count("collision_trials", 1)
	r.Distinct("collision_cells", fmt.Sprint(kind, byTag, before))
}

func main() {
	r := vh.Start()
	focus := r.Focus
	if focus == "" {
		focus = "C02"
	}
	_ = time.Now
	n := r.N(240, 8000)
	nl := 0
	if focus == "C02" {
		nl = r.N(24, 600)
	}
	vh.Parallel(n+nl, 16, func(i int) {
		if i < n {
			runHistory(r, focus, i)
		} else {
			limitCases(r, i-n)
		}
	})
	nc := r.N(24, 240)
	vh.Parallel(nc, 12, func(i int) { responseCollision(r, i) })
	r.Require("collision_trials", int64(nc/2))
	r.Require("histories", int64(n))
	r.Require("snapshots_compared", int64(n*10))
	if focus == "C02" {
		r.Require("range_reads", 20)
		r.Require("limit_cases", 20)
	} else {
		r.Require("pagination_walks", 20)
	}
	r.Finish("random sequential histories (25-55 operations: blob push, manifest push by tag/digest, re-push, tag move, tag delete, digest delete, blob delete, restart, reads) on a universe of ~5 blobs, ~10 manifests, 3-5 tags, 2 repositories (one nested), memory and directory stores; a third of the histories are churn histories (3-4 plain manifests, 3 tags, 100-180 index-changing operations only); full observable snapshot compared with the reference model after every operation; a case is one history, distinct = histories with distinct operation traces that ran to the end", "histories", "histories_distinct")
}
