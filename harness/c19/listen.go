package main

// Part (h): the flags of `serve` that decide where and how the server listens, and the command line as a whole.
//
//   bare-value     `--api-delete false` / `--api-push false`: a boolean flag followed by a separate word.  Whatever the
//                  parser makes of it, the switch must not end up ON (delete) / stay ON (push) behind the operator's
//                  back: either the command line is refused or the behaviour is the one spelled out.
//   addr-ipv6      `--addr ::1` ("listener interface or address"): an IPv6 literal is an address; the server listens on it.
//                  `--addr [::1]` is the bracketed spelling of the same address.
//   tls            `--tls-cert` and `--tls-key` together: HTTPS is served and plain HTTP is not.
//   tls-half       only one of the two: serving plain HTTP on that port is the one thing that must not happen (the
//                  operator asked for TLS); refusing to start is fine.
//   stalled-client SIGTERM while a client keeps a request open without ever finishing it (a PATCH that announced more
//                  than it sends): the process still ends - within a bound that does not depend on that client - and
//                  what was acknowledged before is on disk.

import (
	"bufio"
	"bytes"
	"crypto/ecdsa"
	"crypto/elliptic"
	crand "crypto/rand"
	"crypto/tls"
	"crypto/x509"
	"crypto/x509/pkix"
	"encoding/pem"
	"fmt"
	"io"
	"math/big"
	"net"
	"net/http"
	"os"
	"os/exec"
	"path/filepath"
	"strings"
	"syscall"
	"time"

	"github.com/olareg/olareg/internal/verif/vh"
)

type lproc struct {
	cmd  *exec.Cmd
	errb *bytes.Buffer
	done chan struct{}
}

func lstart(bin string, args ...string) (*lproc, error) {
	cmd := exec.Command(bin, append([]string{"serve"}, args...)...)
	errb := &bytes.Buffer{}
	cmd.Stderr = errb
	cmd.Stdout = io.Discard
	if err := cmd.Start(); err != nil {
		return nil, err
	}
	p := &lproc{cmd: cmd, errb: errb, done: make(chan struct{})}
	go func() { _ = cmd.Wait(); close(p.done) }()
	return p, nil
}

func (p *lproc) exited() bool {
	select {
	case <-p.done:
		return true
	default:
		return false
	}
}

func (p *lproc) stop() {
	if !p.exited() {
		_ = p.cmd.Process.Signal(syscall.SIGTERM)
		select {
		case <-p.done:
		case <-time.After(10 * time.Second):
			_ = p.cmd.Process.Kill()
			<-p.done
		}
	}
}

// waitUp polls url until it answers (any status) or the process exits; ok=false, exited=true means "refused to start".
func (p *lproc) waitUp(c *http.Client, url string) (status int, ok bool) {
	for k := 0; k < 500; k++ {
		if p.exited() {
			return 0, false
		}
		rs, err := c.Get(url)
		if err == nil {
			_, _ = io.Copy(io.Discard, rs.Body)
			rs.Body.Close()
			// (an answer on that port while our own process has exited came from somebody else's server)
			time.Sleep(30 * time.Millisecond)
			if p.exited() {
				return 0, false
			}
			return rs.StatusCode, true
		}
		time.Sleep(10 * time.Millisecond)
	}
	return 0, false
}

func selfSigned(dir string) (cert, key string, err error) {
	k, err := ecdsa.GenerateKey(elliptic.P256(), crand.Reader)
	if err != nil {
		return "", "", err
	}
	tpl := x509.Certificate{SerialNumber: big.NewInt(1), Subject: pkix.Name{CommonName: "localhost"},
		NotBefore: time.Now().Add(-time.Hour), NotAfter: time.Now().Add(24 * time.Hour),
		KeyUsage: x509.KeyUsageDigitalSignature, ExtKeyUsage: []x509.ExtKeyUsage{x509.ExtKeyUsageServerAuth},
		IPAddresses: []net.IP{net.ParseIP("127.0.0.1")}, DNSNames: []string{"localhost"}}
	der, err := x509.CreateCertificate(crand.Reader, &tpl, &tpl, &k.PublicKey, k)
	if err != nil {
		return "", "", err
	}
	kb, err := x509.MarshalECPrivateKey(k)
	if err != nil {
		return "", "", err
	}
	cert, key = filepath.Join(dir, "host.pem"), filepath.Join(dir, "host.key")
	if err = os.WriteFile(cert, pem.EncodeToMemory(&pem.Block{Type: "CERTIFICATE", Bytes: der}), 0o600); err != nil {
		return
	}
	err = os.WriteFile(key, pem.EncodeToMemory(&pem.Block{Type: "EC PRIVATE KEY", Bytes: kb}), 0o600)
	return
}

var plainClient = &http.Client{Timeout: 5 * time.Second, Transport: &http.Transport{DisableKeepAlives: true}}
var tlsClient = &http.Client{Timeout: 5 * time.Second, Transport: &http.Transport{DisableKeepAlives: true, TLSClientConfig: &tls.Config{InsecureSkipVerify: true}}}

func listenTrial(r *vh.Run, bin string, i int) {
	kinds := []string{"bare-value-delete", "bare-value-push", "addr-ipv6", "addr-ipv6-bracketed", "tls", "tls-half-cert", "tls-half-key", "stalled-client", "help-examples", "options-star"}
	kind := kinds[i%len(kinds)]
	dir := r.TempDir("c19l")
	defer vh.RemoveAll(dir)
	port := freePort()
	wit := map[string]any{"trial": i, "kind": kind}
	base := []string{"--port", fmt.Sprint(port), "--store-type", []string{"mem", "dir"}[(i/len(kinds))%2], "--dir", dir, "--gc-frequency", "-1s"}
	v4 := fmt.Sprintf("http://127.0.0.1:%d", port)
	fail := func(sig, detail string, p *lproc) {
		if p != nil {
			e := p.errb.String()
			if len(e) > 1500 {
				e = e[len(e)-1500:]
			}
			wit["stderr"] = e
		}
		r.Violation(sig, detail, wit)
	}
	r.Distinct("cells", "listen/"+kind)
	switch kind {
	case "bare-value-delete", "bare-value-push":
		flag := map[string]string{"bare-value-delete": "--api-delete", "bare-value-push": "--api-push"}[kind]
		args := append([]string{"--addr", "127.0.0.1"}, base...)
		args = append(args, flag, "false")
		wit["args"] = strings.Join(args, " ")
		p, err := lstart(bin, args...)
		if err != nil {
			r.Inconclusive("listenTrial: " + err.Error())
			return
		}
		defer p.stop()
		_, up := p.waitUp(plainClient, v4+"/v2/")
		r.Count("listen_trials", 1)
		if !up {
			if p.exited() {
				r.Count("listen_command_line_refused", 1) // refused: nothing is switched behind the operator's back
				return
			}
			r.Inconclusive("listenTrial: server neither came up nor exited")
			return
		}
		var rq *http.Request
		if kind == "bare-value-delete" {
			rq, _ = http.NewRequest("DELETE", v4+"/v2/x/manifests/t", nil)
		} else {
			rq, _ = http.NewRequest("POST", v4+"/v2/x/blobs/uploads/", nil)
		}
		rs, err := plainClient.Do(rq)
		if err != nil {
			r.Inconclusive("listenTrial: probe failed: " + err.Error())
			return
		}
		b, _ := io.ReadAll(rs.Body)
		rs.Body.Close()
		wit["probe_status"] = rs.StatusCode
		if !vh.RefusedByConfig(vh.Resp{Status: rs.StatusCode, H: rs.Header, Body: b}) {
			fail("flags:bare-boolean-value", fmt.Sprintf("`serve ... %s false` was accepted and the server runs with that API enabled (probe answered %d): the word after the flag was dropped without a message", flag, rs.StatusCode), p)
		}
	case "addr-ipv6", "addr-ipv6-bracketed":
		if l, err := net.Listen("tcp", "[::1]:0"); err != nil {
			r.Count("listen_no_ipv6_loopback", 1)
			return
		} else {
			l.Close()
		}
		addr := map[string]string{"addr-ipv6": "::1", "addr-ipv6-bracketed": "[::1]"}[kind]
		args := append([]string{"--addr", addr}, base...)
		wit["args"] = strings.Join(args, " ")
		p, err := lstart(bin, args...)
		if err != nil {
			r.Inconclusive("listenTrial: " + err.Error())
			return
		}
		defer p.stop()
		st, up := p.waitUp(plainClient, fmt.Sprintf("http://[::1]:%d/v2/", port))
		r.Count("listen_trials", 1)
		if !up || st != 200 {
			fail("flags:addr-ipv6-literal", fmt.Sprintf("`serve --addr %s --port %d` does not serve on [::1]:%d (came up: %v, exited: %v, status %d)", addr, port, port, up, p.exited(), st), p)
			return
		}
		// ... and only there: the IPv4 loopback is another address
		if rs, err := plainClient.Get(v4 + "/v2/"); err == nil {
			rs.Body.Close()
			fail("flags:addr-not-honoured", fmt.Sprintf("`serve --addr %s` also answers on 127.0.0.1:%d", addr, port), p)
		}
	case "tls", "tls-half-cert", "tls-half-key":
		cert, key, err := selfSigned(dir)
		if err != nil {
			r.Inconclusive("listenTrial: cannot make a certificate: " + err.Error())
			return
		}
		args := append([]string{"--addr", "127.0.0.1"}, base...)
		switch kind {
		case "tls":
			args = append(args, "--tls-cert", cert, "--tls-key", key)
		case "tls-half-cert":
			args = append(args, "--tls-cert", cert)
		case "tls-half-key":
			args = append(args, "--tls-key", key)
		}
		wit["args"] = strings.Join(args, " ")
		p, err := lstart(bin, args...)
		if err != nil {
			r.Inconclusive("listenTrial: " + err.Error())
			return
		}
		defer p.stop()
		r.Count("listen_trials", 1)
		if kind == "tls" {
			st, up := p.waitUp(tlsClient, fmt.Sprintf("https://127.0.0.1:%d/v2/", port))
			if !up || st != 200 {
				fail("flags:tls", fmt.Sprintf("`serve --tls-cert --tls-key` does not serve HTTPS (came up: %v, exited: %v, status %d)", up, p.exited(), st), p)
				return
			}
			if rs, err := plainClient.Get(v4 + "/v2/"); err == nil {
				st := rs.StatusCode
				rs.Body.Close()
				if st == 200 {
					fail("flags:tls-serves-plaintext", "a server started with --tls-cert and --tls-key answers plain HTTP with 200", p)
				}
			}
			return
		}
		// half a TLS configuration: wait until the process has made up its mind
		st, up := p.waitUp(plainClient, v4+"/v2/")
		if up && st == 200 {
			fail("flags:tls-half-configured-serves-plaintext", fmt.Sprintf("`serve %s` (the other half of the TLS pair missing) starts without a word and serves plain HTTP on the port", strings.Join(args[len(args)-2:len(args)-1], " ")), p)
			return
		}
		if !up && p.exited() {
			r.Count("listen_command_line_refused", 1)
		}
	case "help-examples":
		// the command's own documentation: every example line of `olareg serve --help` starts a server (address, port and
		// directory are appended - a later flag overrides an earlier one - the files an example names are provided)
		out, err := exec.Command(bin, "serve", "--help").CombinedOutput()
		if err != nil {
			r.Inconclusive("listenTrial: serve --help failed: " + err.Error())
			return
		}
		cert, key, err := selfSigned(dir)
		if err != nil {
			r.Inconclusive("listenTrial: cannot make a certificate: " + err.Error())
			return
		}
		_ = os.Rename(cert, filepath.Join(dir, "host.pem"))
		_ = os.Rename(key, filepath.Join(dir, "host.key"))
		_ = os.MkdirAll(filepath.Join(dir, "mirror"), 0o755)
		nex := 0
		for _, line := range strings.Split(string(out), "\n") {
			line = strings.TrimSpace(line)
			if !strings.HasPrefix(line, "olareg serve") || strings.Contains(line, "[flags]") {
				continue // (the usage line is no example)
			}
			nex++
			ex := strings.Fields(strings.TrimPrefix(line, "olareg serve"))
			p2 := freePort()
			args := append(append([]string{}, ex...), "--addr", "127.0.0.1", "--port", fmt.Sprint(p2))
			cmd := exec.Command(bin, append([]string{"serve"}, args...)...)
			cmd.Dir = dir
			errb := &bytes.Buffer{}
			cmd.Stderr, cmd.Stdout = errb, io.Discard
			if err := cmd.Start(); err != nil {
				continue
			}
			lp := &lproc{cmd: cmd, errb: errb, done: make(chan struct{})}
			go func() { _ = cmd.Wait(); close(lp.done) }()
			cl, scheme := plainClient, "http"
			if strings.Contains(line, "--tls-cert") {
				cl, scheme = tlsClient, "https"
			}
			st, up := lp.waitUp(cl, fmt.Sprintf("%s://127.0.0.1:%d/v2/", scheme, p2))
			r.Count("help_examples_run", 1)
			if !up || st != 200 {
				wit["example"] = line
				fail("flags:documented-example-does-not-start", fmt.Sprintf("the example `%s` from `olareg serve --help` does not start a server (came up: %v, exited: %v, status %d): %.200s", line, up, lp.exited(), st, strings.TrimSpace(errb.String())), lp)
			}
			lp.stop()
		}
		r.Count("listen_trials", 1)
		if nex == 0 {
			r.Inconclusive("listenTrial: no example lines found in serve --help")
		}
	case "options-star":
		// `OPTIONS *` is a request like any other: it counts against the rate limit and carries the configured warning
		args := append([]string{"--addr", "127.0.0.1"}, base...)
		args = append(args, "--rate-limit", "2", "--warning", "be warned")
		wit["args"] = strings.Join(args, " ")
		p, err := lstart(bin, args...)
		if err != nil {
			r.Inconclusive("listenTrial: " + err.Error())
			return
		}
		defer p.stop()
		if _, up := p.waitUp(plainClient, v4+"/v2/"); !up {
			r.Inconclusive("listenTrial: server did not come up")
			return
		}
		time.Sleep(1100 * time.Millisecond) // a fresh accounting second for this address
		conn, err := net.Dial("tcp", fmt.Sprintf("127.0.0.1:%d", port))
		if err != nil {
			r.Inconclusive("listenTrial: dial: " + err.Error())
			return
		}
		defer conn.Close()
		t0 := time.Now()
		br := bufio.NewReader(conn)
		served, unwarned := 0, 0
		const n = 8
		for k := 0; k < n; k++ {
			fmt.Fprintf(conn, "OPTIONS * HTTP/1.1\r\nHost: 127.0.0.1\r\n\r\n")
			rs, err := http.ReadResponse(br, nil)
			if err != nil {
				break
			}
			_, _ = io.Copy(io.Discard, rs.Body)
			rs.Body.Close()
			if rs.StatusCode != 429 {
				served++
			}
			if rs.Header.Get("Warning") == "" {
				unwarned++
			}
		}
		el := time.Since(t0)
		r.Count("listen_trials", 1)
		wit["served"], wit["without_warning"], wit["elapsed"] = served, unwarned, el.String()
		if el < 900*time.Millisecond && served > 2 {
			fail("ratelimit:options-star-not-counted", fmt.Sprintf("--rate-limit 2: %d of %d `OPTIONS *` requests sent by one address within %s were served (not answered 429)", served, n, el.Round(time.Millisecond)), p)
		} else if unwarned > 0 {
			fail("warning:missing-on-options-star", fmt.Sprintf("--warning set: %d of %d answers to `OPTIONS *` carry no Warning header", unwarned, n), p)
		}
	case "stalled-client":
		args := append([]string{"--addr", "127.0.0.1"}, base...)
		wit["args"] = strings.Join(args, " ")
		p, err := lstart(bin, args...)
		if err != nil {
			r.Inconclusive("listenTrial: " + err.Error())
			return
		}
		defer p.stop()
		if _, up := p.waitUp(plainClient, v4+"/v2/"); !up {
			r.Inconclusive("listenTrial: server did not come up")
			return
		}
		// an acknowledged blob, then a session and a PATCH that announces 1000 bytes and sends 5
		blob := []byte(fmt.Sprintf("acknowledged before the signal %d", i))
		bd := vh.DigestOf("sha256", blob)
		rq, _ := http.NewRequest("POST", v4+"/v2/s/blobs/uploads/?digest="+bd, bytes.NewReader(blob))
		rs, err := plainClient.Do(rq)
		if err != nil || rs.StatusCode != 201 {
			r.Inconclusive("listenTrial: blob not acknowledged")
			return
		}
		rs.Body.Close()
		rq, _ = http.NewRequest("POST", v4+"/v2/s/blobs/uploads/", nil)
		rs, err = plainClient.Do(rq)
		if err != nil || rs.StatusCode != 202 {
			r.Inconclusive("listenTrial: no session")
			return
		}
		loc := rs.Header.Get("Location")
		rs.Body.Close()
		if strings.HasPrefix(loc, "http") {
			loc = loc[strings.Index(loc[8:], "/")+8:]
		}
		conn, err := net.Dial("tcp", fmt.Sprintf("127.0.0.1:%d", port))
		if err != nil {
			r.Inconclusive("listenTrial: dial: " + err.Error())
			return
		}
		defer conn.Close()
		fmt.Fprintf(conn, "PATCH %s HTTP/1.1\r\nHost: 127.0.0.1\r\nContent-Type: application/octet-stream\r\nContent-Length: 1000\r\n\r\nhello", loc)
		// a second client of the same kind whose request HOLDS its repository while the body is awaited (a manifest PUT):
		// closing the store waits for such a request, so it has to be cut off first
		if conn2, err := net.Dial("tcp", fmt.Sprintf("127.0.0.1:%d", port)); err == nil {
			defer conn2.Close()
			fmt.Fprintf(conn2, "PUT /v2/s/manifests/stalled HTTP/1.1\r\nHost: 127.0.0.1\r\nContent-Type: application/vnd.oci.image.manifest.v1+json\r\nContent-Length: 500\r\n\r\n{\"schemaVersion\":2,")
			r.Count("stalled_client_manifest_puts", 1)
		}
		time.Sleep(150 * time.Millisecond) // the handler is reading the body by now (or will be: the bound below is generous either way)
		_ = p.cmd.Process.Signal(syscall.SIGTERM)
		r.Count("listen_trials", 1)
		r.Count("stalled_client_signals", 1)
		// The bound: generous for a shutdown (an idle server exits in milliseconds), independent of the client, which
		// never finishes.  A process that is still there after it waits for the client - for ever.
		const bound = 45 * time.Second
		t0 := time.Now()
		select {
		case <-p.done:
			wit["exit_after"] = time.Since(t0).Round(time.Millisecond).String()
			r.Count("stalled_client_exits", 1)
		case <-time.After(bound):
			conn.Close() // now the client goes away: does the process end at least then?
			late := false
			select {
			case <-p.done:
				late = true
			case <-time.After(10 * time.Second):
			}
			wit["exits_once_the_client_is_gone"] = late
			fail("sigterm:waits-for-a-client-that-never-finishes", fmt.Sprintf("SIGTERM while two clients hold requests open (a PATCH that announced 1000 bytes and sent 5, a manifest PUT that announced 500 and sent 19): the process is still running %s later - it ends only when that client goes away (it did then: %v)", bound, late), p)
			return
		}
		// storage intact: no upload file of the cut-off session is left, a new process serves the acknowledged blob
		// (directory store only)
		if (i/len(kinds))%2 == 1 {
			if left, _ := filepath.Glob(filepath.Join(dir, "s", "_uploads", "*")); len(left) > 0 {
				fail("sigterm:upload-file-left", fmt.Sprintf("after SIGTERM with a stalled client the process has ended and left %d upload file(s) behind", len(left)), p)
			}
			q, err := lstart(bin, append([]string{"--addr", "127.0.0.1"}, base...)...)
			if err == nil {
				defer q.stop()
				if _, up := q.waitUp(plainClient, v4+"/v2/"); up {
					rs, err := plainClient.Get(v4 + "/v2/s/blobs/" + bd)
					if err == nil {
						b, _ := io.ReadAll(rs.Body)
						rs.Body.Close()
						if rs.StatusCode != 200 || !bytes.Equal(b, blob) {
							fail("sigterm:acknowledged-blob-lost", fmt.Sprintf("after SIGTERM with a stalled client and a restart the acknowledged blob answers %d", rs.StatusCode), q)
						}
						r.Count("stalled_client_readbacks", 1)
					}
				}
			}
		}
	}
}

// convertedOffTrial: the referrers switch on a directory that a registry with the API ON has written (its index.json is
// marked as converted).  Turned OFF, a store that cannot write serves the directory like before (C14 decides that); a
// writable directory store may refuse to work on it - "this repo should not be writable" says the code - but whatever
// it does, it does it consistently: a push that is acknowledged with 201 is readable afterwards (now and after a
// restart), a push that is refused leaves nothing behind, and the same read gets the same answer twice.
func convertedOffTrial(r *vh.Run, i int) {
	root := r.TempDir("c19o")
	defer vh.RemoveAll(root)
	wit := map[string]any{"trial": i}
	if i%2 == 1 {
		// the plain case: a fresh directory served with the referrers API off from the first request on - which is a read
		// of a repository that does not exist yet.  Everything but the referrers API works, now and after a restart.
		c := vh.Conf(vh.Dir, root, vh.Neutral)
		c.API.Referrer.Enabled = vh.BP(false)
		srv := vh.New(c)
		hd := func(h http.Handler, tag string) int {
			return vh.Do(h, vh.Req{Method: "HEAD", URL: "/v2/f/manifests/" + tag, H: map[string]string{"Accept": vh.AcceptAll}}).Status
		}
		cfg := []byte(fmt.Sprintf(`{"f":%d}`, i))
		cb := &vh.Blob{Name: "cfg", B: cfg, D: vh.DigestOf("sha256", cfg)}
		mk := func(n string) *vh.Man {
			return vh.MkImage(n, "sha256", vh.MTImage, cb, vh.MTConfig, nil, "", "", map[string]string{"n": n, "i": fmt.Sprint(i)})
		}
		put := func(h http.Handler, m *vh.Man, tag string) int {
			return vh.Do(h, vh.Req{Method: "PUT", URL: "/v2/f/manifests/" + tag, H: map[string]string{"Content-Type": m.MT}, Body: m.Raw}).Status
		}
		var steps []string
		step := func(name string, got, want int) bool {
			steps = append(steps, fmt.Sprintf("%s=%d", name, got))
			if got != want {
				wit["steps"] = steps
				r.Violation("switch:referrers-off:fresh-directory", fmt.Sprintf("fresh directory store with the referrers API off: %s answered %d, expected %d (steps so far: %v)", name, got, want, steps), wit)
				return false
			}
			return true
		}
		r.Count("converted_off_trials", 1)
		r.Distinct("cells", "referrers-off-fresh")
		ok := step("HEAD v1 before anything exists", hd(srv, "v1"), 404) &&
			step("POST blob", vh.Do(srv, vh.Req{Method: "POST", URL: "/v2/f/blobs/uploads/?digest=" + cb.D, Body: cfg}).Status, 201) &&
			step("PUT v1", put(srv, mk("v1"), "v1"), 201) &&
			step("HEAD v1", hd(srv, "v1"), 200)
		_ = srv.Close()
		if !ok {
			return
		}
		srv2 := vh.New(c)
		tl := vh.Do(srv2, vh.Req{Method: "GET", URL: "/v2/f/tags/list"})
		_ = step("tags/list after restart", tl.Status, 200) &&
			step("HEAD v1 after restart", hd(srv2, "v1"), 200) &&
			step("PUT v2 after restart", put(srv2, mk("v2"), "v2"), 201) &&
			step("HEAD v2", hd(srv2, "v2"), 200)
		_ = srv2.Close()
		return
	}
	pc := vh.Conf(vh.Dir, root, vh.Neutral)
	psrv := vh.New(pc)
	cfg := []byte(fmt.Sprintf(`{"o":%d}`, i))
	cb := &vh.Blob{Name: "cfg", B: cfg, D: vh.DigestOf("sha256", cfg)}
	vh.Do(psrv, vh.Req{Method: "POST", URL: "/v2/o/blobs/uploads/?digest=" + cb.D, Body: cfg})
	v1 := vh.MkImage("v1", "sha256", vh.MTImage, cb, vh.MTConfig, nil, "", "", map[string]string{"n": "v1", "i": fmt.Sprint(i)})
	v2 := vh.MkImage("v2", "sha256", vh.MTImage, cb, vh.MTConfig, nil, "", "", map[string]string{"n": "v2", "i": fmt.Sprint(i)})
	if st := vh.Do(psrv, vh.Req{Method: "PUT", URL: "/v2/o/manifests/v1", H: map[string]string{"Content-Type": v1.MT}, Body: v1.Raw}).Status; st != 201 {
		r.Inconclusive("convertedOffTrial: setup refused")
		return
	}
	_ = psrv.Close()
	c := vh.Conf(vh.Dir, root, vh.Neutral)
	c.API.Referrer.Enabled = vh.BP(false)
	srv := vh.New(c)
	head := func(h http.Handler, tag string) int {
		return vh.Do(h, vh.Req{Method: "HEAD", URL: "/v2/o/manifests/" + tag, H: map[string]string{"Accept": vh.AcceptAll}}).Status
	}
	r.Count("converted_off_trials", 1)
	r.Distinct("cells", "converted-off")
	a, b := head(srv, "v1"), head(srv, "v1")
	wit["v1_first"], wit["v1_second"] = a, b
	if a != b {
		r.Violation("switch:referrers-off-on-converted-directory:read-flaps", fmt.Sprintf("directory written with the referrers API on, reopened with it off: HEAD of tag v1 answers %d, the same request again %d", a, b), wit)
		_ = srv.Close()
		return
	}
	ps := vh.Do(srv, vh.Req{Method: "PUT", URL: "/v2/o/manifests/v2", H: map[string]string{"Content-Type": v2.MT}, Body: v2.Raw}).Status
	g := head(srv, "v2")
	tl := string(vh.Do(srv, vh.Req{Method: "GET", URL: "/v2/o/tags/list"}).Body)
	_ = srv.Close()
	srv2 := vh.New(c)
	g2 := head(srv2, "v2")
	_ = srv2.Close()
	wit["put_v2"], wit["head_v2"], wit["head_v2_after_restart"], wit["tags"] = ps, g, g2, tl
	switch {
	case ps == 201 && (g != 200 || g2 != 200 || !strings.Contains(tl, `"v2"`)):
		r.Violation("switch:referrers-off-on-converted-directory:acknowledged-push-unreadable", fmt.Sprintf("directory written with the referrers API on, reopened (writable) with it off: PUT of tag v2 is acknowledged with 201; HEAD of the tag answers %d, after a restart %d, the listing is %s", g, g2, strings.TrimSpace(tl)), wit)
	case ps != 201 && (g == 200 || g2 == 200):
		r.Violation("switch:referrers-off-on-converted-directory:refused-push-took-effect", fmt.Sprintf("PUT of tag v2 answered %d, yet the tag resolves (%d, after a restart %d)", ps, g, g2), wit)
	}
}
