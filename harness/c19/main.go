// C19: every setting has its documented effect, for every combination.
//
//	(a) Config.SetDefaults on generated configurations: explicitly set fields keep their value, unset fields get the
//	    documented defaults, the operation is idempotent.
//	(b) in-process behaviour table for all 32 combinations of read-only / push / delete / blob delete / referrers on
//	    the directory and the memory store: each switch changes exactly its own requests.
//	(c) the built binary (`olareg serve`, built by the driver from /repo): flag combinations on a loopback port; the
//	    same table through real HTTP proves the flag -> field wiring; --warning values appear verbatim on every
//	    response; --store-type and --dir are honoured.
//	(d) rate limit L: for a fresh client address, among the requests that returned within one second of the moment
//	    the first one was sent, exactly min(L, count) are served and the rest are 429 with Retry-After; another
//	    address interleaved is never refused; after the window has certainly passed the address is served again.
//	(e) SIGTERM at seeded moments of a push workload: the process terminates by itself, the directory is a valid
//	    layout and every push acknowledged before the signal is served by a new process.
package main

import (
	"bytes"
	"context"
	"encoding/json"
	"errors"
	"fmt"
	"io"
	"math/rand"
	"net"
	"net/http"
	"os"
	"os/exec"
	"path/filepath"
	"reflect"
	"strings"
	"sync"
	"sync/atomic"
	"syscall"
	"time"

	"github.com/olareg/olareg/config"
	"github.com/olareg/olareg/internal/verif/vh"
)

// ---------------------------------------------------------------- (a)

func defaultsTrial(r *vh.Run, i int) {
	rng := r.Rand(i)
	pb := func() *bool {
		switch rng.Intn(3) {
		case 0:
			return nil
		case 1:
			return vh.BP(true)
		}
		return vh.BP(false)
	}
	pick := func(vals ...int64) int64 { return vals[rng.Intn(len(vals))] }
	c := config.Config{}
	c.API.DeleteEnabled, c.API.PushEnabled, c.API.Blob.DeleteEnabled, c.API.Referrer.Enabled = pb(), pb(), pb(), pb()
	c.Storage.ReadOnly = pb()
	c.Storage.GC.Untagged, c.Storage.GC.EmptyRepo, c.Storage.GC.ReferrersDangling, c.Storage.GC.ReferrersWithSubj = pb(), pb(), pb(), pb()
	c.API.Manifest.Limit = pick(0, 1, 1234, -5, 1<<40)
	c.API.Referrer.PageCacheExpire = time.Duration(pick(0, 1, int64(time.Second), -1))
	c.API.Referrer.PageCacheLimit = int(pick(0, 1, 7, -1))
	c.API.Referrer.Limit = pick(0, 1, 512, -1)
	c.API.RateLimit = int(pick(0, 3))
	c.API.Warnings = [][]string{nil, {"w"}}[rng.Intn(2)]
	c.Storage.StoreType = []config.Store{config.StoreMem, config.StoreDir, config.StoreUndef}[rng.Intn(3)]
	c.Storage.RootDir = []string{"", "/some/dir", "rel"}[rng.Intn(3)]
	c.Storage.GC.Frequency = time.Duration(pick(0, -1, int64(time.Millisecond), int64(time.Hour)))
	c.Storage.GC.GracePeriod = time.Duration(pick(0, -1, int64(time.Millisecond), int64(2*time.Hour)))
	c.Storage.GC.RepoUploadMax = int(pick(0, -1, 1, 5000))
	c.HTTP.Addr = []string{"", ":5000"}[rng.Intn(2)]
	orig := c
	c.SetDefaults()
	wit := map[string]any{"trial": i, "input": fmt.Sprintf("%+v", describe(orig)), "output": fmt.Sprintf("%+v", describe(c))}
	bad := func(field, detail string) {
		r.Violation("defaults:"+field, fmt.Sprintf("SetDefaults: %s: %s", field, detail), wit)
	}
	chkB := func(field string, in, out *bool, def bool) {
		switch {
		case out == nil:
			bad(field, "left unset")
		case in != nil && *out != *in:
			bad(field, fmt.Sprintf("explicitly set to %v, overridden to %v", *in, *out))
		case in == nil && *out != def:
			bad(field, fmt.Sprintf("unset, documented default %v, got %v", def, *out))
		}
	}
	chkB("API.DeleteEnabled", orig.API.DeleteEnabled, c.API.DeleteEnabled, false)
	chkB("API.PushEnabled", orig.API.PushEnabled, c.API.PushEnabled, true)
	chkB("API.Blob.DeleteEnabled", orig.API.Blob.DeleteEnabled, c.API.Blob.DeleteEnabled, false)
	chkB("API.Referrer.Enabled", orig.API.Referrer.Enabled, c.API.Referrer.Enabled, true)
	chkB("Storage.ReadOnly", orig.Storage.ReadOnly, c.Storage.ReadOnly, false)
	chkB("GC.Untagged", orig.Storage.GC.Untagged, c.Storage.GC.Untagged, false)
	chkB("GC.EmptyRepo", orig.Storage.GC.EmptyRepo, c.Storage.GC.EmptyRepo, true)
	chkB("GC.ReferrersDangling", orig.Storage.GC.ReferrersDangling, c.Storage.GC.ReferrersDangling, false)
	chkB("GC.ReferrersWithSubj", orig.Storage.GC.ReferrersWithSubj, c.Storage.GC.ReferrersWithSubj, true)
	chkN := func(field string, in, out, def int64, unsetIsNonPositive bool) {
		unset := in == 0 || (unsetIsNonPositive && in < 0)
		if unset && out != def {
			bad(field, fmt.Sprintf("unset (%d), documented default %d, got %d", in, def, out))
		}
		if !unset && out != in {
			bad(field, fmt.Sprintf("explicitly set to %d, overridden to %d", in, out))
		}
	}
	chkN("API.Manifest.Limit", orig.API.Manifest.Limit, c.API.Manifest.Limit, 8*1024*1024, true)
	chkN("API.Referrer.PageCacheExpire", int64(orig.API.Referrer.PageCacheExpire), int64(c.API.Referrer.PageCacheExpire), int64(5*time.Minute), false)
	chkN("API.Referrer.PageCacheLimit", int64(orig.API.Referrer.PageCacheLimit), int64(c.API.Referrer.PageCacheLimit), 1000, false)
	chkN("API.Referrer.Limit", orig.API.Referrer.Limit, c.API.Referrer.Limit, 4*1024*1024, false)
	chkN("GC.Frequency", int64(orig.Storage.GC.Frequency), int64(c.Storage.GC.Frequency), int64(15*time.Minute), false)
	chkN("GC.GracePeriod", int64(orig.Storage.GC.GracePeriod), int64(c.Storage.GC.GracePeriod), int64(time.Hour), false)
	chkN("GC.RepoUploadMax", int64(orig.Storage.GC.RepoUploadMax), int64(c.Storage.GC.RepoUploadMax), 1000, false)
	if c.API.RateLimit != orig.API.RateLimit || c.Storage.StoreType != orig.Storage.StoreType || c.HTTP.Addr != orig.HTTP.Addr || !reflect.DeepEqual(c.API.Warnings, orig.API.Warnings) {
		bad("untouched-fields", "RateLimit / StoreType / Addr / Warnings changed")
	}
	wantDir := orig.Storage.RootDir
	if orig.Storage.StoreType == config.StoreDir && wantDir == "" {
		wantDir = "."
	}
	if c.Storage.RootDir != wantDir {
		bad("Storage.RootDir", fmt.Sprintf("%q -> %q, expected %q", orig.Storage.RootDir, c.Storage.RootDir, wantDir))
	}
	again := c
	again.SetDefaults()
	if describe(again) != describe(c) {
		bad("idempotent", "a second SetDefaults changed the configuration")
	}
	if i < 2 {
		r.Sample(map[string]any{"part": "defaults", "input": describe(orig), "output": describe(c)})
	}
	r.Count("default_trials", 1)
	r.Distinct("cells", "defaults/"+fmt.Sprint(orig.API.PushEnabled == nil, orig.Storage.GC.EmptyRepo == nil, orig.Storage.GC.Frequency, orig.Storage.StoreType))
}

func describe(c config.Config) string {
	b := func(p *bool) string {
		if p == nil {
			return "nil"
		}
		return fmt.Sprint(*p)
	}
	return fmt.Sprintf("push=%s delete=%s blobdel=%s referrers=%s ro=%s untagged=%s empty=%s dangling=%s withsubj=%s mlimit=%d pce=%v pcl=%d rlimit=%d rate=%d store=%d dir=%q freq=%v grace=%v max=%d addr=%q warn=%v",
		b(c.API.PushEnabled), b(c.API.DeleteEnabled), b(c.API.Blob.DeleteEnabled), b(c.API.Referrer.Enabled), b(c.Storage.ReadOnly), b(c.Storage.GC.Untagged), b(c.Storage.GC.EmptyRepo),
		b(c.Storage.GC.ReferrersDangling), b(c.Storage.GC.ReferrersWithSubj), c.API.Manifest.Limit, c.API.Referrer.PageCacheExpire, c.API.Referrer.PageCacheLimit, c.API.Referrer.Limit, c.API.RateLimit,
		c.Storage.StoreType, c.Storage.RootDir, c.Storage.GC.Frequency, c.Storage.GC.GracePeriod, c.Storage.GC.RepoUploadMax, c.HTTP.Addr, c.API.Warnings)
}

// ---------------------------------------------------------------- (b)

func judgeProbe(r *vh.Run, where string, s vh.Switches, p vh.SwitchProbe, status int, body []byte, wit map[string]any) bool {
	refused := status == 405 || status == 403 || (p.Name == "referrers-get" && status == 404)
	if codes, ok := vh.ErrCodes(body); ok {
		for _, c := range codes {
			if c == "DENIED" || c == "UNSUPPORTED" {
				refused = true
			}
		}
	}
	wit["probe"], wit["status"] = p.Name, status
	r.Count("switch_probes", 1)
	r.Distinct("cells", fmt.Sprintf("%s/%s/%v", where, p.Name, p.Allowed))
	switch {
	case status >= 500:
		r.Violation("switch:5xx:"+p.Name, fmt.Sprintf("%s: %s with %s answered %d", where, p.Name, s, status), wit)
	case !p.Allowed && (status < 400 || status >= 500):
		r.Violation("switch:not-refused:"+p.Name, fmt.Sprintf("%s: %s is not permitted with %s but was answered %d", where, p.Name, s, status), wit)
	case p.Allowed && refused:
		r.Violation("switch:refused:"+p.Name, fmt.Sprintf("%s: %s is permitted with %s but was refused with %d", where, p.Name, s, status), wit)
	default:
		return true
	}
	return false
}

func inprocTable(r *vh.Run, i int) {
	rng := r.Rand(6_000_000 + i)
	all := vh.AllSwitches()
	s := all[i%len(all)]
	kind := []vh.StoreKind{vh.Dir, vh.Mem}[(i/len(all))%2]
	root := ""
	u := vh.GenUniverse(rng, vh.UOpts{Tag: fmt.Sprint("t", i)})
	wit := map[string]any{"trial": i, "store": kind.String(), "switches": s.String()}
	c := vh.Conf(kind, "", vh.Neutral)
	var w *vh.World
	if kind == vh.Dir {
		root = r.TempDir("c19")
		defer vh.RemoveAll(root)
		pc := vh.Conf(vh.Dir, root, vh.Neutral)
		vh.Switches{Push: true, Delete: true, BlobDelete: true, Referrers: s.Referrers}.Apply(&pc)
		psrv := vh.New(pc)
		w = vh.NewWorld(r, psrv, u, kind, "r")
		for _, b := range u.Blobs {
			w.PushBlob("r", b)
		}
		extra := &vh.Blob{Name: "plain", B: []byte(fmt.Sprint("plain blob ", i))}
		extra.D = vh.DigestOf("sha256", extra.B)
		w.PushBlob("r", extra)
		for _, mm := range u.Mans {
			if (s.Referrers || mm.Subject == "") && w.Repos["r"].ValidRefs(mm) {
				w.PutManifest("r", mm, u.Tags[rng.Intn(len(u.Tags))])
			}
		}
		_ = psrv.Close()
		c = vh.Conf(vh.Dir, root, vh.Neutral)
	}
	s.Apply(&c)
	srv := vh.New(c)
	defer srv.Close()
	if w == nil {
		w = vh.NewWorld(r, srv, u, kind, "r")
	}
	w.H = srv
	for _, p := range vh.SwitchTable(w, "r", s, rng, fmt.Sprint(i)) {
		rs := w.Do(p.Req)
		if !judgeProbe(r, "in-process "+kind.String(), s, p, rs.Status, rs.Body, wit) {
			return
		}
		// every answer carries the API version header
		if rs.H.Get("Docker-Distribution-API-Version") != "registry/2.0" {
			r.Violation("header:api-version", fmt.Sprintf("%s answered without Docker-Distribution-API-Version", p.Name), wit)
			return
		}
	}
	if !s.Referrers && s.Push && !s.ReadOnly {
		// with the referrers API off a manifest with a subject is an ordinary manifest: no OCI-Subject on the answer,
		// no referrers bookkeeping in the layout, /referrers/ stays unavailable
		m := w.Repos["r"]
		var cfg *vh.Blob
		_ = m
		cfg = u.Blobs[0]
		w.PushBlob("r", cfg) // (the table may have removed content; an upload of stored content is acknowledged as well)
		subj := vh.DigestOf("sha256", []byte(fmt.Sprint("subject", i)))
		img := vh.MkImage("ai", "sha256", vh.MTImage, cfg, vh.MTConfig, nil, subj, "application/x.a", map[string]string{"i": fmt.Sprint(i)})
		idx := vh.MkIndex("ax", "sha256", vh.MTIndex, nil, subj, "application/x.a", map[string]string{"i": fmt.Sprint(i)})
		for _, a := range []*vh.Man{img, idx} {
			rs := w.Do(vh.Req{Method: "PUT", URL: "/v2/r/manifests/" + a.D, H: map[string]string{"Content-Type": a.MT}, Body: a.Raw})
			wit["probe"] = "artifact-push-with-referrers-off"
			if rs.Status != 201 {
				wit["answer"] = string(rs.Body)
				wit["config"] = cfg.D
				r.Violation("switch:refused:artifact-push", fmt.Sprintf("with the referrers API off a manifest with a subject was answered %d", rs.Status), wit)
				return
			}
			if rs.H.Get("OCI-Subject") != "" {
				r.Violation("referrers-off:oci-subject", fmt.Sprintf("with the referrers API off the push of a %s with a subject is answered with OCI-Subject", a.MT), wit)
				return
			}
		}
		if g := w.Do(vh.Req{Method: "GET", URL: "/v2/r/referrers/" + subj}); g.Status != 404 {
			r.Violation("switch:not-refused:referrers-get", fmt.Sprintf("with the referrers API off GET referrers answered %d", g.Status), wit)
			return
		}
		if kind == vh.Dir {
			if b, err := os.ReadFile(filepath.Join(root, "r", "index.json")); err == nil && strings.Contains(string(b), "org.olareg.referrer.subject") {
				r.Violation("referrers-off:layout", "with the referrers API off index.json gained a referrers answer entry", wit)
				return
			}
		}
		r.Count("referrers_off_artifact_checks", 1)
	}
	r.Count("inproc_table_trials", 1)
}

// ---------------------------------------------------------------- (c) (e): the binary

var (
	portMu   sync.Mutex
	portSeen = map[int]bool{}
)

// freePort returns a port that is free now and that this process has not handed out before (trials run side by side:
// the kernel gives the same free port to two callers until one of them binds it).
func freePort() int {
	for k := 0; k < 50; k++ {
		l, err := net.Listen("tcp", "127.0.0.1:0")
		if err != nil {
			return 0
		}
		port := l.Addr().(*net.TCPAddr).Port
		l.Close()
		portMu.Lock()
		dup := portSeen[port]
		portSeen[port] = true
		portMu.Unlock()
		if !dup {
			return port
		}
	}
	return 0
}

type proc struct {
	cmd  *exec.Cmd
	port int
	errb *bytes.Buffer
	done chan struct{}
}

var client = &http.Client{Timeout: 20 * time.Second, Transport: &http.Transport{DisableKeepAlives: true}}

func (p *proc) req(method, path string, hdr map[string]string, body []byte) (int, http.Header, []byte, error) {
	var rd io.Reader
	if body != nil {
		rd = bytes.NewReader(body)
	}
	rq, err := http.NewRequest(method, fmt.Sprintf("http://127.0.0.1:%d%s", p.port, path), rd)
	if err != nil {
		return 0, nil, nil, err
	}
	for k, v := range hdr {
		rq.Header.Set(k, v)
	}
	rs, err := client.Do(rq)
	if err != nil {
		return 0, nil, nil, err
	}
	defer rs.Body.Close()
	b, _ := io.ReadAll(rs.Body)
	return rs.StatusCode, rs.Header, b, nil
}

func launch(bin string, args ...string) (*proc, error) {
	for attempt := 0; attempt < 5; attempt++ {
		port := freePort()
		cmd := exec.Command(bin, append([]string{"serve", "--addr", "127.0.0.1", "--port", fmt.Sprint(port)}, args...)...)
		errb := &bytes.Buffer{}
		cmd.Stderr = errb
		cmd.Stdout = io.Discard
		if err := cmd.Start(); err != nil {
			return nil, err
		}
		p := &proc{cmd: cmd, port: port, errb: errb, done: make(chan struct{})}
		go func() { _ = cmd.Wait(); close(p.done) }()
		up := false
		for k := 0; k < 400 && !up; k++ {
			select {
			case <-p.done:
				k = 400
			default:
			}
			if st, _, _, err := p.req("GET", "/v2/", nil, nil); err == nil && st == 200 {
				up = true
			} else {
				time.Sleep(10 * time.Millisecond)
			}
		}
		if up {
			// the answer may have come from ANOTHER server: two launches that run side by side can be handed the same
			// free port, one process binds it, the other exits with "address already in use" - and both see /v2/
			// answered.  A process that has exited is not the one that answered.
			time.Sleep(30 * time.Millisecond)
			select {
			case <-p.done:
				up = false
			default:
				return p, nil
			}
		}
		exited := false
		select {
		case <-p.done:
			exited = true
		default:
		}
		p.kill()
		if msg := errb.String(); exited && (strings.Contains(msg, "invalid argument") || strings.Contains(msg, "unknown flag") || strings.Contains(msg, "Usage:")) {
			// the command line was refused: trying another port does not help
			return nil, fmt.Errorf("%w: %.300s", errRefused, strings.TrimSpace(msg))
		}
	}
	return nil, fmt.Errorf("server did not come up")
}

var errRefused = errors.New("serve refused its command line")

func (p *proc) kill() {
	_ = p.cmd.Process.Kill()
	<-p.done
}

// term sends SIGTERM and waits; returns false if the process is still alive after the bound.
func (p *proc) term(bound time.Duration) (bool, string) {
	_ = p.cmd.Process.Signal(syscall.SIGTERM)
	select {
	case <-p.done:
		return true, ""
	case <-time.After(bound):
	}
	_ = p.cmd.Process.Signal(syscall.SIGQUIT) // goroutine dump on stderr
	select {
	case <-p.done:
	case <-time.After(5 * time.Second):
		p.kill()
	}
	d := p.errb.String()
	if len(d) > 6000 {
		d = d[len(d)-6000:]
	}
	return false, d
}

func binaryTable(r *vh.Run, bin string, i int) {
	rng := r.Rand(7_000_000 + i)
	all := vh.AllSwitches()
	s := all[rng.Intn(len(all))]
	if i < len(all) && r.Tier == "thorough" {
		s = all[i]
	}
	storeType := []string{"dir", "mem"}[i%2]
	root := r.TempDir("c19b")
	defer vh.RemoveAll(root)
	warnings := [][]string{nil, {"first warning"}, {"w one", "w,2 \"quoted\""}}[i%3]
	wit := map[string]any{"trial": i, "switches": s.String(), "store_type": storeType, "warnings": warnings}
	u := vh.GenUniverse(rng, vh.UOpts{Tag: fmt.Sprint("b", i)})
	// populate through a permissive process first (directory store), then restart with the combination
	w := vh.NewWorld(r, nil, u, vh.Dir, "r")
	m := w.Repos["r"]
	if storeType == "dir" {
		p0, err := launch(bin, "--dir", root, "--api-delete", "--api-blob-delete", fmt.Sprintf("--api-referrer=%v", s.Referrers), "--gc-frequency", "-1s")
		if err != nil {
			r.Inconclusive("binary did not start: " + err.Error())
			return
		}
		for _, b := range u.Blobs[:3] {
			if st, _, _, _ := p0.req("POST", "/v2/r/blobs/uploads/?digest="+b.D, nil, b.B); st == 201 {
				m.Stored[b.D] = b.B
			}
		}
		extra := []byte(fmt.Sprint("plain blob ", i))
		if st, _, _, _ := p0.req("POST", "/v2/r/blobs/uploads/?digest="+vh.DigestOf("sha256", extra), nil, extra); st == 201 {
			m.Stored[vh.DigestOf("sha256", extra)] = extra
		}
		for _, mm := range u.Mans {
			if mm.Subject == "" && !mm.Index && m.ValidRefs(mm) {
				if st, _, _, _ := p0.req("PUT", vh.ManifestURL("r", mm, "t1"), map[string]string{"Content-Type": mm.MT}, mm.Raw); st == 201 {
					m.Mans[mm.D], m.Stored[mm.D], m.Tags["t1"] = mm, mm.Raw, mm.D
				}
				break
			}
		}
		if ok, dump := p0.term(20 * time.Second); !ok {
			wit["dump"] = dump
			r.Violation("sigterm:no-exit", "the process did not terminate within 20 s after SIGTERM (idle server)", wit)
			return
		}
	}
	var roBefore string
	if s.ReadOnly && storeType == "dir" {
		// things a collection would like to tidy up: an empty upload directory, a valid but empty repository
		_ = os.MkdirAll(filepath.Join(root, "r", "_uploads"), 0o755)
		_ = os.MkdirAll(filepath.Join(root, "emptyrepo"), 0o755)
		_ = os.WriteFile(filepath.Join(root, "emptyrepo", "oci-layout"), []byte(`{"imageLayoutVersion":"1.0.0"}`), 0o644)
		_ = os.WriteFile(filepath.Join(root, "emptyrepo", "index.json"), []byte(`{"schemaVersion":2,"mediaType":"application/vnd.oci.image.index.v1+json","manifests":[],"annotations":{"org.olareg.referrer.convert":"true"}}`), 0o644)
		roBefore = treeListing(root)
	}
	args := []string{"--dir", root, "--store-type", storeType, fmt.Sprintf("--store-ro=%v", s.ReadOnly), fmt.Sprintf("--api-push=%v", s.Push), fmt.Sprintf("--api-delete=%v", s.Delete),
		fmt.Sprintf("--api-blob-delete=%v", s.BlobDelete), fmt.Sprintf("--api-referrer=%v", s.Referrers), "--gc-frequency", "10000h"}
	for _, wv := range warnings {
		args = append(args, "--warning", wv)
	}
	wit["args"] = args
	p, err := launch(bin, args...)
	if err != nil {
		if errors.Is(err, errRefused) {
			// every flag and value here is documented usage (any text is a legal --warning)
			r.Violation("flags:refused", fmt.Sprintf("serve does not start with documented flags: %v", err), wit)
			return
		}
		r.Inconclusive("binary did not start: " + err.Error())
		return
	}
	terminated := false
	defer func() {
		if !terminated {
			p.term(20 * time.Second)
		}
	}()
	if roBefore != "" {
		p.req("GET", "/v2/emptyrepo/tags/list", nil, nil)
		p.req("GET", "/v2/r/tags/list", nil, nil)
	}
	if storeType == "mem" {
		// a memory store over --dir: what the directory holds is visible; nothing was put there in this branch
		w = vh.NewWorld(r, nil, u, vh.Mem, "r")
	}
	for _, pr := range vh.SwitchTable(w, "r", s, rng, fmt.Sprint(i)) {
		st, hd, body, err := p.req(pr.Req.Method, pr.Req.URL, pr.Req.H, pr.Req.Body)
		if err != nil {
			r.Inconclusive("request to the binary failed: " + err.Error())
			return
		}
		if !judgeProbe(r, "binary "+storeType, s, pr, st, body, wit) {
			return
		}
		got := hd.Values("Warning")
		if len(got) != len(warnings) {
			r.Violation("warning:count", fmt.Sprintf("%d --warning flags, %d Warning headers on the answer to %s", len(warnings), len(got), pr.Name), wit)
			return
		}
		for k, wv := range warnings {
			if !strings.Contains(got[k], wv) {
				r.Violation("warning:text", fmt.Sprintf("Warning header %q does not carry the configured text %q verbatim", got[k], wv), wit)
				return
			}
		}
	}
	// --store-type: the directory store writes under --dir when pushes are permitted, the memory store never does
	if s.Push && !s.ReadOnly {
		n := 0
		_ = filepath.Walk(root, func(_ string, fi os.FileInfo, err error) error {
			if err == nil && !fi.IsDir() && strings.Contains(fi.Name(), "") {
				n++
			}
			return nil
		})
		nb := []byte("switch probe " + fmt.Sprint(i))
		_, err := os.Stat(filepath.Join(root, "r", "blobs", "sha256", vh.DigestOf("sha256", nb)[7:]))
		if storeType == "dir" && err != nil {
			r.Violation("store-type:dir-not-written", "with --store-type dir an acknowledged blob push is not under --dir", wit)
		}
		if storeType == "mem" && err == nil {
			r.Violation("store-type:mem-written", "with --store-type mem an acknowledged blob push was written under --dir", wit)
		}
	}
	if roBefore != "" {
		terminated = true
		if ok, dump := p.term(20 * time.Second); !ok {
			wit["dump"] = dump
			r.Violation("sigterm:no-exit", "the read-only process did not terminate within 20 s after SIGTERM", wit)
			return
		}
		if after := treeListing(root); after != roBefore {
			wit["before"], wit["after"] = roBefore, after
			r.Violation("read-only:tree-changed", "a process started with --store-ro changed the directory (requests + SIGTERM)", wit)
			return
		}
		r.Count("readonly_tree_comparisons", 1)
	}
	if i < 2 {
		r.Sample(map[string]any{"part": "binary", "args": args, "switches": s.String()})
	}
	r.Count("binary_launches", 1)
}

func treeListing(root string) string {
	var l []string
	_ = filepath.Walk(root, func(p string, fi os.FileInfo, err error) error {
		if err == nil {
			l = append(l, fmt.Sprintf("%s %v %d", strings.TrimPrefix(p, root), fi.Mode(), fi.Size()))
		}
		return nil
	})
	return strings.Join(l, "\n")
}

func sigtermTrial(r *vh.Run, bin string, i int) {
	rng := r.Rand(8_000_000 + i)
	root := r.TempDir("c19s")
	defer vh.RemoveAll(root)
	wit := map[string]any{"trial": i}
	// every other pair of trials runs with a rate limit far above the traffic: the limit must not change how the
	// server stops (each request then takes the server lock)
	rate := []string{"0", "1000000"}[(i/2)%2]
	wit["rate_limit"] = rate
	p, err := launch(bin, "--dir", root, "--api-delete", "--gc-frequency", []string{"10000h", "20ms"}[i%2], "--gc-grace-period", "1h", "--rate-limit", rate)
	if err != nil {
		r.Inconclusive("binary did not start: " + err.Error())
		return
	}
	type ack struct {
		tag, d string
		body   []byte
	}
	var mu sync.Mutex
	var acked []ack
	var stop atomic.Bool
	var wg sync.WaitGroup
	for c := 0; c < 3; c++ {
		wg.Add(1)
		go func(c int) {
			defer wg.Done()
			for n := 0; !stop.Load() && n < 400; n++ {
				b := []byte(fmt.Sprintf("blob-%d-%d-%d", i, c, n))
				d := vh.DigestOf("sha256", b)
				st, _, _, err := p.req("POST", "/v2/s/blobs/uploads/?digest="+d, nil, b)
				if err != nil {
					return
				}
				if st == 201 {
					mu.Lock()
					acked = append(acked, ack{"", d, b})
					mu.Unlock()
				}
				bl := &vh.Blob{Name: "c", B: b, D: d}
				mm := vh.MkImage("m", "sha256", vh.MTImage, bl, vh.MTConfig, nil, "", "", map[string]string{"n": fmt.Sprint(i, c, n)})
				tag := fmt.Sprintf("t%d-%d", c, n)
				st, _, _, err = p.req("PUT", "/v2/s/manifests/"+tag, map[string]string{"Content-Type": mm.MT}, mm.Raw)
				if err != nil {
					return
				}
				if st == 201 {
					mu.Lock()
					acked = append(acked, ack{tag, mm.D, mm.Raw})
					mu.Unlock()
				}
			}
		}(c)
	}
	delay := time.Duration(5+rng.Intn(250)) * time.Millisecond
	time.Sleep(delay)
	// one more client whose upload straddles the signal: half of the body before it, the rest a moment after.  A
	// graceful stop lets the request finish (then it is an acknowledged push like any other) or breaks it - but it
	// leaves no upload file behind either way
	signalled := make(chan struct{})
	straddle := i%2 == 1
	if straddle {
		sb := []byte(fmt.Sprintf("straddling upload %d: first half | second half", i))
		sd := vh.DigestOf("sha256", sb)
		pr, pw := io.Pipe()
		wg.Add(2)
		go func() {
			defer wg.Done()
			rq, _ := http.NewRequest("POST", fmt.Sprintf("http://127.0.0.1:%d/v2/s/blobs/uploads/?digest=%s", p.port, sd), pr)
			rq.ContentLength = int64(len(sb))
			rs, err := client.Do(rq)
			if err != nil {
				return
			}
			_, _ = io.ReadAll(rs.Body)
			_ = rs.Body.Close()
			if rs.StatusCode == 201 {
				mu.Lock()
				acked = append(acked, ack{"", sd, sb})
				mu.Unlock()
				r.Count("straddling_uploads_acknowledged", 1)
			}
		}()
		go func() {
			defer wg.Done()
			_, _ = pw.Write(sb[:len(sb)/2])
			<-signalled
			time.Sleep(30 * time.Millisecond)
			_, _ = pw.Write(sb[len(sb)/2:])
			_ = pw.Close()
		}()
		time.Sleep(100 * time.Millisecond) // let the first half arrive
		r.Count("straddling_uploads", 1)
	}
	mu.Lock()
	nAtSignal := len(acked)
	mu.Unlock()
	// a connection that has sent its request line before the signal and completes the header once the listener is
	// closed: the server leaves such a connection alone, so the request runs next to the shutdown
	var late net.Conn
	if (i/4)%2 == 0 {
		if cn, err := net.DialTimeout("tcp", fmt.Sprintf("127.0.0.1:%d", p.port), time.Second); err == nil {
			late = cn
			_, _ = late.Write([]byte("GET /v2/ HTTP/1.1\r\nHost: x\r\nConnection: close\r\n"))
			r.Count("late_header_connections", 1)
		}
	}
	_ = p.cmd.Process.Signal(syscall.SIGTERM)
	close(signalled)
	if late != nil {
		wg.Add(1)
		go func() {
			defer wg.Done()
			for k := 0; k < 3000; k++ {
				cn, err := net.DialTimeout("tcp", fmt.Sprintf("127.0.0.1:%d", p.port), 100*time.Millisecond)
				if err != nil {
					break
				}
				_ = cn.Close()
				time.Sleep(time.Millisecond)
			}
			_, _ = late.Write([]byte("\r\n"))
			_ = late.SetReadDeadline(time.Now().Add(40 * time.Second))
			_, _ = io.ReadAll(late)
			_ = late.Close()
		}()
	}
	ok, dump := p.term(30 * time.Second)
	stop.Store(true)
	wg.Wait()
	wit["signal_after"] = delay.String()
	wit["acknowledged_before_signal"] = nAtSignal
	r.Count("signals_sent", 1)
	r.Distinct("cells", fmt.Sprintf("sigterm/%dms", delay.Milliseconds()/25*25))
	if !ok {
		wit["dump"] = dump
		r.Violation("sigterm:no-exit", fmt.Sprintf("the process did not terminate within 30 s after SIGTERM sent %s into a push workload", delay), wit)
		return
	}
	if pr := vh.ValidateLayout(filepath.Join(root, "s")); len(pr) > 0 {
		r.Violation("sigterm:layout", "after SIGTERM the directory is not a valid layout: "+strings.Join(pr, "; "), wit)
		return
	}
	if ents, err := os.ReadDir(filepath.Join(root, "s", "_uploads")); err == nil && len(ents) > 0 {
		wit["upload_straddled_the_signal"] = straddle
		r.Violation("sigterm:upload-file-left", fmt.Sprintf("after SIGTERM and the end of the process %d file(s) of upload sessions remain under _uploads: the store was not closed", len(ents)), wit)
		return
	}
	p2, err := launch(bin, "--dir", root, "--gc-frequency", "-1s")
	if err != nil {
		r.Violation("sigterm:restart", "a new process does not start on the directory left by SIGTERM: "+err.Error(), wit)
		return
	}
	defer p2.term(20 * time.Second)
	mu.Lock()
	list := append([]ack{}, acked...)
	mu.Unlock()
	for k, a := range list {
		var st int
		var body []byte
		if a.tag == "" {
			st, _, body, _ = p2.req("GET", "/v2/s/blobs/"+a.d, nil, nil)
		} else {
			st, _, body, _ = p2.req("GET", "/v2/s/manifests/"+a.tag, map[string]string{"Accept": vh.AcceptAll}, nil)
		}
		if st != 200 || !bytes.Equal(body, a.body) {
			wit["lost_index"], wit["lost"] = k, a.tag+" "+a.d
			r.Violation("sigterm:acknowledged-push-lost", fmt.Sprintf("push %d of %d acknowledged (before or while the signal was handled) is not served by a new process: status %d", k, len(list), st), wit)
			return
		}
		r.Count("acknowledged_pushes_verified", 1)
	}
}

// ---------------------------------------------------------------- (d)

func rateTrial(r *vh.Run, i int) {
	rng := r.Rand(9_000_000 + i)
	L := []int{1, 2, 5, 8}[rng.Intn(4)]
	c := vh.Conf(vh.Mem, "", vh.Neutral)
	c.API.RateLimit = L
	var warns []string
	if i%2 == 0 {
		warns = []string{"be warned", "twice"}[:1+rng.Intn(2)]
		c.API.Warnings = warns
	}
	srv := vh.New(c)
	defer srv.Close()
	wit := map[string]any{"trial": i, "limit": L, "warnings": warns}
	warnBad := ""
	useXFF := rng.Intn(2) == 0
	// the header is a comma-separated list; how the proxies in between space it does not change the client address
	spell := rng.Intn(3) == 0
	wit["x_forwarded_for"], wit["list_spellings_vary"] = useXFF, useXFF && spell
	nsent := 0
	send := func(addr string) (int, http.Header) {
		rq := vh.Req{Method: "GET", URL: "/v2/", RemoteAddr: addr + ":4444"}
		if strings.Contains(addr, ":") {
			rq.RemoteAddr = "[" + addr + "]:4444"
		}
		if useXFF {
			rq.RemoteAddr = "10.9.9.9:1"
			v := addr + ", 10.1.1.1"
			if spell {
				v = []string{addr + ", 10.1.1.1", addr + ",10.1.1.1", addr, addr + " , 10.1.1.1"}[nsent%4]
			}
			nsent++
			rq.H = map[string]string{"X-Forwarded-For": v}
		}
		rs := vh.Do(srv, rq)
		// every setting combines with every other: the configured warnings are on every answer, served or refused
		if got := rs.H.Values("Warning"); len(got) != len(warns) && warnBad == "" {
			warnBad = fmt.Sprintf("answer with status %d carries %d Warning headers, %d are configured", rs.Status, len(got), len(warns))
		}
		return rs.Status, rs.H
	}
	A, B := fmt.Sprintf("192.0.2.%d", 1+rng.Intn(200)), "198.51.100.7"
	if i%4 == 1 {
		// IPv6 clients of one network: the addresses differ in the last group only
		A, B = fmt.Sprintf("2001:db8::%x", 1+rng.Intn(60000)), "2001:db8::ffff"
	}
	wit["address_a"], wit["address_b"] = A, B
	n := L + 1 + rng.Intn(6)
	t0 := time.Now()
	served, refused, qualifying := 0, 0, 0
	bsent := 0
	for k := 0; k < n; k++ {
		st, hd := send(A)
		if time.Since(t0) >= time.Second {
			break // no longer certainly inside the window anchored by the first request
		}
		qualifying++
		switch st {
		case 200:
			served++
		case 429:
			refused++
			if hd.Get("Retry-After") == "" {
				r.Violation("ratelimit:no-retry-after", "a 429 answer carries no Retry-After", wit)
				return
			}
		default:
			r.Violation("ratelimit:status", fmt.Sprintf("unexpected status %d", st), wit)
			return
		}
		if bsent < L && rng.Intn(2) == 0 {
			bsent++
			if st, _ := send(B); st != 200 {
				wit["other_address_requests"] = bsent
				r.Violation("ratelimit:other-address-refused", fmt.Sprintf("address B was refused (%d) at its request %d of at most %d although only address A exceeded the limit", st, bsent, L), wit)
				return
			}
		}
	}
	want := L
	if qualifying < L {
		want = qualifying
	}
	wit["sent_within_window"], wit["served"], wit["refused"] = qualifying, served, refused
	r.Count("rate_trials", 1)
	r.Count("rate_qualifying_requests", qualifying)
	r.Distinct("cells", fmt.Sprintf("rate/%d/%d/%v", L, qualifying, useXFF))
	if warnBad != "" {
		r.Violation("warning:rate-limited-answer", "rate limit "+fmt.Sprint(L)+" with warnings configured: "+warnBad, wit)
		return
	}
	if i < 1 {
		r.Sample(map[string]any{"part": "rate-limit", "limit": L, "sent_within_window": qualifying, "served": served, "refused": refused, "x_forwarded_for": useXFF})
	}
	if served != want {
		r.Violation("ratelimit:count", fmt.Sprintf("limit %d: of %d requests from one address inside its accounting second %d were served, expected %d", L, qualifying, served, want), wit)
		return
	}
	// later accounting seconds of the same address: after the window has certainly passed the address is served again,
	// and again at most L times
	if i%3 == 0 {
		for burst := 2; burst <= 3; burst++ {
			time.Sleep(1100 * time.Millisecond)
			tb := time.Now()
			sv, q := 0, 0
			for k := 0; k < L+3; k++ {
				st, _ := send(A)
				if time.Since(tb) >= time.Second {
					break
				}
				q++
				if st == 200 {
					sv++
				}
				if k == 0 && st != 200 {
					r.Violation("ratelimit:never-reset", fmt.Sprintf("1.1 s after its last request the address is still refused (%d)", st), wit)
					return
				}
			}
			wantB := L
			if q < L {
				wantB = q
			}
			r.Count("rate_reset_checks", 1)
			if sv != wantB {
				wit["burst"], wit["burst_sent"], wit["burst_served"] = burst, q, sv
				r.Violation("ratelimit:count-later-window", fmt.Sprintf("limit %d: in accounting second %d of the same address %d of %d requests were served, expected %d", L, burst, sv, q, wantB), wit)
				return
			}
		}
	}
}

// earlySignalTrial: "a termination signal at any time" includes the first moments of the process: SIGTERM is sent as
// soon as the server answers its first request, with an upload in flight.  After the process has ended no upload file
// and no temporary index file may be left, and an acknowledged upload is there.  (On the pinned tree the registration
// for the signal happened in a goroutine started just before the listener; a signal that won that race ended the
// process on the spot.  The window is microseconds wide on an idle machine - this trial does not hit it; it was seen
// once by the thorough tier under an 18-job load and a few times in a shell experiment under strace, see DESIGN 11.4.)
func earlySignalTrial(r *vh.Run, bin string, i int) {
	root := r.TempDir("c19e")
	defer vh.RemoveAll(root)
	port := freePort()
	cmd := exec.Command(bin, "serve", "--addr", "127.0.0.1", "--port", fmt.Sprint(port), "--dir", root, "--gc-frequency", "-1s")
	cmd.Stdout, cmd.Stderr = nil, nil
	if err := cmd.Start(); err != nil {
		r.Inconclusive("binary did not start: " + err.Error())
		return
	}
	done := make(chan struct{})
	go func() { _ = cmd.Wait(); close(done) }()
	defer func() {
		select {
		case <-done:
		default:
			_ = cmd.Process.Kill()
			<-done
		}
	}()
	p := &proc{cmd: cmd, port: port, errb: &bytes.Buffer{}, done: done}
	sb := []byte(fmt.Sprintf("upload in flight at an early signal %d: first half | second half", i))
	sd := vh.DigestOf("sha256", sb)
	up := false
	for k := 0; k < 20000 && !up; k++ {
		if st, _, _, err := p.req("GET", "/v2/", nil, nil); err == nil && st == 200 {
			up = true
		} else {
			time.Sleep(200 * time.Microsecond)
		}
	}
	if !up {
		r.Inconclusive("the binary did not come up")
		return
	}
	pr, pw := io.Pipe()
	status := make(chan int, 1)
	go func() {
		rq, _ := http.NewRequest("POST", fmt.Sprintf("http://127.0.0.1:%d/v2/s/blobs/uploads/?digest=%s", port, sd), pr)
		rq.ContentLength = int64(len(sb))
		rs, err := client.Do(rq)
		if err != nil {
			status <- 0
			return
		}
		_, _ = io.ReadAll(rs.Body)
		_ = rs.Body.Close()
		status <- rs.StatusCode
	}()
	_, _ = pw.Write(sb[:len(sb)/2])
	_ = cmd.Process.Signal(syscall.SIGTERM)
	time.Sleep(30 * time.Millisecond)
	_, _ = pw.Write(sb[len(sb)/2:])
	_ = pw.Close()
	st := <-status
	select {
	case <-done:
	case <-time.After(40 * time.Second):
		r.Violation("sigterm:no-exit", "the process did not end within 40 s after a SIGTERM sent right after it began to serve", map[string]any{"trial": i})
		return
	}
	r.Count("early_signal_trials", 1)
	r.Count("signals_sent", 1)
	wit := map[string]any{"trial": i, "upload_in_flight_status": st}
	if ents, err := os.ReadDir(filepath.Join(root, "s", "_uploads")); err == nil && len(ents) > 0 {
		r.Violation("sigterm:upload-file-left", fmt.Sprintf("SIGTERM sent right after the server answered its first request: the process ended with %d upload file(s) left under _uploads and the request in flight answered %d - it was not stopped, it was killed", len(ents), st), wit)
		return
	}
	if pr := vh.ValidateLayout(filepath.Join(root, "s")); len(pr) > 0 {
		r.Violation("sigterm:layout", "early SIGTERM: the directory is not a valid layout: "+strings.Join(pr, "; "), wit)
		return
	}
	if st == 201 {
		s2 := vh.New(vh.Conf(vh.Dir, root, vh.Neutral))
		g := vh.Do(s2, vh.Req{Method: "GET", URL: "/v2/s/blobs/" + sd})
		_ = s2.Close()
		if g.Status != 200 || string(g.Body) != string(sb) {
			r.Violation("sigterm:acknowledged-push-lost", fmt.Sprintf("early SIGTERM: the upload acknowledged with 201 answers %d afterwards", g.Status), wit)
		}
		r.Count("acknowledged_pushes_verified", 1)
	}
	r.Distinct("cells", "early-signal")
}

// gcFlagTrial: the collection flags of `serve` (--gc-untagged, --gc-referrer-dangling, --gc-referrer-subject,
// --gc-grace-period, --gc-frequency) reach the configuration fields they are documented for.  What each policy
// *means* is C05/C06's subject; here the binary started with a flag combination is compared with an in-process server
// given the equivalent config.Config on a copy of the same directory: after complete collections on both sides the
// same content is served.  "A complete collection has happened" is observed, not timed: an unreferenced blob pushed
// last (garbage under every policy once the grace period is off) has disappeared, twice in a row.
func gcFlagTrial(r *vh.Run, bin string, i int) {
	rng := r.Rand(8_000_000 + i)
	U, D, W := i&1 != 0, i&2 != 0, i&4 != 0
	base := r.TempDir("c19g")
	defer vh.RemoveAll(base)
	root := filepath.Join(base, "bin")
	ref := filepath.Join(base, "ref")
	_ = os.MkdirAll(root, 0o755)
	wit := map[string]any{"trial": i, "gc_untagged": U, "gc_referrer_dangling": D, "gc_referrer_subject": W}
	// ---- populate without collections
	p0, err := launch(bin, "--dir", root, "--api-delete", "--gc-frequency", "-1s")
	if err != nil {
		r.Inconclusive("binary did not start: " + err.Error())
		return
	}
	cfg := &vh.Blob{Name: "cfg", B: []byte(fmt.Sprintf(`{"g":%d,"x":%d}`, i, rng.Intn(1000)))}
	cfg.D = vh.DigestOf("sha256", cfg.B)
	mk := func(name, subj string) *vh.Man {
		return vh.MkImage(name, "sha256", vh.MTImage, cfg, vh.MTConfig, nil, subj, "application/x.a", map[string]string{"n": name, "g": fmt.Sprint(i)})
	}
	tagged, untagged, gone := mk("tagged", ""), mk("untagged", ""), mk("subject-to-delete", "")
	missing := vh.DigestOf("sha256", []byte(fmt.Sprint("no such subject ", i)))
	artOK, artDangling, artOrphan := mk("artifact-of-tagged", tagged.D), mk("artifact-of-missing", missing), mk("artifact-of-deleted", gone.D)
	okAll := true
	put := func(p *proc, m *vh.Man, tag string) {
		if st, _, _, _ := p.req("PUT", vh.ManifestURL("g", m, tag), map[string]string{"Content-Type": m.MT}, m.Raw); st != 201 {
			okAll = false
		}
	}
	if st, _, _, _ := p0.req("POST", "/v2/g/blobs/uploads/?digest="+cfg.D, nil, cfg.B); st != 201 {
		okAll = false
	}
	put(p0, tagged, "t1")
	put(p0, untagged, "")
	put(p0, gone, "t3")
	put(p0, artOK, "")
	put(p0, artDangling, "")
	put(p0, artOrphan, "")
	if st, _, _, _ := p0.req("DELETE", "/v2/g/manifests/"+gone.D, nil, nil); st != 202 {
		okAll = false
	}
	if ok, _ := p0.term(20 * time.Second); !ok || !okAll {
		r.Count("gc_flag_trials_not_established", 1)
		return
	}
	if err := exec.Command("cp", "-a", root, ref).Run(); err != nil {
		r.Count("gc_flag_trials_not_established", 1)
		return
	}
	all := []*vh.Man{tagged, untagged, gone, artOK, artDangling, artOrphan}
	// ---- the reference: the equivalent configuration in-process, collections through the hook
	rc := vh.Conf(vh.Dir, ref, vh.Policy{Untagged: U, Dangling: D, WithSubj: W, EmptyRepo: true, Grace: -1})
	rs := vh.New(rc)
	for k := 0; k < 3; k++ {
		_ = rs.VerifGC(context.Background(), "g")
	}
	state := func(get func(path string) int) string {
		var o []string
		for _, m := range all {
			o = append(o, fmt.Sprintf("%s=%d", m.Name, get("/v2/g/manifests/"+m.D)))
		}
		for _, sj := range []string{tagged.D, missing, gone.D} {
			o = append(o, fmt.Sprintf("referrers(%s)=%d", vh.Short(sj), get("/v2/g/referrers/"+sj+"?n=count")))
		}
		return strings.Join(o, " ")
	}
	refState := state(func(path string) int {
		path = strings.TrimSuffix(path, "?n=count")
		g := vh.Do(rs, vh.Req{Method: "GET", URL: path, H: map[string]string{"Accept": vh.AcceptAll}})
		if strings.Contains(path, "/referrers/") {
			var idx struct {
				Manifests []json.RawMessage `json:"manifests"`
			}
			_ = json.Unmarshal(g.Body, &idx)
			return len(idx.Manifests)
		}
		return g.Status
	})
	_ = rs.Close()
	// ---- the binary with the flags
	p, err := launch(bin, "--dir", root, "--api-delete", "--gc-frequency", "40ms", "--gc-grace-period", "-1s",
		fmt.Sprintf("--gc-untagged=%v", U), fmt.Sprintf("--gc-referrer-dangling=%v", D), fmt.Sprintf("--gc-referrer-subject=%v", W))
	if err != nil {
		r.Inconclusive("binary did not start: " + err.Error())
		return
	}
	defer p.kill()
	r.Count("binary_launches", 1)
	for round := 0; round < 2; round++ {
		canary := []byte(fmt.Sprintf("canary %d.%d", i, round))
		cd := vh.DigestOf("sha256", canary)
		collected := false
		for k := 0; k < 600 && !collected; k++ { // 30 s watchdog: its firing decides nothing
			if k%100 == 0 {
				p.req("POST", "/v2/g/blobs/uploads/?digest="+cd, nil, canary)
			}
			time.Sleep(50 * time.Millisecond)
			if st, _, _, err := p.req("HEAD", "/v2/g/blobs/"+cd, nil, nil); err == nil && st == 404 {
				collected = true
			}
		}
		if !collected {
			r.Inconclusive("the binary's collection ticker did not remove an unreferenced blob within 30 s")
			return
		}
	}
	binState := state(func(path string) int {
		path2 := strings.TrimSuffix(path, "?n=count")
		st, _, body, _ := p.req("GET", path2, map[string]string{"Accept": vh.AcceptAll}, nil)
		if strings.Contains(path, "/referrers/") {
			var idx struct {
				Manifests []json.RawMessage `json:"manifests"`
			}
			_ = json.Unmarshal(body, &idx)
			return len(idx.Manifests)
		}
		return st
	})
	r.Count("gc_flag_trials", 1)
	r.Distinct("cells", fmt.Sprintf("gcflags/%v%v%v", U, D, W))
	if binState != refState {
		wit["binary"], wit["same_configuration_in_process"] = binState, refState
		r.Violation("gc-flags:behaviour-differs", fmt.Sprintf("serve --gc-untagged=%v --gc-referrer-dangling=%v --gc-referrer-subject=%v --gc-grace-period=-1s serves, after complete collections, [%s]; the same settings given as config.Config serve [%s]", U, D, W, binState, refState), wit)
	}
}

// gcDisabledTrial: "--gc-frequency -1" is documented as "disable garbage collection" (serve's help and the field
// comment).  A server started that way with a short grace period, untagged collection on: an unreferenced blob and an
// untagged manifest stay - while the server runs and the repository sits idle for several grace periods, and across
// a SIGTERM and a restart with the same flags.  One-sided: waiting longer only gives a collection more chances.
func gcDisabledTrial(r *vh.Run, bin string, i int) {
	st := []string{"dir", "mem"}[i%2]
	root := r.TempDir("c19d")
	defer vh.RemoveAll(root)
	wit := map[string]any{"trial": i, "store_type": st}
	args := []string{"--dir", root, "--store-type", st, "--gc-frequency", []string{"-1s", "-1ns", "-15m"}[(i/2)%3], "--gc-grace-period", "150ms", "--gc-untagged"}
	wit["args"] = strings.Join(args, " ")
	p, err := launch(bin, args...)
	if err != nil {
		r.Inconclusive("binary did not start: " + err.Error())
		return
	}
	b := []byte(fmt.Sprintf("unreferenced blob %d", i))
	d := vh.DigestOf("sha256", b)
	cfg := &vh.Blob{Name: "c", B: b, D: d}
	mm := vh.MkImage("untagged", "sha256", vh.MTImage, cfg, vh.MTConfig, nil, "", "", map[string]string{"n": fmt.Sprint(i)})
	s1, _, _, _ := p.req("POST", "/v2/d/blobs/uploads/?digest="+d, nil, b)
	s2, _, _, _ := p.req("PUT", "/v2/d/manifests/"+mm.D, map[string]string{"Content-Type": mm.MT}, mm.Raw)
	b2 := []byte(fmt.Sprintf("second unreferenced blob %d", i))
	d2 := vh.DigestOf("sha256", b2)
	s3, _, _, _ := p.req("POST", "/v2/d/blobs/uploads/?digest="+d2, nil, b2)
	if s1 != 201 || s2 != 201 || s3 != 201 {
		p.kill()
		r.Inconclusive(fmt.Sprintf("gcDisabledTrial: pushes answered %d %d %d", s1, s2, s3))
		return
	}
	check := func(p *proc, when string) bool {
		for _, q := range []struct{ what, url string }{{"unreferenced blob", "/v2/d/blobs/" + d2}, {"untagged manifest", "/v2/d/manifests/" + mm.D}, {"its config", "/v2/d/blobs/" + d}} {
			st, _, _, err := p.req("HEAD", q.url, map[string]string{"Accept": vh.AcceptAll}, nil)
			if err == nil && st != 200 {
				wit["when"], wit["lost"] = when, q.what
				r.Violation("gc-disabled:content-collected", fmt.Sprintf("serve %s: the %s is gone (%d) %s - garbage collection was disabled with a negative --gc-frequency", wit["args"], q.what, st, when), wit)
				return false
			}
		}
		return true
	}
	time.Sleep(700 * time.Millisecond) // several grace periods of idleness
	ok := check(p, "while the server runs, after the repository sat idle for several grace periods")
	exited, _ := p.term(30 * time.Second)
	r.Count("gc_disabled_trials", 1)
	r.Distinct("cells", "gc-disabled/"+st)
	if !ok || !exited || st == "mem" {
		return
	}
	p2, err := launch(bin, args...)
	if err != nil {
		return
	}
	defer p2.term(20 * time.Second)
	check(p2, "after SIGTERM and a restart with the same flags")
}

func main() {
	r := vh.Start()
	bin := os.Getenv("VERIF_OLAREG")
	nd := r.N(3000, 200000)
	nt := r.N(64, 640)
	nr := r.N(48, 600)
	nbin := r.N(10, 64)
	nsig := r.N(8, 80)
	vh.Parallel(nd, 16, func(i int) { defaultsTrial(r, i) })
	vh.Parallel(nt, 12, func(i int) { inprocTable(r, i) })
	vh.Parallel(nr, 4, func(i int) { rateTrial(r, i) })
	if bin == "" {
		fmt.Fprintln(os.Stderr, "VERIF_OLAREG not set: the driver did not build the binary")
		os.Exit(2)
	}
	vh.Parallel(nbin, 4, func(i int) { binaryTable(r, bin, i) })
	vh.Parallel(nsig, 3, func(i int) { sigtermTrial(r, bin, i) })
	nearly := r.N(12, 200)
	vh.Parallel(nearly, 4, func(i int) { earlySignalTrial(r, bin, i) })
	ngc := r.N(8, 64)
	vh.Parallel(ngc, 4, func(i int) { gcFlagTrial(r, bin, i) })
	r.Require("gc_flag_trials", int64(ngc/2))
	ngd := r.N(6, 60)
	vh.Parallel(ngd, 3, func(i int) { gcDisabledTrial(r, bin, i) })
	r.Require("gc_disabled_trials", int64(ngd/2))
	nl := r.N(20, 80)
	vh.Parallel(nl, 8, func(i int) { listenTrial(r, bin, i) })
	r.Require("listen_trials", int64(nl/2))
	nco := r.N(8, 40)
	vh.Parallel(nco, 3, func(i int) { convertedOffTrial(r, i) })
	if su, sa := r.Counter("straddling_uploads"), r.Counter("straddling_uploads_acknowledged"); su >= 4 && sa == 0 {
		// a stop that is clean lets requests in flight finish: each of these uploads had half of its body at the server
		// before the signal and delivered the rest 30 ms after it.  One may be unlucky; none at all out of four or more
		// means the requests in flight are cut off the moment the signal arrives
		r.Violation("sigterm:requests-in-flight-cut-off", fmt.Sprintf("none of %d uploads that straddled the termination signal (rest of the body 30 ms after it) was completed", su), map[string]any{"straddling_uploads": su})
	}
	r.Count("cases", nd+nt+nr+nbin+nsig+nl)
	r.Require("default_trials", int64(nd))
	r.Require("inproc_table_trials", int64(nt*3/4))
	r.Require("rate_trials", int64(nr*3/4))
	r.Require("binary_launches", int64(nbin/2))
	r.Require("signals_sent", int64(nsig/2))
	r.Require("acknowledged_pushes_verified", int64(nsig*5))
	var _ = json.Marshal
	var _ = rand.Int
	r.Finish("(a) SetDefaults on random configurations (each pointer field nil/true/false, numeric fields zero / negative / explicit); (b) in-process behaviour table over all 32 switch combinations x {directory, memory}; (c) the built binary with random (thorough: all) switch combinations x store type x warning lists, probed over loopback HTTP; (d) rate limits 1/2/5/8 with bursts from a fresh address, an interleaved second address, X-Forwarded-For or RemoteAddr, window reset; (e) SIGTERM 5-255 ms into a 3-client push workload, in half of the trials with one more upload whose body straddles the signal, plus SIGTERM the moment the server answers its first request, an upload in flight, layout validation, restart, read-back of every acknowledged push; (f) the collection flags of serve: all 8 combinations of --gc-untagged / --gc-referrer-dangling / --gc-referrer-subject with grace off compared, after observed complete collections, with an in-process server given the equivalent config.Config on a copy of the directory; (g) --gc-frequency negative (documented: collection disabled) with a 150 ms grace period: nothing is collected while the repository idles nor across SIGTERM and restart; (h) the listener flags and the command line of the binary: a boolean flag followed by a separate word (must not switch the API on behind the operator's back), --addr with an IPv6 literal bare and bracketed, --tls-cert/--tls-key together (HTTPS, no plain HTTP) and alone (plain HTTP must not be served), SIGTERM while a client holds a request open that it never finishes (the process ends within a bound that does not depend on the client, acknowledged content is served after a restart); a case is one trial, distinct = (part, cell) combinations", "cases", "cells")
}
