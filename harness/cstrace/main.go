// cstrace: the thorough-tier, instrumentation-independent variant of the filesystem monitors of C14 and C16.
//
// The real `olareg serve` binary (built by the driver from /repo without any overlay) is run under
// `strace -f -e trace=%file`; hostile requests are sent over loopback HTTP; the syscall log is parsed.
//
//	focus C14: a read-only directory store / a memory store over a directory must issue no mutating syscall
//	           (openat with write/create/truncate flags, mkdir*, unlink*, rmdir, rename*, chmod*, chown*, utimens*,
//	           truncate, link*, symlink*) whose path lies under the root; the recursive snapshot must be unchanged.
//	focus C16: no syscall at all may name a path that lies in the sandbox but outside the root (dot segments are
//	           normalised the way the kernel resolves them); the sentinel tree is unchanged.
//
// This catches accesses that bypass the os shim of the quick tier (another package, raw syscalls, a helper process).
package main

import (
	"bytes"
	"crypto/sha256"
	"fmt"
	"io"
	"net"
	"net/http"
	"os"
	"os/exec"
	"path/filepath"
	"regexp"
	"sort"
	"strconv"
	"strings"
	"syscall"
	"time"

	"github.com/olareg/olareg/internal/verif/vh"
)

var (
	lineRE  = regexp.MustCompile(`^(\d+)\s+([a-z0-9_]+)\((.*)$`)
	quoteRE = regexp.MustCompile(`"((?:[^"\\]|\\.)*)"`)
	mutName = map[string]bool{"mkdir": true, "mkdirat": true, "unlink": true, "unlinkat": true, "rmdir": true, "rename": true, "renameat": true, "renameat2": true,
		"chmod": true, "fchmodat": true, "chown": true, "fchownat": true, "lchown": true, "utimensat": true, "utimes": true, "utime": true, "futimesat": true,
		"truncate": true, "link": true, "linkat": true, "symlink": true, "symlinkat": true, "creat": true, "mknod": true, "mknodat": true, "setxattr": true, "removexattr": true}
)

func freePort() int {
	l, err := net.Listen("tcp", "127.0.0.1:0")
	if err != nil {
		return 0
	}
	defer l.Close()
	return l.Addr().(*net.TCPAddr).Port
}

var client = &http.Client{Timeout: 20 * time.Second, Transport: &http.Transport{DisableKeepAlives: true}}

func httpDo(port int, method, path string, hdr map[string]string, body []byte) (int, []byte) {
	var rd io.Reader
	if body != nil {
		rd = bytes.NewReader(body)
	}
	rq, err := http.NewRequest(method, fmt.Sprintf("http://127.0.0.1:%d%s", port, path), rd)
	if err != nil {
		return 0, nil
	}
	// keep the path exactly as written (dot segments, encoded separators)
	if i := strings.IndexByte(path, '?'); i >= 0 {
		rq.URL.Opaque = path[:i]
		rq.URL.RawQuery = path[i+1:]
	} else {
		rq.URL.Opaque = path
	}
	for k, v := range hdr {
		rq.Header.Set(k, v)
	}
	rs, err := client.Do(rq)
	if err != nil {
		return 0, nil
	}
	defer rs.Body.Close()
	b, _ := io.ReadAll(rs.Body)
	return rs.StatusCode, b
}

func snapshot(root string, skip string) []string {
	var l []string
	_ = filepath.Walk(root, func(p string, fi os.FileInfo, err error) error {
		if err != nil {
			return nil
		}
		if skip != "" && p == skip {
			return filepath.SkipDir
		}
		s := fmt.Sprintf("%s %v %d", strings.TrimPrefix(p, root), fi.Mode(), fi.ModTime().UnixNano())
		if !fi.IsDir() {
			b, _ := os.ReadFile(p)
			s += fmt.Sprintf(" %d %x", fi.Size(), sha256.Sum256(b))
		}
		l = append(l, s)
		return nil
	})
	sort.Strings(l)
	return l
}

func unescape(s string) string {
	if u, err := strconv.Unquote(`"` + s + `"`); err == nil {
		return u
	}
	return s
}

func trial(r *vh.Run, focus, bin string, i int) {
	rng := r.Rand(i)
	outer := r.TempDir("st")
	defer vh.RemoveAll(outer)
	root := filepath.Join(outer, "root")
	_ = os.MkdirAll(root, 0o755)
	secret := []byte(fmt.Sprintf("top secret %d", i))
	sd := vh.DigestOf("sha256", secret)
	sdir := filepath.Join(outer, "secret")
	_ = os.MkdirAll(filepath.Join(sdir, "blobs", "sha256"), 0o755)
	_ = os.WriteFile(filepath.Join(sdir, "oci-layout"), []byte(`{"imageLayoutVersion":"1.0.0"}`), 0o644)
	_ = os.WriteFile(filepath.Join(sdir, "index.json"), []byte(`{"schemaVersion":2,"manifests":[]}`), 0o644)
	_ = os.WriteFile(filepath.Join(sdir, "blobs", "sha256", sd[7:]), secret, 0o644)
	_ = os.WriteFile(filepath.Join(outer, "canary"), []byte("canary"), 0o644)
	// fixture
	u := vh.GenUniverse(rng, vh.UOpts{Tag: fmt.Sprint("st", i)})
	var legacy bool
	if focus == "C14" && i%3 == 2 {
		vh.BuildLegacy(rng, root, fmt.Sprint(i))
		legacy = true
	} else {
		srv := vh.New(vh.Conf(vh.Dir, root, vh.Neutral))
		w := vh.NewWorld(r, srv, u, vh.Dir, "r", "r/n")
		for _, rp := range []string{"r", "r/n"} {
			for _, b := range u.Blobs {
				w.PushBlob(rp, b)
			}
			for _, mm := range u.Mans {
				if w.Repos[rp].ValidRefs(mm) && rng.Intn(3) > 0 {
					w.PutManifest(rp, mm, u.Tags[rng.Intn(len(u.Tags))])
				}
			}
		}
		_ = srv.Close()
	}
	beforeRoot := snapshot(root, "")
	beforeOut := snapshot(outer, root)
	port := freePort()
	logf := filepath.Join(outer, "..", fmt.Sprintf("trace-%d.log", i))
	defer os.Remove(logf)
	args := []string{"-f", "-qq", "-e", "trace=%file", "-o", logf, bin, "serve", "--addr", "127.0.0.1", "--port", fmt.Sprint(port), "--dir", root, "--gc-frequency", "40ms", "--gc-grace-period", "-1s", "--gc-untagged"}
	mode := "writable-dir"
	if focus == "C14" {
		if i%2 == 0 {
			args = append(args, "--store-ro")
			mode = "readonly-dir"
		} else {
			args = append(args, "--store-type", "mem")
			mode = "mem-over-dir"
		}
	} else {
		args = append(args, "--api-delete", "--api-blob-delete")
	}
	cmd := exec.Command("strace", args...)
	// no pipes (a tracee that survives its tracer would keep them open and Wait would never return); own process
	// group, so that both can be killed together
	cmd.Stdout, cmd.Stderr = nil, nil
	cmd.SysProcAttr = &syscall.SysProcAttr{Setpgid: true}
	defer func() {
		if cmd.Process != nil {
			_ = syscall.Kill(-cmd.Process.Pid, syscall.SIGKILL)
		}
	}()
	if err := cmd.Start(); err != nil {
		r.Inconclusive("strace did not start: " + err.Error())
		return
	}
	done := make(chan struct{})
	go func() { _ = cmd.Wait(); close(done) }()
	up := false
	for k := 0; k < 500 && !up; k++ {
		if st, _ := httpDo(port, "GET", "/v2/", nil, nil); st == 200 {
			up = true
		} else {
			time.Sleep(10 * time.Millisecond)
		}
	}
	wit := map[string]any{"trial": i, "mode": mode, "legacy_fixture": legacy}
	if !up {
		_ = syscall.Kill(-cmd.Process.Pid, syscall.SIGKILL)
		<-done
		r.Inconclusive("the traced binary did not come up")
		return
	}
	// ---- requests
	nb := []byte(fmt.Sprintf("new content %d", i))
	nd := vh.DigestOf("sha256", nb)
	repos := []string{"r", "r/n", "leg", "newrepo"}
	var trace []string
	for n := 0; n < 70; n++ {
		rp := repos[rng.Intn(len(repos))]
		anyD := u.Blobs[rng.Intn(len(u.Blobs))].D
		reqs := [][3]string{
			{"POST", "/v2/" + rp + "/blobs/uploads/?digest=" + nd, "body"},
			{"POST", "/v2/" + rp + "/blobs/uploads/", ""},
			{"POST", "/v2/" + rp + "/blobs/uploads/?mount=" + anyD + "&from=r", ""},
			{"POST", "/v2/" + rp + "/blobs/uploads/?mount=" + sd + "&from=../secret", ""},
			{"POST", "/v2/" + rp + "/blobs/uploads/?mount=" + sd + "&from=r/../../secret", ""},
			{"PUT", "/v2/" + rp + "/manifests/newtag", "manifest"},
			{"DELETE", "/v2/" + rp + "/manifests/t1", ""},
			{"DELETE", "/v2/" + rp + "/manifests/" + anyD, ""},
			{"DELETE", "/v2/" + rp + "/blobs/" + anyD, ""},
			{"GET", "/v2/" + rp + "/tags/list", ""},
			{"GET", "/v2/" + rp + "/referrers/" + anyD, ""},
			{"GET", "/v2/" + rp + "/manifests/t1", ""},
			{"GET", "/v2/" + rp + "/blobs/" + anyD, ""},
			{"GET", "/v2/" + rp + "/../secret/blobs/" + sd, ""},
			{"GET", "/v2/" + rp + "/%2e%2e/secret/blobs/" + sd, ""},
			{"GET", "/v2/..%2fsecret/blobs/" + sd, ""},
			{"GET", "/v2/" + rp + "/blobs/sha256:..%2f..%2f..%2fcanary", ""},
			{"PATCH", "/v2/" + rp + "/blobs/uploads/..%2f..%2f..%2fcanary", "body"},
			{"DELETE", "/v2/" + rp + "/blobs/uploads/..%2f..%2fcanary", ""},
			{"GET", "/v2/" + rp + "/blobs/sha256/" + strings.Repeat("ab", 32) + "/tags/list", ""},
		}
		q := reqs[rng.Intn(len(reqs))]
		var body []byte
		hdr := map[string]string{"Accept": vh.AcceptAll}
		switch q[2] {
		case "body":
			body = nb
		case "manifest":
			cfg := &vh.Blob{Name: "c", B: nb, D: nd}
			m := vh.MkImage("n", "sha256", vh.MTImage, cfg, vh.MTConfig, nil, "", "", map[string]string{"n": fmt.Sprint(i, n)})
			if rng.Intn(2) == 0 {
				// a descriptor whose digest is a path
				evil := fmt.Sprintf(`{"schemaVersion":2,"mediaType":"%s","config":{"mediaType":"%s","digest":"sha256:../../../../secret/blobs/sha256/%s","size":2},"layers":[]}`, vh.MTImage, vh.MTConfig, sd[7:])
				body = []byte(evil)
			} else {
				body = m.Raw
			}
			hdr["Content-Type"] = vh.MTImage
		}
		st, rb := httpDo(port, q[0], q[1], hdr, body)
		trace = append(trace, fmt.Sprintf("%s %s = %d", q[0], q[1], st))
		r.Count("requests", 1)
		if st == 200 && (strings.Contains(string(rb), "top secret") || string(rb) == "canary") {
			wit["requests"] = trace
			r.Violation("escape:content", fmt.Sprintf("%s %s served content from outside the root", q[0], q[1]), wit)
		}
	}
	time.Sleep(120 * time.Millisecond) // a few collection ticks
	// ---- stop: SIGTERM to the traced process (its pid is the first token of the log)
	if b, err := os.ReadFile(logf); err == nil {
		if m := lineRE.FindSubmatch(bytes.SplitN(b, []byte("\n"), 2)[0]); m != nil {
			if pid, err := strconv.Atoi(string(m[1])); err == nil {
				_ = syscall.Kill(pid, syscall.SIGTERM)
			}
		}
	}
	select {
	case <-done:
	case <-time.After(30 * time.Second):
		_ = syscall.Kill(-cmd.Process.Pid, syscall.SIGKILL)
		<-done
		r.Inconclusive("the traced binary did not exit within 30 s after SIGTERM")
	}
	// ---- the syscall log
	b, _ := os.ReadFile(logf)
	nsys, npaths := 0, 0
	var bad []string
	for _, ln := range strings.Split(string(b), "\n") {
		m := lineRE.FindStringSubmatch(ln)
		if m == nil {
			continue
		}
		name, rest := m[2], m[3]
		if name == "execve" {
			continue
		}
		nsys++
		mutating := mutName[name]
		if (name == "openat" || name == "open" || name == "openat2") && (strings.Contains(rest, "O_WRONLY") || strings.Contains(rest, "O_RDWR") || strings.Contains(rest, "O_CREAT") || strings.Contains(rest, "O_TRUNC") || strings.Contains(rest, "O_APPEND")) {
			mutating = true
		}
		for _, qm := range quoteRE.FindAllStringSubmatch(rest, -1) {
			p := unescape(qm[1])
			if !filepath.IsAbs(p) {
				continue // relative to the binary's working directory, which is outside the sandbox
			}
			np := filepath.Clean(p)
			if np != outer && !strings.HasPrefix(np, outer+"/") {
				continue
			}
			npaths++
			inRoot := np == root || strings.HasPrefix(np, root+"/")
			switch focus {
			case "C16":
				if !inRoot && np != outer {
					bad = append(bad, fmt.Sprintf("%s names %s (as %q), outside the root", name, strings.TrimPrefix(np, outer), p))
				}
			case "C14":
				if inRoot && mutating {
					bad = append(bad, fmt.Sprintf("mutating syscall %s on %s: %.120s", name, strings.TrimPrefix(np, outer), ln))
				}
				if !inRoot && np != outer {
					bad = append(bad, fmt.Sprintf("%s names %s, outside the root", name, strings.TrimPrefix(np, outer)))
				}
			}
		}
	}
	r.Count("syscalls_parsed", nsys)
	r.Count("sandbox_paths_checked", npaths)
	if len(bad) > 0 {
		if len(bad) > 8 {
			bad = bad[:8]
		}
		wit["requests"] = trace
		r.Violation("syscall:"+strings.Fields(bad[0])[0], fmt.Sprintf("%s (%s): %s", focus, mode, strings.Join(bad, "; ")), wit)
	}
	if focus == "C14" {
		if after := snapshot(root, ""); strings.Join(after, "\n") != strings.Join(beforeRoot, "\n") {
			wit["requests"] = trace
			r.Violation("root-changed", fmt.Sprintf("the %s store changed its root directory", mode), wit)
		}
	}
	if after := snapshot(outer, root); strings.Join(after, "\n") != strings.Join(beforeOut, "\n") {
		wit["requests"] = trace
		r.Violation("outside-changed", "the tree outside the root changed", wit)
	}
	r.Count("traced_trials", 1)
	r.Distinct("modes", mode+fmt.Sprint(legacy))
	if i < 1 {
		if len(trace) > 12 {
			trace = trace[:12]
		}
		r.Sample(map[string]any{"trial": i, "mode": mode, "first_requests": trace, "syscalls_parsed": nsys})
	}
}

func main() {
	r := vh.Start()
	bin := os.Getenv("VERIF_OLAREG")
	focus := r.Focus
	if bin == "" {
		fmt.Fprintln(os.Stderr, "VERIF_OLAREG not set")
		os.Exit(2)
	}
	if _, err := exec.LookPath("strace"); err != nil {
		r.Inconclusive("strace is not installed")
		r.Count("traced_trials", 0)
		r.Finish("strace tier skipped", "traced_trials", "modes")
		return
	}
	n := r.N(4, 24)
	vh.Parallel(n, 4, func(i int) { trial(r, focus, bin, i) })
	r.Require("traced_trials", int64(n/2))
	r.Require("sandbox_paths_checked", int64(n*50))
	r.Finish("the built binary under strace -f -e trace=%file, 70 hostile requests per trial over loopback (uploads, mounts incl. traversal sources, pushes incl. descriptors whose digest is a path, deletes, listings, referrers, dot-segment and encoded paths), collection ticker at 40 ms; every path of every file syscall inside the sandbox is judged; a case is one traced process, distinct = store modes", "traced_trials", "modes")
}
