// C08: upload sessions are strictly sequential, isolated and leave no residue.
//
// Family 1 (protocol): random sequences over <=5 interleaved sessions in 2 repositories with correct, stale,
// future and malformed offsets and state tokens, ids used against the other repository, empty chunks, cancel,
// right and wrong final digests.  Per-session model (repo, bytes received, open).  After every request: status
// query of every open session reports exactly the bytes received; conservation: open sessions of the model ==
// sessions listed by the registry (hook) == files under _uploads (directory store); digests of proper prefixes
// stay 404; a finished session's blob equals the concatenation; any further use of a finished id is 4xx.
// Family 2 (bound): RepoUploadMax=N, N+k sessions => at most N remain, the least recently used ones went.
// Family 3 (expiry): small grace period, one-sided timing (see DESIGN C08).
package main

import (
	"bytes"
	"context"
	"encoding/base64"
	"fmt"
	"io"
	"math/rand"
	"net/http/httptest"
	"os"
	"path/filepath"
	"sort"
	"strings"
	"time"

	"github.com/olareg/olareg"
	"github.com/olareg/olareg/internal/verif/vh"
)

type sess struct {
	id     string
	repo   string
	path   string   // /v2/<repo>/blobs/uploads/<id>
	locs   []string // every Location the registry handed out (stale states come from here)
	bytes  []byte
	open   bool
	n      int
	prefix []string // digests of proper prefixes held at some time

	mountFallback bool // created by a failed mount: the registry remembers the mount digest
}

type env struct {
	r     *vh.Run
	idx   int
	srv   *olareg.Server
	kind  vh.StoreKind
	root  string
	repos []string
	ss    []*sess
	done  map[string][]byte // repo/digest -> bytes of completed uploads
	trace []string
	bad   bool
	reqs  int
}

func (e *env) viol(sig, detail string) {
	e.bad = true
	tr := e.trace
	if len(tr) > 70 {
		tr = tr[len(tr)-70:]
	}
	e.r.Violation(sig, detail, map[string]any{"batch": e.idx, "store": e.kind.String(), "trace": tr})
}

func (e *env) do(rq vh.Req) vh.Resp {
	e.reqs++
	return vh.Do(e.srv, rq)
}

func state(off int64) string {
	return base64.RawURLEncoding.EncodeToString([]byte(fmt.Sprintf(`{"offset":%d}`, off)))
}

func idOf(loc string) string {
	p := loc
	if i := strings.IndexByte(p, '?'); i >= 0 {
		p = p[:i]
	}
	return p[strings.LastIndexByte(p, '/')+1:]
}

func pathOf(loc string) string {
	if i := strings.IndexByte(loc, '?'); i >= 0 {
		return loc[:i]
	}
	return loc
}

func (e *env) openOf(repo string) []string {
	var ids []string
	for _, s := range e.ss {
		if s.open && s.repo == repo {
			ids = append(ids, s.id)
		}
	}
	sort.Strings(ids)
	return ids
}

// conservation: model sessions == registry sessions == temp files.
func (e *env) conservation(when string) {
	for _, rp := range e.repos {
		want := e.openOf(rp)
		got, err := e.srv.VerifUploads(context.Background(), rp)
		if err != nil {
			e.viol("hook", "VerifUploads: "+err.Error())
			return
		}
		sort.Strings(got)
		e.r.Count("conservation_checks", 1)
		if strings.Join(want, ",") != strings.Join(got, ",") {
			e.viol("conservation:sessions", fmt.Sprintf("%s: repository %s has sessions %v, the protocol history leaves %v open", when, rp, got, want))
			return
		}
		if e.kind == vh.Dir {
			files, _ := filepath.Glob(filepath.Join(e.root, rp, "_uploads", "*"))
			if len(files) != len(want) {
				e.viol("conservation:files", fmt.Sprintf("%s: %d temporary files under %s/_uploads, %d sessions open", when, len(files), rp, len(want)))
				return
			}
		}
	}
}

func (e *env) statusAll() {
	for _, s := range e.ss {
		if !s.open || e.bad {
			continue
		}
		rs := e.do(vh.Req{Method: "GET", URL: s.path})
		e.r.Count("status_queries", 1)
		if rs.Status != 204 {
			e.viol("status:code", fmt.Sprintf("status query of open session %d answered %d", s.n, rs.Status))
			return
		}
		rg := rs.H.Get("Range")
		n := len(s.bytes)
		ok := rg == fmt.Sprintf("0-%d", n-1)
		if n == 0 && (rg == "" || rg == "0--1") {
			// nothing received: no range at all, or the registry's own spelling of "ends before it starts".  "0-0" is
			// the status of a session that holds one byte - an answer that cannot tell the two apart does not report
			// exactly the bytes received
			ok = true
		}
		if !ok {
			e.viol("status:range", fmt.Sprintf("session %d holds %d bytes, status query reports Range %q", s.n, n, rg))
			return
		}
		if loc := rs.H.Get("Location"); loc != "" {
			s.locs = append(s.locs, loc)
		}
	}
}

func (e *env) prefixes404() {
	for _, s := range e.ss {
		for _, d := range s.prefix {
			if _, ok := e.done[s.repo+"/"+d]; ok {
				continue
			}
			rs := e.do(vh.Req{Method: "HEAD", URL: "/v2/" + s.repo + "/blobs/" + d})
			e.r.Count("prefix_probes", 1)
			if rs.Status == 200 {
				e.viol("partial-content-became-blob", fmt.Sprintf("a proper prefix of session %d's content is retrievable as blob %s", s.n, vh.Short(d)))
				return
			}
		}
	}
}

func (e *env) step(rng *rand.Rand) {
	var open []*sess
	for _, s := range e.ss {
		if s.open {
			open = append(open, s)
		}
	}
	k := rng.Intn(20)
	if len(open) == 0 || (k < 3 && len(open) < 5) {
		repo := e.repos[rng.Intn(len(e.repos))]
		u := "/v2/" + repo + "/blobs/uploads/"
		if rng.Intn(4) == 0 {
			u += "?digest-algorithm=" + []string{"sha256", "sha512", "sha384"}[rng.Intn(3)]
		}
		mountFallback := false
		if rng.Intn(5) == 0 {
			// a mount whose source lacks the blob falls back to a session that remembers the mount digest
			other := e.repos[0]
			if other == repo {
				other = e.repos[1]
			}
			u = "/v2/" + repo + "/blobs/uploads/?mount=" + vh.DigestOf("sha256", []byte(fmt.Sprintf("absent%d.%d", e.idx, len(e.ss)))) + "&from=" + other
			mountFallback = true
		}
		rs := e.do(vh.Req{Method: "POST", URL: u})
		loc := rs.H.Get("Location")
		if rs.Status != 202 || loc == "" {
			e.viol("create", fmt.Sprintf("POST %s answered %d", u, rs.Status))
			return
		}
		s := &sess{id: idOf(loc), repo: repo, path: pathOf(loc), locs: []string{loc}, open: true, n: len(e.ss), mountFallback: mountFallback}
		e.ss = append(e.ss, s)
		e.trace = append(e.trace, fmt.Sprintf("s%d: POST in %s", s.n, repo))
		e.r.Count("sessions", 1)
		return
	}
	s := open[rng.Intn(len(open))]
	cur := int64(len(s.bytes))
	chunk := make([]byte, []int{0, 1, 2, 17, 400, 3000}[rng.Intn(6)])
	for i := range chunk {
		chunk[i] = byte('a' + rng.Intn(26))
	}
	chunk = append(chunk, []byte(fmt.Sprintf("<%d.%d.%d>", e.idx, s.n, len(e.trace)))...)
	if rng.Intn(8) == 0 {
		chunk = []byte{}
	}
	switch {
	case k < 11: // PATCH
		// offset flavours
		crKind := []string{"right", "right", "right", "none", "stale", "future", "malformed"}[rng.Intn(7)]
		stKind := []string{"right", "right", "right", "right", "stale", "future", "malformed", "absent"}[rng.Intn(8)]
		hd := map[string]string{}
		switch crKind {
		case "right":
			hd["Content-Range"] = fmt.Sprintf("%d-%d", cur, cur+int64(len(chunk))-1)
		case "stale":
			if cur == 0 {
				crKind = "right"
				hd["Content-Range"] = fmt.Sprintf("%d-%d", cur, cur+int64(len(chunk))-1)
			} else {
				o := rng.Int63n(cur)
				hd["Content-Range"] = fmt.Sprintf("%d-%d", o, o+int64(len(chunk))-1)
			}
		case "future":
			o := cur + 1 + rng.Int63n(5)
			if rng.Intn(4) == 0 {
				o = 1<<62 + cur
			}
			hd["Content-Range"] = fmt.Sprintf("%d-%d", o, o+int64(len(chunk)))
		case "malformed":
			hd["Content-Range"] = []string{"abc", "-5", "5", "x-y", "1.5-9", "bytes 0-5", "-", "0x0-0x5", "99999999999999999999-5"}[rng.Intn(9)]
			if hd["Content-Range"] == "5" && cur == 5 {
				hd["Content-Range"] = "abc"
			}
		}
		st := ""
		switch stKind {
		case "right":
			st = state(cur)
		case "stale":
			if cur == 0 {
				stKind, st = "right", state(cur)
			} else {
				st = state(rng.Int63n(cur))
			}
		case "future":
			st = state(cur + 1 + rng.Int63n(9))
		case "malformed":
			st = []string{"!!!", "e30", "bnVsbA", base64.RawURLEncoding.EncodeToString([]byte(`{"offset":"x"}`)), "%00", base64.RawURLEncoding.EncodeToString([]byte(`[1]`))}[rng.Intn(6)]
			// "e30" = {} and "bnVsbA" = null decode to offset 0: only malformed when bytes were received
			if (st == "e30" || st == "bnVsbA") && cur == 0 {
				st = "!!!"
			}
		}
		u := s.path
		if stKind != "absent" {
			u += "?state=" + st
		}
		rs := e.do(vh.Req{Method: "PATCH", URL: u, H: hd, Body: chunk})
		mustRefuse := crKind == "stale" || crKind == "future" || crKind == "malformed" || stKind == "stale" || stKind == "future" || stKind == "malformed"
		e.trace = append(e.trace, fmt.Sprintf("s%d: PATCH %d bytes at %d range=%s(%q) state=%s -> %d", s.n, len(chunk), cur, crKind, hd["Content-Range"], stKind, rs.Status))
		e.r.Distinct("patch_classes", crKind+"/"+stKind)
		switch {
		case mustRefuse:
			e.r.Count("refused_chunk_checks", 1)
			if rs.Status < 400 || rs.Status >= 500 {
				e.viol("out-of-order-chunk-not-refused", fmt.Sprintf("PATCH with range %s (%q) and state %s while %d bytes are held answered %d", crKind, hd["Content-Range"], stKind, cur, rs.Status))
			}
			// the session is unaltered: checked by statusAll below
		case stKind == "absent":
			// may: the model follows the answer
			if rs.Status == 202 {
				s.bytes = append(s.bytes, chunk...)
			} else if rs.Status >= 500 {
				e.viol("patch-5xx", fmt.Sprintf("PATCH without state answered %d", rs.Status))
			}
		default:
			if rs.Status != 202 {
				e.viol("in-order-chunk-refused", fmt.Sprintf("in-order PATCH (range %s, state right) at %d answered %d", crKind, cur, rs.Status))
				return
			}
			s.bytes = append(s.bytes, chunk...)
			e.r.Count("chunks_accepted", 1)
			if want := fmt.Sprintf("0-%d", len(s.bytes)-1); rs.H.Get("Range") != want && len(s.bytes) > 0 {
				e.viol("patch-range-header", fmt.Sprintf("after an accepted chunk the answer reports Range %q, %d bytes are held", rs.H.Get("Range"), len(s.bytes)))
				return
			}
		}
		if loc := rs.H.Get("Location"); loc != "" && rs.Status == 202 {
			s.locs = append(s.locs, loc)
		}
		if n := len(s.bytes); n > 1 && rng.Intn(2) == 0 {
			s.prefix = append(s.prefix, vh.DigestOf("sha256", s.bytes[:n-1]))
		}
	case k < 13: // foreign repository
		other := e.repos[0]
		if other == s.repo {
			other = e.repos[1]
		}
		m := []string{"PATCH", "GET", "PUT", "DELETE"}[rng.Intn(4)]
		u := "/v2/" + other + "/blobs/uploads/" + s.id + "?state=" + state(cur)
		if m == "PUT" {
			u += "&digest=" + vh.DigestOf("sha256", s.bytes)
		}
		rs := e.do(vh.Req{Method: m, URL: u, Body: chunk})
		e.trace = append(e.trace, fmt.Sprintf("s%d: %s under foreign repository %s -> %d", s.n, m, other, rs.Status))
		e.r.Count("foreign_repo_uses", 1)
		if rs.Status < 400 || rs.Status >= 500 {
			e.viol("session-not-bound-to-repository", fmt.Sprintf("%s of session %d (repository %s) under %s answered %d", m, s.n, s.repo, other, rs.Status))
		}
	case k < 15: // cancel
		rs := e.do(vh.Req{Method: "DELETE", URL: s.path})
		e.trace = append(e.trace, fmt.Sprintf("s%d: DELETE -> %d", s.n, rs.Status))
		if rs.Status != 202 && rs.Status != 204 {
			e.viol("cancel", fmt.Sprintf("cancel of open session %d answered %d", s.n, rs.Status))
			return
		}
		s.open = false
		e.r.Count("cancelled", 1)
		if len(s.bytes) > 0 {
			s.prefix = append(s.prefix, vh.DigestOf("sha256", s.bytes))
		}
	case k < 19: // PUT
		final := append(append([]byte{}, s.bytes...), chunk...)
		alg := []string{"sha256", "sha256", "sha512"}[rng.Intn(3)]
		good := vh.DigestOf(alg, final)
		kind := []string{"right", "right", "wrong", "stale-state", "prefix-digest"}[rng.Intn(5)]
		decl, st := good, state(cur)
		switch kind {
		case "wrong":
			decl = vh.DigestOf(alg, append([]byte("x"), final...))
		case "prefix-digest":
			if len(s.bytes) == 0 || len(chunk) == 0 {
				kind = "right"
			} else {
				decl = vh.DigestOf(alg, s.bytes)
			}
		case "stale-state":
			if cur == 0 {
				kind = "right"
			} else {
				st = state(rng.Int63n(cur))
				switch cur % 4 {
				case 1:
					st = "!!!" // no base64 at all: the completing request refuses it like a stale one, the session stays
				case 2:
					st = base64.RawURLEncoding.EncodeToString([]byte(`{"offset":"x"}`))
				}
			}
		}
		hd := map[string]string{}
		if rng.Intn(2) == 0 {
			hd["Content-Range"] = fmt.Sprintf("%d-%d", cur, cur+int64(len(chunk))-1)
		}
		rs := e.do(vh.Req{Method: "PUT", URL: s.path + "?state=" + st + "&digest=" + decl, H: hd, Body: chunk})
		e.trace = append(e.trace, fmt.Sprintf("s%d: PUT %s (+%d bytes at %d) -> %d", s.n, kind, len(chunk), cur, rs.Status))
		e.r.Distinct("put_classes", kind+"/"+alg)
		switch kind {
		case "right":
			if s.mountFallback && rs.Status >= 400 && rs.Status < 500 {
				// the digest differs from the one given at creation: refusing is a failed verification, the session ends
				s.open = false
				e.r.Count("mount_fallback_refusals", 1)
				s.prefix = append(s.prefix, vh.DigestOf("sha256", final))
				break
			}
			if rs.Status != 201 {
				e.viol("completion-refused", fmt.Sprintf("correct completion of session %d answered %d", s.n, rs.Status))
				return
			}
			s.open = false
			e.done[s.repo+"/"+good] = final
			e.r.Count("completed", 1)
			g := e.do(vh.Req{Method: "GET", URL: "/v2/" + s.repo + "/blobs/" + good})
			if g.Status != 200 || string(g.Body) != string(final) {
				e.viol("blob-not-concatenation", fmt.Sprintf("blob of session %d: status %d, %d bytes, the accepted chunks concatenate to %d bytes", s.n, g.Status, len(g.Body), len(final)))
				return
			}
			if len(s.bytes) > 0 && len(chunk) > 0 {
				s.prefix = append(s.prefix, vh.DigestOf("sha256", s.bytes))
			}
		case "stale-state":
			if rs.Status < 400 || rs.Status >= 500 {
				e.viol("out-of-order-chunk-not-refused", fmt.Sprintf("PUT with a stale state while %d bytes are held answered %d", cur, rs.Status))
				return
			}
			// refused without altering the session
		default: // failed verification: the session ceases to exist
			if rs.Status < 400 || rs.Status >= 500 {
				e.viol("failed-verification-not-4xx", fmt.Sprintf("completion with a digest that does not match (%s) answered %d", kind, rs.Status))
				return
			}
			s.open = false
			e.r.Count("failed_verifications", 1)
			s.prefix = append(s.prefix, vh.DigestOf("sha256", final), decl)
		}
	default: // use of a finished id
		var fin []*sess
		for _, x := range e.ss {
			if !x.open {
				fin = append(fin, x)
			}
		}
		if len(fin) == 0 {
			return
		}
		x := fin[rng.Intn(len(fin))]
		m := []string{"PATCH", "GET", "PUT", "DELETE"}[rng.Intn(4)]
		u := x.path + "?state=" + state(int64(len(x.bytes)))
		if m == "PUT" {
			u += "&digest=" + vh.DigestOf("sha256", x.bytes)
		}
		rs := e.do(vh.Req{Method: m, URL: u})
		e.trace = append(e.trace, fmt.Sprintf("s%d: %s after the session ended -> %d", x.n, m, rs.Status))
		e.r.Count("finished_id_uses", 1)
		if rs.Status < 400 || rs.Status >= 500 {
			e.viol("finished-session-usable", fmt.Sprintf("%s on session %d after it ended answered %d", m, x.n, rs.Status))
		}
	}
}

func protocol(r *vh.Run, i int) {
	rng := r.Rand(i)
	kind := []vh.StoreKind{vh.Mem, vh.Dir}[i%2]
	root := ""
	if kind == vh.Dir {
		root = r.TempDir("c08")
		defer vh.RemoveAll(root)
	}
	srv := vh.New(vh.Conf(kind, root, vh.Neutral))
	e := &env{r: r, idx: i, srv: srv, kind: kind, root: root, repos: []string{"a", "a/b"}, done: map[string][]byte{}}
	n := 40 + rng.Intn(40)
	for op := 0; op < n && !e.bad; op++ {
		e.step(rng)
		r.Count("operations", 1)
		if !e.bad {
			e.statusAll()
		}
		if !e.bad {
			e.conservation("after a request")
		}
		if !e.bad && op%7 == 0 {
			e.prefixes404()
		}
	}
	if !e.bad {
		e.prefixes404()
	}
	_ = srv.Close()
	if !e.bad && kind == vh.Dir {
		for _, rp := range e.repos {
			files, _ := filepath.Glob(filepath.Join(root, rp, "_uploads", "*"))
			if len(files) != 0 {
				e.viol("residue-after-close", fmt.Sprintf("%d temporary files remain under %s/_uploads after Close", len(files), rp))
			}
		}
	}
	r.Count("batches", 1)
	r.Count("requests", e.reqs)
	if i < 2 {
		tr := e.trace
		if len(tr) > 25 {
			tr = tr[:25]
		}
		r.Sample(map[string]any{"batch": i, "store": kind.String(), "first_requests": tr})
	}
}

// bound: RepoUploadMax=N.
func bound(r *vh.Run, i int) {
	rng := r.Rand(700_000 + i)
	kind := []vh.StoreKind{vh.Mem, vh.Dir}[i%2]
	root := ""
	if kind == vh.Dir {
		root = r.TempDir("c08b")
		defer vh.RemoveAll(root)
	}
	N := []int{1, 2, 3, 10}[rng.Intn(4)]
	pol := vh.Neutral
	if (i/2)%3 == 1 {
		pol.Grace = -1 // expiry disabled: the bound is the only thing that ends idle sessions
	}
	c := vh.Conf(kind, root, pol)
	c.Storage.GC.RepoUploadMax = N
	srv := vh.New(c)
	defer srv.Close()
	type s struct {
		path string
		id   string
		use  int
	}
	var ss []*s
	clock := 0
	k := 1 + rng.Intn(3)
	wit := map[string]any{"batch": i, "store": kind.String(), "limit": N, "extra": k, "expiry_enabled": pol.Grace > 0}
	for j := 0; j < N+k; j++ {
		rs := vh.Do(srv, vh.Req{Method: "POST", URL: "/v2/b/blobs/uploads/"})
		if rs.Status != 202 {
			r.Violation("create", fmt.Sprintf("POST answered %d", rs.Status), wit)
			return
		}
		clock++
		ss = append(ss, &s{path: pathOf(rs.H.Get("Location")), id: idOf(rs.H.Get("Location")), use: clock})
		time.Sleep(1500 * time.Microsecond)
		if j < N-1 && j > 0 && rng.Intn(3) == 0 {
			// refresh an older session so that LRU differs from creation order
			x := ss[rng.Intn(len(ss))]
			if g := vh.Do(srv, vh.Req{Method: "GET", URL: x.path}); g.Status == 204 {
				clock++
				x.use = clock
				time.Sleep(1500 * time.Microsecond)
			}
		}
	}
	var ids []string
	ok := false
	for p := 0; p < 400; p++ {
		ids, _ = srv.VerifUploads(context.Background(), "b")
		if len(ids) <= N {
			ok = true
			break
		}
		time.Sleep(5 * time.Millisecond)
	}
	time.Sleep(5 * time.Millisecond)
	ids, _ = srv.VerifUploads(context.Background(), "b")
	r.Count("bound_trials", 1)
	r.Distinct("bound_configs", fmt.Sprintf("%d+%d/%s/expiry=%v", N, k, kind, pol.Grace > 0))
	if !ok || len(ids) > N {
		r.Violation("bound-exceeded", fmt.Sprintf("%d sessions open with RepoUploadMax=%d after waiting 2s", len(ids), N), wit)
		return
	}
	alive := map[string]bool{}
	for _, id := range ids {
		alive[id] = true
	}
	for _, e := range ss {
		if alive[e.id] {
			continue
		}
		r.Count("evictions_observed", 1)
		for _, sv := range ss {
			if alive[sv.id] && e.use > sv.use {
				r.Violation("eviction-not-lru", fmt.Sprintf("session used at step %d was evicted while one used at step %d survived (limit %d)", e.use, sv.use, N), wit)
				return
			}
		}
		// evicted: further use refused, no temporary file
		g := vh.Do(srv, vh.Req{Method: "GET", URL: e.path})
		if g.Status < 400 || g.Status >= 500 {
			r.Violation("evicted-session-usable", fmt.Sprintf("status query of an evicted session answered %d", g.Status), wit)
			return
		}
	}
	if kind == vh.Dir {
		files, _ := filepath.Glob(filepath.Join(root, "b", "_uploads", "*"))
		if len(files) != len(ids) {
			r.Violation("conservation:files", fmt.Sprintf("%d temporary files, %d sessions open after eviction", len(files), len(ids)), wit)
		}
	}
}

// expiry: small grace period.
func expiry(r *vh.Run, i int) {
	rng := r.Rand(800_000 + i)
	kind := []vh.StoreKind{vh.Mem, vh.Dir}[i%2]
	root := ""
	if kind == vh.Dir {
		root = r.TempDir("c08e")
		defer vh.RemoveAll(root)
	}
	age := []time.Duration{40 * time.Millisecond, 80 * time.Millisecond}[rng.Intn(2)]
	p := vh.Neutral
	p.Grace = age
	c := vh.Conf(kind, root, p)
	srv := vh.New(c)
	defer srv.Close()
	wit := map[string]any{"batch": i, "store": kind.String(), "grace": age.String()}
	post := func() string {
		rs := vh.Do(srv, vh.Req{Method: "POST", URL: "/v2/e/blobs/uploads/"})
		if rs.Status != 202 {
			return ""
		}
		return pathOf(rs.H.Get("Location"))
	}
	if i%4 >= 2 {
		// empty the repository's session table by explicit removals first (a completed upload, a cancelled one): expiry
		// must work for sessions opened afterwards as well
		if p1 := post(); p1 != "" {
			body := []byte(fmt.Sprintf("warmup %d", i))
			vh.Do(srv, vh.Req{Method: "PUT", URL: p1 + "?state=" + state(0) + "&digest=" + vh.DigestOf("sha256", body), Body: body})
		}
		if p2 := post(); p2 != "" {
			vh.Do(srv, vh.Req{Method: "DELETE", URL: p2})
		}
		wit["table_emptied_first"] = true
		r.Count("expiry_trials_after_emptying", 1)
	}
	idle, live := post(), post()
	if idle == "" || live == "" {
		r.Violation("create", "POST failed", wit)
		return
	}
	// keep one session alive with chunks; one-sided bound on "reported gone"
	base := time.Now()
	lastStart := time.Since(base)
	off := 0
	early := ""
	for j := 0; j < 14; j++ {
		time.Sleep(age / 5)
		st := time.Since(base)
		body := []byte(fmt.Sprintf("chunk%d;", j))
		rs := vh.Do(srv, vh.Req{Method: "PATCH", URL: live + "?state=" + state(int64(off)), H: map[string]string{"Content-Range": fmt.Sprintf("%d-%d", off, off+len(body)-1)}, Body: body})
		en := time.Since(base)
		if rs.Status == 202 {
			off += len(body)
			lastStart = st
			continue
		}
		if en-lastStart < age {
			early = fmt.Sprintf("session reported gone (status %d) %v after a successful use of it started; grace period %v", rs.Status, en-lastStart, age)
		}
		break
	}
	r.Count("expiry_trials", 1)
	if early != "" {
		r.Violation("expired-while-in-use", early, wit)
		return
	}
	// the idle one must be gone within a generous bound, with its file
	gone := false
	for p := 0; p < 300; p++ {
		ids, _ := srv.VerifUploads(context.Background(), "e")
		found := false
		for _, id := range ids {
			if strings.HasSuffix(idle, "/"+id) {
				found = true
			}
		}
		if !found {
			gone = true
			break
		}
		time.Sleep(10 * time.Millisecond)
	}
	if !gone {
		r.Violation("idle-session-never-expires", fmt.Sprintf("an idle session is still open 3s after its last use, grace period %v", age), wit)
		return
	}
	r.Count("expiries_observed", 1)
	g := vh.Do(srv, vh.Req{Method: "GET", URL: idle})
	if g.Status < 400 || g.Status >= 500 {
		r.Violation("expired-session-usable", fmt.Sprintf("status query of an expired session answered %d", g.Status), wit)
	}
	if kind == vh.Dir {
		ids, _ := srv.VerifUploads(context.Background(), "e")
		ok := false
		var files []string
		for p := 0; p < 100 && !ok; p++ {
			files, _ = filepath.Glob(filepath.Join(root, "e", "_uploads", "*"))
			ids, _ = srv.VerifUploads(context.Background(), "e")
			ok = len(files) <= len(ids)
			if !ok {
				time.Sleep(5 * time.Millisecond)
			}
		}
		if !ok {
			r.Violation("conservation:files", fmt.Sprintf("%d temporary files but %d sessions after expiry", len(files), len(ids)), wit)
		}
	}
	_ = os.Getpid
}

type pipeBody struct {
	r *io.PipeReader
}

func (p *pipeBody) Read(b []byte) (int, error) { return p.r.Read(b) }
func (p *pipeBody) Close() error               { return p.r.Close() }

// inflight: family 4 - the session ends (cancel, eviction, expiry) while the body of its completing PUT is still
// being sent; the rest of the body is further use of a session that has ceased to exist: the PUT must not be
// acknowledged and the content must not become a blob.
func inflight(r *vh.Run, i int) {
	rng := r.Rand(850_000 + i)
	kind := []vh.StoreKind{vh.Mem, vh.Dir}[i%2]
	how := []string{"cancel", "evict", "expire"}[(i/2)%3]
	root := ""
	if kind == vh.Dir {
		root = r.TempDir("c08f")
		defer vh.RemoveAll(root)
	}
	p := vh.Neutral
	if how == "expire" {
		p.Grace = 60 * time.Millisecond
	}
	c := vh.Conf(kind, root, p)
	if how == "evict" {
		c.Storage.GC.RepoUploadMax = 2
	}
	srv := vh.New(c)
	defer srv.Close()
	wit := map[string]any{"trial": i, "store": kind.String(), "session_ended_by": how}
	rs := vh.Do(srv, vh.Req{Method: "POST", URL: "/v2/f/blobs/uploads/"})
	loc := rs.H.Get("Location")
	if rs.Status != 202 || loc == "" {
		return
	}
	path, id := pathOf(loc), idOf(loc)
	part1 := []byte(fmt.Sprintf("part one %d;", i))
	part2a := bytes.Repeat([]byte("a"), 100+rng.Intn(4000))
	part2b := []byte(fmt.Sprintf(";the rest %d", i))
	// in half of the trials nothing follows after the session has ended: the body simply ends, and the only further
	// use of the session is its completion
	noMore := (i/6)%2 == 1
	if noMore {
		part2b = nil
	}
	if ps := vh.Do(srv, vh.Req{Method: "PATCH", URL: loc, Body: part1}); ps.Status != 202 {
		return
	}
	full := append(append(append([]byte{}, part1...), part2a...), part2b...)
	d := vh.DigestOf("sha256", full)
	pr, pw := io.Pipe()
	// in some of the trials with more data the request in flight is a PATCH, not the completing PUT: the bytes it
	// delivers after the session has ended belong to no session, acknowledging them would be "further use"
	// (also when nothing more arrives: the answer then acknowledges a chunk - and hands out a Location to go on with - for
	// a session that has ceased to exist)
	usePatch := (i/12)%2 == 1
	req := httptest.NewRequest("PUT", path+"?state="+state(int64(len(part1)))+"&digest="+d, &pipeBody{r: pr})
	if usePatch {
		req = httptest.NewRequest("PATCH", path+"?state="+state(int64(len(part1))), &pipeBody{r: pr})
	}
	req.ContentLength = -1
	done := make(chan int, 1)
	go func() {
		w := httptest.NewRecorder()
		srv.ServeHTTP(w, req)
		done <- w.Result().StatusCode
	}()
	_, _ = pw.Write(part2a)
	// wait until the handler has stored what was sent so far (hook listing does not refresh the session)
	stored := false
	for k := 0; k < 400 && !stored; k++ {
		g := vh.Do(srv, vh.Req{Method: "GET", URL: path})
		if g.Status == 204 && g.H.Get("Range") == fmt.Sprintf("0-%d", len(part1)+len(part2a)-1) {
			stored = true
		} else {
			time.Sleep(2 * time.Millisecond)
		}
	}
	if !stored {
		_ = pw.Close()
		<-done
		r.Count("inflight_trials_not_established", 1)
		return
	}
	gone := func() bool {
		ids, _ := srv.VerifUploads(context.Background(), "f")
		for _, x := range ids {
			if x == id {
				return false
			}
		}
		return true
	}
	switch how {
	case "cancel":
		vh.Do(srv, vh.Req{Method: "DELETE", URL: path})
	case "evict":
		for k := 0; k < 4; k++ {
			vh.Do(srv, vh.Req{Method: "POST", URL: "/v2/f/blobs/uploads/"})
			time.Sleep(2 * time.Millisecond)
		}
	}
	ended := false
	for k := 0; k < 600 && !ended; k++ {
		if gone() {
			ended = true
		} else {
			time.Sleep(5 * time.Millisecond)
		}
	}
	if !ended {
		_ = pw.Close()
		<-done
		r.Count("inflight_trials_session_survived", 1)
		return
	}
	if !noMore {
		_, _ = pw.Write(part2b)
	}
	_ = pw.Close()
	var st int
	select {
	case st = <-done:
	case <-time.After(60 * time.Second):
		r.Inconclusive("PUT with a held body did not return within 60 s")
		return
	}
	r.Count("inflight_trials", 1)
	r.Distinct("inflight_cells", fmt.Sprintf("%s/%s/more=%v/patch=%v", how, kind, !noMore, usePatch))
	wit["body_ends_without_more_data"] = noMore
	wit["put_status"] = st
	if usePatch {
		wit["request_in_flight"] = "PATCH"
		if st >= 200 && st < 300 {
			r.Violation("ended-session-accepted-data:"+how, fmt.Sprintf("the session was ended (%s) while the body of a PATCH was in flight; %d more bytes arrived afterwards and the PATCH was acknowledged with %d - for a session that no longer exists (%s store)", how, len(part2b), st, kind), wit)
		}
		return
	}
	if st == 201 {
		r.Violation("ended-session-completed:"+how, fmt.Sprintf("the session was ended (%s) while the body of its PUT was in flight; the PUT was still acknowledged with 201 (%s store, more data after the end: %v)", how, kind, !noMore), wit)
		return
	}
	if g := vh.Do(srv, vh.Req{Method: "HEAD", URL: "/v2/f/blobs/" + d}); g.Status == 200 {
		r.Violation("ended-session-became-blob:"+how, fmt.Sprintf("the content of a session ended (%s) mid-request is retrievable as a blob (%s store)", how, kind), wit)
	}
}

// brokenMonolithic: family 6 - a monolithic POST whose body breaks off (the connection died in the middle).  The
// session the store opened for it was never made known to anybody: it ceases to exist with the refusal - it does not
// count against the bound and leaves no file - and the client's own session is untouched.
func brokenMonolithic(r *vh.Run, i int) {
	kind := []vh.StoreKind{vh.Mem, vh.Dir}[i%2]
	root := ""
	if kind == vh.Dir {
		root = r.TempDir("c08b")
		defer vh.RemoveAll(root)
	}
	c := vh.Conf(kind, root, vh.Neutral)
	max := []int{0, 2, 3}[(i/2)%3]
	if max > 0 {
		c.Storage.GC.RepoUploadMax = max
	}
	srv := vh.New(c)
	defer srv.Close()
	wit := map[string]any{"trial": i, "store": kind.String(), "repo_upload_max": max}
	rs := vh.Do(srv, vh.Req{Method: "POST", URL: "/v2/m/blobs/uploads/"})
	loc := rs.H.Get("Location")
	if rs.Status != 202 || loc == "" {
		return
	}
	path, id := pathOf(loc), idOf(loc)
	if ps := vh.Do(srv, vh.Req{Method: "PATCH", URL: loc, Body: []byte("sixsix")}); ps.Status != 202 {
		return
	}
	nbroken := 2 + i%3
	for k := 0; k < nbroken; k++ {
		b := []byte(fmt.Sprintf("monolithic content that never arrives completely %d %d", i, k))
		bs := vh.Do(srv, vh.Req{Method: "POST", URL: "/v2/m/blobs/uploads/?digest=" + vh.DigestOf("sha256", b), Body: b[:10+k], Short: len(b) - 10 - k, UnknownLen: k%2 == 1})
		if bs.Status < 400 || bs.Status >= 500 {
			wit["status"] = bs.Status
			r.Violation("broken-monolithic:status", fmt.Sprintf("a monolithic POST whose body broke off was answered %d", bs.Status), wit)
			return
		}
		if g := vh.Do(srv, vh.Req{Method: "HEAD", URL: "/v2/m/blobs/" + vh.DigestOf("sha256", b)}); g.Status == 200 {
			r.Violation("partial-content-became-blob:broken-monolithic", "the declared digest of a broken-off monolithic POST is served", wit)
			return
		}
	}
	// ... monolithic POSTs that arrive completely but do not hash to the digest they declare: refused (failed
	// verification), and the session the store opened for them is gone with the refusal
	for k := 0; k < 3; k++ {
		b := []byte(fmt.Sprintf("monolithic content under a wrong digest %d %d", i, k))
		ws := vh.Do(srv, vh.Req{Method: "POST", URL: "/v2/m/blobs/uploads/?digest=" + vh.DigestOf("sha256", append([]byte("x"), b...)), Body: b, UnknownLen: k == 1})
		if ws.Status < 400 || ws.Status >= 500 {
			wit["status"] = ws.Status
			r.Violation("broken-monolithic:status", fmt.Sprintf("a monolithic POST whose content does not match its digest was answered %d", ws.Status), wit)
			return
		}
	}
	// ... and monolithic POSTs that arrive completely while their client is already gone (the request context is
	// cancelled): whether the store still completes them or gives up - a session nobody knows never stays behind
	gone, cancelGone := context.WithCancel(context.Background())
	cancelGone()
	for k := 0; k < 6; k++ {
		b := []byte(fmt.Sprintf("monolithic content of a client that left %d %d", i, k))
		gs := vh.Do(srv, vh.Req{Method: "POST", URL: "/v2/m/blobs/uploads/?digest=" + vh.DigestOf("sha256", b), Body: b, Ctx: gone})
		r.Count(fmt.Sprintf("monolithic_of_departed_client_%dxx", gs.Status/100), 1)
	}
	r.Count("broken_monolithic_trials", 1)
	ids, _ := srv.VerifUploads(context.Background(), "m")
	wit["open_sessions"] = len(ids)
	if len(ids) != 1 || ids[0] != id {
		r.Violation("conservation:sessions:broken-monolithic", fmt.Sprintf("%s store: one session was opened by the client, %d monolithic POSTs broke off and were refused, three did not match their digest, six more arrived from a client that had left; the store now holds %d sessions (the client's own among them: %v)", kind, nbroken, len(ids), len(ids) > 0 && contains(ids, id)), wit)
		return
	}
	if g := vh.Do(srv, vh.Req{Method: "GET", URL: path}); g.Status != 204 || g.H.Get("Range") != "0-5" {
		r.Violation("session-altered:broken-monolithic", fmt.Sprintf("the client's session answers %d Range %q after the broken-off POSTs", g.Status, g.H.Get("Range")), wit)
		return
	}
	if kind == vh.Dir {
		ents, _ := os.ReadDir(root + "/m/_uploads")
		if len(ents) != 1 {
			r.Violation("conservation:files:broken-monolithic", fmt.Sprintf("directory store: %d files under _uploads, one session is open", len(ents)), wit)
		}
	}
}

func contains(l []string, x string) bool {
	for _, y := range l {
		if y == x {
			return true
		}
	}
	return false
}

// overlap: family 5 - two PATCH requests of one session in flight together, both declaring the same start.  The first
// has sent its headers (its start was compared with the bytes received: 0 of 0, fine) and holds its body back; the
// second delivers 4 bytes and is acknowledged.  When the body of the first arrives, its declared start (0) differs
// from the bytes received (4): "refused without altering the session".  The check of the offset and the writing of
// the body are not one step in the handlers (recorded finding K10).
func overlap(r *vh.Run, i int) {
	kind := []vh.StoreKind{vh.Mem, vh.Dir}[i%2]
	root := ""
	if kind == vh.Dir {
		root = r.TempDir("c08o")
		defer vh.RemoveAll(root)
	}
	srv := vh.New(vh.Conf(kind, root, vh.Neutral))
	defer srv.Close()
	rs := vh.Do(srv, vh.Req{Method: "POST", URL: "/v2/o/blobs/uploads/"})
	loc := rs.H.Get("Location")
	if rs.Status != 202 || loc == "" {
		return
	}
	pr, pw := io.Pipe()
	body := &pipeBody{r: pr}
	reqA := httptest.NewRequest("PATCH", loc, body)
	reqA.Header.Set("Content-Range", "0-3")
	reqA.ContentLength = 4
	doneA := make(chan *httptest.ResponseRecorder, 1)
	go func() {
		w := httptest.NewRecorder()
		srv.ServeHTTP(w, reqA)
		doneA <- w
	}()
	// give the handler of A the time to pass its checks (nothing decides on this pause: if A has not got that far, B's
	// write comes first and A is refused for its stale start - the trial then shows nothing)
	time.Sleep(20 * time.Millisecond)
	b := vh.Do(srv, vh.Req{Method: "PATCH", URL: loc, H: map[string]string{"Content-Range": "0-3"}, Body: []byte("BBBB")})
	_, _ = pw.Write([]byte("AAAA"))
	_ = pw.Close()
	a := <-doneA
	r.Count("overlap_trials", 1)
	r.Distinct("overlap_cells", fmt.Sprintf("%s/%d/%d", kind, a.Code/100, b.Status/100))
	if a.Code == 202 && b.Status == 202 {
		r.Violation("K10:overlapping-chunks-both-accepted", fmt.Sprintf("two PATCH requests of one session, both with Content-Range 0-3, were both acknowledged (the second while the first was waiting for its body): the first one's chunk, declared for offset 0, was appended at offset 4 (Range answered %q; %s store)", a.Header().Get("Range"), kind),
			map[string]any{"trial": i, "store": kind.String(), "first_patch_range_header": a.Header().Get("Range"), "second_patch_range_header": b.H.Get("Range")})
	}
}

func main() {
	r := vh.Start()
	np := r.N(200, 8000)
	nb := r.N(48, 1000)
	ne := r.N(32, 600)
	vh.Parallel(np, 16, func(i int) { protocol(r, i) })
	// timing sensitive families run with less parallelism
	nf := r.N(48, 960)
	vh.Parallel(nb+ne+nf, 8, func(i int) {
		switch {
		case i < nb:
			bound(r, i)
		case i < nb+ne:
			expiry(r, i-nb)
		default:
			inflight(r, i-nb-ne)
		}
	})
	no := r.N(12, 200)
	vh.Parallel(no, 4, func(i int) { overlap(r, i) })
	nbm := r.N(18, 360)
	vh.Parallel(nbm, 8, func(i int) { brokenMonolithic(r, i) })
	r.Require("broken_monolithic_trials", int64(nbm*3/4))
	r.Require("inflight_trials", int64(nf/2))
	r.Count("cases", np+nb+ne+nf)
	r.Require("sessions", int64(np*3))
	r.Require("refused_chunk_checks", 500)
	r.Require("conservation_checks", 5000)
	r.Require("evictions_observed", 20)
	r.Require("expiries_observed", 10)
	r.RequireDistinct("patch_classes", 20)
	r.Finish("(1) protocol sequences of 40-80 requests over <=5 interleaved sessions in repositories a and a/b: PATCH with Content-Range right/none/stale/future/malformed x state right/stale/future/malformed/absent, empty chunks, foreign-repository use, cancel, PUT right/wrong/prefix digest/stale state, reuse of finished ids; status query of every open session, conservation (model == hook listing == _uploads files) and prefix-digest probes after every request; (2) RepoUploadMax in {1,2,3,10} with N+k sessions, expiry enabled or disabled: bound and LRU; (3) expiry with 40/80 ms grace, one-sided timing; (4) sessions ended while the completing PUT is in flight; (5) two PATCH requests of one session in flight with the same start; (6) monolithic POSTs whose body breaks off next to a client session (bound 0/2/3). A case is one sequence/trial, distinct = (range class, state class) pairs exercised", "cases", "patch_classes")
}
