// Package vsync is a check-time shim for package sync.  The driver builds olareg, internal/store and
// internal/cache with their import of "sync" replaced by `sync "…/internal/verif/vsync"` (one line per file,
// through the build overlay).  Mutex and WaitGroup embed the real primitives, so the race detector's view is
// unchanged; on top they
//
//   - add seeded jitter *before* an acquisition (never inside a critical section of the wrapper itself),
//   - record, under one internal lock, who holds which mutex and who waits for which one, so that a watchdog can
//     decide "deadlock" from a cycle in the wait-for graph (DESIGN Appendix B) instead of from a deadline,
//   - record lock-order edges (held -> requested, with call sites) for the evidence.
//
// Everything else of package sync is passed through.
package vsync

import (
	"fmt"
	"runtime"
	"sort"
	"strings"
	"sync"
	"sync/atomic"
	"time"
)

type (
	Once    = sync.Once
	Map     = sync.Map
	Pool    = sync.Pool
	Cond    = sync.Cond
	Locker  = sync.Locker
	RWMutex = sync.RWMutex
)

func NewCond(l Locker) *Cond                             { return sync.NewCond(l) }
func OnceFunc(f func()) func()                           { return sync.OnceFunc(f) }
func OnceValue[T any](f func() T) func() T               { return sync.OnceValue(f) }
func OnceValues[A, B any](f func() (A, B)) func() (A, B) { return sync.OnceValues(f) }

// ---- configuration

var (
	jitterOn   atomic.Bool
	jitterSeed atomic.Uint64
	jitterCtr  atomic.Uint64
	trackOn    atomic.Bool

	// statistics
	Acquisitions atomic.Int64
	Contended    atomic.Int64
	Jitters      atomic.Int64
)

// SetJitter enables seeded jitter before Lock / Wait.
func SetJitter(on bool, seed uint64) {
	jitterSeed.Store(seed)
	jitterOn.Store(on)
}

// SetHold makes every Lock whose caller's function name contains fn sleep for d right after the acquisition: the
// critical section takes that much longer, the way a slow disk or a large chunk makes it in production.  d == 0 turns
// it off.  Meant for directed trials that need one lock to be held across a timer period.
func SetHold(fn string, d time.Duration) {
	holdFn.Store(fn)
	holdDur.Store(int64(d))
}

var (
	holdFn  atomic.Value
	holdDur atomic.Int64
)

// SetGate makes the next Lock whose caller's function name contains fn stop right after the acquisition - inside its
// critical section - until release is called; parked is closed when a caller has stopped there.  One caller is held,
// later ones pass.  For directed trials that need "X holds this lock now" as a fact rather than as a timing guess.
func SetGate(fn string) (parked <-chan struct{}, release func()) { return setGate(fn, false) }

// SetGateBefore is SetGate with the stop placed before the acquisition: the caller has not got the lock yet (and keeps
// whatever else it holds), everybody else can still take it.
func SetGateBefore(fn string) (parked <-chan struct{}, release func()) { return setGate(fn, true) }

func setGate(fn string, before bool) (parked <-chan struct{}, release func()) {
	g := &gate{fn: fn, before: before, parked: make(chan struct{}), open: make(chan struct{})}
	gateP.Store(g)
	var once sync.Once
	return g.parked, func() { once.Do(func() { gateP.CompareAndSwap(g, nil); close(g.open) }) }
}

type gate struct {
	fn     string
	before bool
	taken  atomic.Bool
	parked chan struct{}
	open   chan struct{}
}

var gateP atomic.Pointer[gate]

// holdBefore is called first thing in Lock.
func holdBefore() {
	if g := gateP.Load(); g != nil && g.before {
		if pc, _, _, ok := runtime.Caller(2); ok {
			if f := runtime.FuncForPC(pc); f != nil && strings.Contains(f.Name(), g.fn) && g.taken.CompareAndSwap(false, true) {
				close(g.parked)
				<-g.open
			}
		}
	}
}

func hold() {
	if g := gateP.Load(); g != nil && !g.before {
		if pc, _, _, ok := runtime.Caller(2); ok {
			if f := runtime.FuncForPC(pc); f != nil && strings.Contains(f.Name(), g.fn) && g.taken.CompareAndSwap(false, true) {
				close(g.parked)
				<-g.open
			}
		}
	}
	d := holdDur.Load()
	if d == 0 {
		return
	}
	fn, _ := holdFn.Load().(string)
	if pc, _, _, ok := runtime.Caller(2); ok && fn != "" {
		if f := runtime.FuncForPC(pc); f != nil && strings.Contains(f.Name(), fn) {
			time.Sleep(time.Duration(d))
		}
	}
}

// SetTracking enables the holder / waiter bookkeeping.
func SetTracking(on bool) { trackOn.Store(on) }

func splitmix(x uint64) uint64 {
	x += 0x9e3779b97f4a7c15
	x = (x ^ (x >> 30)) * 0xbf58476d1ce4e5b9
	x = (x ^ (x >> 27)) * 0x94d049bb133111eb
	return x ^ (x >> 31)
}

func jitter() {
	if !jitterOn.Load() {
		return
	}
	v := splitmix(jitterSeed.Load() ^ jitterCtr.Add(1))
	switch k := v % 100; {
	case k < 70:
	case k < 90:
		Jitters.Add(1)
		runtime.Gosched()
	default:
		Jitters.Add(1)
		time.Sleep(time.Duration(10+(v>>8)%190) * time.Microsecond)
	}
}

// ---- goroutine identity

func gid() int64 {
	var buf [64]byte
	n := runtime.Stack(buf[:], false)
	// "goroutine 123 [running]:"
	var id int64
	for _, c := range buf[len("goroutine "):n] {
		if c < '0' || c > '9' {
			break
		}
		id = id*10 + int64(c-'0')
	}
	return id
}

func site(skip int) string {
	_, file, line, ok := runtime.Caller(skip)
	if !ok {
		return "?"
	}
	if i := strings.LastIndex(file, "/olareg/"); i >= 0 {
		file = file[i+len("/olareg/"):]
	}
	return fmt.Sprintf("%s:%d", file, line)
}

// ---- bookkeeping

type waitInfo struct {
	m     *Mutex
	site  string
	since time.Time
}

var (
	bk      sync.Mutex
	holder  = map[*Mutex]int64{}
	hsite   = map[*Mutex]string{}
	held    = map[int64][]*Mutex{}
	waiting = map[int64]waitInfo{}
	edges   = map[string]int{} // "siteHeld -> siteWanted" lock-order edges
	wgWait  = map[int64]string{}
)

// Mutex is an instrumented sync.Mutex.
type Mutex struct {
	mu sync.Mutex
}

func (m *Mutex) Lock() {
	holdBefore()
	jitter()
	Acquisitions.Add(1)
	if !trackOn.Load() {
		m.mu.Lock()
		hold()
		return
	}
	if m.mu.TryLock() {
		g := gid()
		s := site(2)
		bk.Lock()
		m.acquired(g, s)
		bk.Unlock()
		hold()
		return
	}
	Contended.Add(1)
	g := gid()
	s := site(2)
	bk.Lock()
	waiting[g] = waitInfo{m: m, site: s, since: time.Now()}
	for _, h := range held[g] {
		edges[hsite[h]+" -> "+s]++
	}
	bk.Unlock()
	m.mu.Lock()
	bk.Lock()
	delete(waiting, g)
	m.acquired(g, s)
	bk.Unlock()
	hold()
}

// acquired is called with bk held.
func (m *Mutex) acquired(g int64, s string) {
	for _, h := range held[g] {
		if h != m {
			edges[hsite[h]+" -> "+s]++
		}
	}
	holder[m] = g
	hsite[m] = s
	held[g] = append(held[g], m)
}

func (m *Mutex) TryLock() bool {
	ok := m.mu.TryLock()
	if ok && trackOn.Load() {
		g := gid()
		bk.Lock()
		m.acquired(g, site(2))
		bk.Unlock()
	}
	return ok
}

func (m *Mutex) Unlock() {
	if trackOn.Load() {
		bk.Lock()
		if g, ok := holder[m]; ok {
			delete(holder, m)
			delete(hsite, m)
			l := held[g]
			for i := len(l) - 1; i >= 0; i-- {
				if l[i] == m {
					l = append(l[:i], l[i+1:]...)
					break
				}
			}
			if len(l) == 0 {
				delete(held, g)
			} else {
				held[g] = l
			}
		}
		bk.Unlock()
	}
	m.mu.Unlock()
}

// WaitGroup is a sync.WaitGroup with jitter before Wait; waits are recorded but contribute no wait-for edges.
type WaitGroup struct {
	wg sync.WaitGroup
}

func (w *WaitGroup) Add(n int) { w.wg.Add(n) }
func (w *WaitGroup) Done()     { w.wg.Done() }
func (w *WaitGroup) Go(f func()) {
	w.wg.Add(1)
	go func() {
		defer w.wg.Done()
		f()
	}()
}
func (w *WaitGroup) Wait() {
	jitter()
	if trackOn.Load() {
		g := gid()
		bk.Lock()
		wgWait[g] = site(2)
		bk.Unlock()
		defer func() {
			bk.Lock()
			delete(wgWait, g)
			bk.Unlock()
		}()
	}
	w.wg.Wait()
}

// Cycle describes a deadlock: goroutines waiting for mutexes held by each other.
type Cycle struct {
	Desc  string   // canonical description (stable across samples)
	Steps []string // human readable
}

// FindCycle looks for a cycle goroutine -> mutex it waits for -> holder -> ... (mutexes only).
func FindCycle() *Cycle {
	bk.Lock()
	defer bk.Unlock()
	for g0 := range waiting {
		seen := map[int64]bool{}
		var steps []string
		g := g0
		for {
			w, ok := waiting[g]
			if !ok {
				break
			}
			h, ok := holder[w.m]
			if !ok {
				break
			}
			steps = append(steps, fmt.Sprintf("goroutine %d waits at %s (since %s) for the mutex taken at %s by goroutine %d", g, w.site, time.Since(w.since).Round(time.Millisecond), hsite[w.m], h))
			if seen[h] || h == g0 {
				if h != g0 {
					// the cycle does not include g0; it will be found from one of its members
					break
				}
				var sites []string
				for _, s := range steps {
					i := strings.Index(s, " waits at ")
					j := strings.Index(s, " (since")
					k := strings.Index(s, "taken at ")
					l := strings.LastIndex(s, " by goroutine")
					sites = append(sites, s[i+10:j]+"=>"+s[k+9:l])
				}
				sort.Strings(sites)
				return &Cycle{Desc: strings.Join(sites, " | "), Steps: steps}
			}
			seen[g] = true
			g = h
		}
	}
	return nil
}

// Edges returns the lock-order edges observed so far (held site -> requested site) with counts.
func Edges() map[string]int {
	bk.Lock()
	defer bk.Unlock()
	out := make(map[string]int, len(edges))
	for k, v := range edges {
		out[k] = v
	}
	return out
}

// Waiters returns a snapshot of who waits where (mutexes and wait groups).
func Waiters() []string {
	bk.Lock()
	defer bk.Unlock()
	var out []string
	for g, w := range waiting {
		out = append(out, fmt.Sprintf("goroutine %d: mutex at %s since %s", g, w.site, time.Since(w.since).Round(time.Millisecond)))
	}
	for g, s := range wgWait {
		out = append(out, fmt.Sprintf("goroutine %d: waitgroup at %s", g, s))
	}
	sort.Strings(out)
	return out
}
