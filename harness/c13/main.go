// C13: concurrent use of one server is free of data races.
//
// The deciding oracle is the Go race detector (build variants "race": unmodified olareg sources, and
// "vsyncrace": with the jittering sync shim).  The driver runs this binary with
// GORACE="halt_on_error=0 log_path=...", counts the report blocks, keeps those with a frame inside olareg proper
// and de-duplicates them by the pair of innermost olareg functions.  This program only has to make conflicting
// accesses happen: everything at once - all handlers on shared repositories, the collection ticker, session and
// repository expiry, eviction, the referrer page cache with a short expiry, the rate limiter with many client
// addresses - repeated with several seeds because reports vary from run to run.  Close is only called after the
// requests have quiesced.  The harness measures which handler pairs actually overlapped in time.
package main

import (
	"fmt"
	"io"
	"log/slog"
	"math/rand"
	"net/http"
	"net/http/httptest"
	"sort"
	"strings"
	"sync"
	"sync/atomic"
	"time"

	"github.com/olareg/olareg/internal/verif/vh"
	"github.com/olareg/olareg/internal/verif/vsync"
)

type overlap struct {
	mu     sync.Mutex
	active map[string]int
	pairs  map[string]int
}

func (o *overlap) enter(kind string) {
	o.mu.Lock()
	for k, n := range o.active {
		if n > 0 {
			a, b := k, kind
			if a > b {
				a, b = b, a
			}
			o.pairs[a+" || "+b]++
		}
	}
	o.active[kind]++
	o.mu.Unlock()
}

func (o *overlap) leave(kind string) {
	o.mu.Lock()
	o.active[kind]--
	o.mu.Unlock()
}

type tracked struct {
	h  http.Handler
	ov *overlap
}

func routeOf(m, p string) string {
	switch {
	case strings.Contains(p, "/blobs/uploads"):
		return m + " uploads"
	case strings.Contains(p, "/blobs/"):
		return m + " blobs"
	case strings.Contains(p, "/manifests/"):
		return m + " manifests"
	case strings.Contains(p, "/referrers/"):
		return m + " referrers"
	case strings.Contains(p, "/tags/"):
		return m + " tags"
	}
	return m + " other"
}

func (t tracked) ServeHTTP(w http.ResponseWriter, r *http.Request) {
	k := routeOf(r.Method, r.URL.Path)
	t.ov.enter(k)
	defer t.ov.leave(k)
	t.h.ServeHTTP(w, r)
}

func round(r *vh.Run, i int, ov *overlap) {
	rng := r.Rand(i)
	kind := []vh.StoreKind{vh.Dir, vh.Mem, vh.Dir, vh.MemDir}[i%4]
	root := ""
	if kind != vh.Mem {
		root = r.TempDir("c13")
		defer vh.RemoveAll(root)
	}
	c := vh.StressConf(kind, root, rng)
	c.API.RateLimit = 100000
	c.API.Referrer.PageCacheExpire = 15 * time.Millisecond
	c.API.Referrer.PageCacheLimit = 3
	c.API.Referrer.Limit = 700
	if i%3 == 0 {
		c.Storage.GC.GracePeriod = time.Hour // collections run but nothing expires: long-lived sessions and repositories
	}
	if i%4 == 1 || i%4 == 2 || i%8 == 3 { // every store kind gets both kinds of logger
		// a logger that formats everything it is given (as `serve -v debug` does): what is handed to the logger is read
		c.Log = slog.New(slog.NewTextHandler(io.Discard, &slog.HandlerOptions{Level: slog.LevelDebug - 8}))
		r.Count("rounds_with_a_formatting_logger", 1)
	}
	if kind == vh.MemDir {
		// the memory store only reads a backing directory that is an OCI layout: a directory store creates the
		// repositories first, so that the memory store's look-ups in the directory (blobs it does not hold itself) run
		// under the traffic below
		ps := vh.New(vh.Conf(vh.Dir, root, vh.Neutral))
		for _, rp := range []string{"a", "b"} {
			b := []byte(fmt.Sprintf("backing content %d %s", i, rp))
			vh.Do(ps, vh.Req{Method: "POST", URL: "/v2/" + rp + "/blobs/uploads/?digest=" + vh.DigestOf("sha256", b), Body: b})
		}
		_ = ps.Close()
		r.Count("rounds_memory_over_populated_directory", 1)
	}
	srv := vh.New(c)
	h := tracked{h: srv, ov: ov}
	var done, inflight atomic.Int64
	stop := make(chan struct{})
	var wg sync.WaitGroup
	nclients := 8 + rng.Intn(6)
	repos := []string{"a", "b"}[:1+rng.Intn(2)]
	for k := 0; k < nclients; k++ {
		wg.Add(1)
		go func(k int) {
			defer wg.Done()
			vh.StressClient(h, k, r.Seed*104729+int64(i)*977+int64(k), 14, repos, &done, &inflight, stop)
		}(k)
	}
	// readers with many client addresses (rate limiter entries), paged and filtered referrers reads (page cache)
	for k := 0; k < 4; k++ {
		wg.Add(1)
		go func(k int) {
			defer wg.Done()
			rg := rand.New(rand.NewSource(r.Seed + int64(i*31+k)))
			for n := 0; n < 120; n++ {
				repo := repos[rg.Intn(len(repos))]
				addr := fmt.Sprintf("10.0.%d.%d:999", k, rg.Intn(6))
				switch rg.Intn(5) {
				case 0:
					vh.Do(h, vh.Req{Method: "GET", URL: "/v2/", RemoteAddr: addr})
				case 1:
					vh.Do(h, vh.Req{Method: "GET", URL: "/v2/" + repo + "/tags/list?n=2", RemoteAddr: addr})
				case 2:
					vh.Do(h, vh.Req{Method: "GET", URL: "/v2/" + repo + "/manifests/t" + fmt.Sprint(rg.Intn(3)), H: map[string]string{"Accept": vh.AcceptAll}, RemoteAddr: addr})
				default:
					// referrers of whatever t0 points to, with and without filter
					rs := vh.Do(h, vh.Req{Method: "HEAD", URL: "/v2/" + repo + "/manifests/t0", H: map[string]string{"Accept": vh.AcceptAll}, RemoteAddr: addr})
					if d := rs.H.Get("Docker-Content-Digest"); d != "" {
						u := "/v2/" + repo + "/referrers/" + d
						if rg.Intn(2) == 0 {
							u += "?artifactType=application/x.a"
						}
						p := vh.Do(h, vh.Req{Method: "GET", URL: u, RemoteAddr: addr})
						if l := p.H.Get("Link"); l != "" {
							if a, b := strings.Index(l, "<"), strings.Index(l, ">"); a >= 0 && b > a {
								vh.Do(h, vh.Req{Method: "GET", URL: l[a+1 : b], RemoteAddr: addr})
							}
						}
					}
				}
				done.Add(1)
			}
		}(k)
	}
	wg.Wait()
	// quiesce, then close
	time.Sleep(30 * time.Millisecond)
	_ = srv.Close()
	r.Count("rounds", 1)
	r.Count("requests", int(done.Load()))
	r.Distinct("stores", kind.String())
}

type pipeBody struct{ r *io.PipeReader }

func (p *pipeBody) Read(b []byte) (int, error) { return p.r.Read(b) }
func (p *pipeBody) Close() error               { return p.r.Close() }

// sessionPairs: two requests on ONE upload session in flight together, each on its own goroutine and with nothing
// in the harness ordering them (the detector decides on happens-before, so an ordering through the harness would hide
// a race): a streamed PATCH that keeps delivering pieces for a few milliseconds against a cancel, a completing PUT, a
// status query, a second PATCH, an eviction (sessions beyond the bound created by another client) or the expiry
// timer.  The first write after the other request's effect is the interesting access.
func sessionPairs(r *vh.Run, i int) {
	rng := r.Rand(9_000_000 + i)
	kind := []vh.StoreKind{vh.Dir, vh.Mem, vh.MemDir}[i%3]
	root := ""
	if kind != vh.Mem {
		root = r.TempDir("c13s")
		defer vh.RemoveAll(root)
	}
	pol := vh.Neutral
	others := []string{"cancel", "put", "status", "patch", "evict", "expire"}
	c := vh.Conf(kind, root, pol)
	c.Storage.GC.RepoUploadMax = 2
	srvLong := vh.New(c)
	defer srvLong.Close()
	pe := pol
	pe.Grace = 25 * time.Millisecond
	ce := vh.Conf(kind, root, pe)
	for t := 0; t < 12; t++ {
		other := others[(i+t)%len(others)]
		srv := srvLong
		if other == "expire" {
			srv = vh.New(ce) // sessions idle for 25 ms are expired by the cache timer
		}
		repo := fmt.Sprintf("s%d", t%2)
		rs := vh.Do(srv, vh.Req{Method: "POST", URL: "/v2/" + repo + "/blobs/uploads/"})
		loc := rs.H.Get("Location")
		if rs.Status != 202 || loc == "" {
			continue
		}
		path := loc[:strings.Index(loc, "?")]
		first := []byte(fmt.Sprintf("first %d.%d;", i, t))
		if ps := vh.Do(srv, vh.Req{Method: "PATCH", URL: loc, Body: first}); ps.Status == 202 && ps.H.Get("Location") != "" {
			loc = ps.H.Get("Location")
		}
		pr, pw := io.Pipe()
		req := httptest.NewRequest("PATCH", loc, &pipeBody{r: pr})
		req.ContentLength = -1
		var wg sync.WaitGroup
		wg.Add(3)
		go func() { // the handler of the streamed PATCH
			defer wg.Done()
			w := httptest.NewRecorder()
			func() {
				defer func() { _ = recover() }()
				srv.ServeHTTP(w, req)
			}()
			_ = pr.Close()
		}()
		pause := other == "expire"
		go func() { // its sender
			defer wg.Done()
			for k := 0; k < 24; k++ {
				if _, err := pw.Write([]byte(fmt.Sprintf("piece %d;", k))); err != nil {
					break
				}
				if pause && k == 8 {
					time.Sleep(45 * time.Millisecond)
				} else {
					time.Sleep(150 * time.Microsecond)
				}
			}
			_ = pw.Close()
		}()
		delay := time.Duration(rng.Intn(2500)) * time.Microsecond
		go func() { // the other request
			defer wg.Done()
			time.Sleep(delay)
			switch other {
			case "cancel":
				vh.Do(srv, vh.Req{Method: "DELETE", URL: path})
			case "put":
				vh.Do(srv, vh.Req{Method: "PUT", URL: loc + "&digest=" + vh.DigestOf("sha256", first)})
			case "status":
				for k := 0; k < 5; k++ {
					vh.Do(srv, vh.Req{Method: "GET", URL: path})
				}
			case "patch":
				vh.Do(srv, vh.Req{Method: "PATCH", URL: loc, Body: []byte("second writer")})
			case "evict":
				for k := 0; k < 4; k++ {
					if e := vh.Do(srv, vh.Req{Method: "POST", URL: "/v2/" + repo + "/blobs/uploads/"}); e.Status == 202 {
						vh.Do(srv, vh.Req{Method: "PATCH", URL: e.H.Get("Location"), Body: []byte("x")})
					}
				}
			case "expire":
				// nothing to send: the cache timer is the other party
			}
		}()
		wg.Wait()
		r.Count("same_session_pairs", 1)
		r.Distinct("same_session_pair_kinds", other+"/"+kind.String())
		if other == "expire" {
			_ = srv.Close()
		}
	}
}

// freshRepoTrial: requests that are the FIRST to touch a repository that exists on disk (the directory store then
// builds and publishes its repository object) while the background jobs that walk the published repositories - the
// collection ticker and the expiry timer of the repository cache - fire as often as they can.  With a grace period
// of nanoseconds every request is a first one again.
func freshRepoTrial(r *vh.Run, i int) {
	root := r.TempDir("c13f")
	defer vh.RemoveAll(root)
	s0 := vh.New(vh.Conf(vh.Dir, root, vh.Neutral))
	const nrepo = 6
	for k := 0; k < nrepo; k++ {
		b := []byte(fmt.Sprintf("fresh %d %d", i, k))
		vh.Do(s0, vh.Req{Method: "POST", URL: fmt.Sprintf("/v2/f%d/blobs/uploads/?digest=%s", k, vh.DigestOf("sha256", b)), Body: b})
	}
	_ = s0.Close()
	c := vh.Conf([]vh.StoreKind{vh.Dir, vh.Dir, vh.MemDir}[i%3], root, vh.Policy{Grace: 1})
	c.Storage.GC.GracePeriod = []time.Duration{time.Nanosecond, 30 * time.Microsecond, 400 * time.Microsecond, time.Hour}[(i/3)%4]
	c.Storage.GC.Frequency = []time.Duration{200 * time.Microsecond, time.Millisecond, 5 * time.Millisecond}[(i/12)%3]
	for n := 0; n < 6; n++ { // several servers: the first tick of a ticker sees every repository as modified
		srv := vh.New(c)
		var wg sync.WaitGroup
		for cl := 0; cl < 3; cl++ {
			wg.Add(1)
			go func(cl int) {
				defer wg.Done()
				for q := 0; q < 24; q++ {
					k := (q + cl*2) % nrepo
					switch q % 3 {
					case 0:
						vh.Do(srv, vh.Req{Method: "GET", URL: fmt.Sprintf("/v2/f%d/tags/list", k)})
					case 1:
						b := []byte(fmt.Sprintf("fresh %d %d", i, k))
						vh.Do(srv, vh.Req{Method: "HEAD", URL: fmt.Sprintf("/v2/f%d/blobs/%s", k, vh.DigestOf("sha256", b))})
					default:
						vh.Do(srv, vh.Req{Method: "GET", URL: fmt.Sprintf("/v2/f%d/referrers/%s", k, vh.DigestOf("sha256", []byte("none")))})
					}
					r.Count("first_touch_requests", 1)
				}
			}(cl)
		}
		wg.Wait()
		_ = srv.Close()
	}
	r.Count("fresh_repository_trials", 1)
}

func main() {
	r := vh.Start()
	if strings.HasPrefix(r.Variant(), "vsync") {
		vsync.SetJitter(true, uint64(r.Seed)*0x9e3779b97f4a7c15+7)
	}
	ov := &overlap{active: map[string]int{}, pairs: map[string]int{}}
	n := r.N(10, 80)
	ns := r.N(18, 240)
	nf := r.N(12, 144)
	vh.Parallel(n+ns+nf, 3, func(i int) {
		switch {
		case i < n:
			round(r, i, ov)
		case i < n+ns:
			sessionPairs(r, i-n)
		default:
			freshRepoTrial(r, i-n-ns)
		}
	})
	r.Require("fresh_repository_trials", int64(nf))
	r.Require("same_session_pairs", int64(ns*6))
	ov.mu.Lock()
	var ps []string
	for p, c := range ov.pairs {
		r.Distinct("overlapping_handler_pairs", p)
		ps = append(ps, fmt.Sprintf("%s x%d", p, c))
	}
	ov.mu.Unlock()
	sort.Strings(ps)
	if len(ps) > 15 {
		ps = ps[:15]
	}
	r.Sample(map[string]any{"handler_pairs_that_overlapped_in_time": ps})
	r.Require("rounds", int64(n))
	r.Require("requests", int64(n*400))
	r.RequireDistinct("overlapping_handler_pairs", 40)
	r.Finish("rounds of 8-13 stress clients (chunked uploads with expiry and eviction underneath, image and artifact pushes, referrers reads, deletes, listings) plus 4 readers with many client addresses (rate limiter), paged and filtered referrers reads against a 15 ms / 3-entry page cache, on 1-2 shared repositories with collection every 5-10 ms, grace period 20-60 ms or 1 h, directory / memory / memory-over-directory stores; plus directed pairs on ONE upload session (a streamed PATCH against cancel / completing PUT / status / second PATCH / eviction / expiry timer, unordered by the harness); half of the rounds with a logger that formats every record; first-touch trials (requests to repositories that exist on disk and are not cached, grace period 1 ns - 1 h, collection every 0.2-5 ms, six servers per trial); under the Go race detector; the oracle is the detector's report log (read by the driver); a case is one round, distinct = handler pairs that actually overlapped in time", "rounds", "overlapping_handler_pairs")
}
