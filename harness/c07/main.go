// C07: referrers responses list exactly the manifests that have the subject.
//
// Random histories of pushing / re-pushing / deleting artifacts (by tag and by digest), deleting and
// re-pushing subjects, restarts; after every operation, for every subject ever named, the Link chain of
// GET /referrers/<subject> is followed and compared with the model set { present manifests whose subject is S }:
// each digest once, descriptor fields as pushed, 200 + OCI index type also for unknown subjects/repositories,
// artifactType filter = exact subset + OCI-Filters-Applied on every response (first, repeated, continuation),
// pages within the configured size limit.
package main

import (
	"encoding/json"
	"fmt"
	"math/rand"
	"net/http"
	"sort"
	"strings"
	"time"

	"github.com/olareg/olareg"
	"github.com/olareg/olareg/internal/verif/vh"
)

type hist struct {
	r     *vh.Run
	idx   int
	w     *vh.World
	srv   *olareg.Server
	root  string
	kind  vh.StoreKind
	limit int64
	bad   bool
	rngv  *rand.Rand
}

func (h *hist) viol(sig, detail string) {
	h.bad = true
	tr := h.w.Trace
	if len(tr) > 60 {
		tr = tr[len(tr)-60:]
	}
	h.r.Violation(sig, detail, map[string]any{"history": h.idx, "store": h.kind.String(), "limit": h.limit, "trace": tr})
}

func descSize(d vh.RefDesc) int {
	b, _ := json.Marshal(d)
	return len(b)
}

// checkSubject compares the referrers answers for one subject with the model.
func (h *hist) checkSubject(repo, sj string) {
	w := h.w
	m := w.Repos[repo]
	want := []string{}
	if m != nil {
		want = m.Referrers(sj)
	}
	filters := []string{""}
	ats := map[string]bool{}
	for _, d := range want {
		ats[w.U.ByD[d].AT] = true
	}
	for at := range ats {
		if at != "" {
			filters = append(filters, at)
		}
	}
	sort.Strings(filters)
	filters = append(filters, "application/x.none")
	for _, f := range filters {
		// twice: the second answer may come from the page cache and must be identical in content and headers
		for rep := 0; rep < 2; rep++ {
			descs, pages, sizes, hdrs, prob := w.WalkReferrers(repo, sj, f)
			h.r.Count("list_walks", 1)
			if pages > 1 {
				h.r.Count("paged_walks", 1)
			}
			if f != "" {
				h.r.Count("filtered_walks", 1)
			}
			if rep == 1 {
				h.r.Count("repeated_walks", 1)
			}
			if prob != "" {
				h.viol("referrers:response", fmt.Sprintf("referrers of %s filter %q: %s", w.NameOf(sj), f, prob))
				return
			}
			for i, hd := range hdrs {
				got := hd.Get("OCI-Filters-Applied")
				// every filtered answer announces the filter, also the empty one for a subject nobody refers to
				if f != "" && got != "artifactType" {
					h.viol("referrers:filter-header", fmt.Sprintf("filtered request (artifactType=%s), response %d of %d (repetition %d) lacks OCI-Filters-Applied (got %q)", f, i+1, pages, rep, got))
					return
				}
				if f == "" && got != "" {
					h.viol("referrers:filter-header", fmt.Sprintf("unfiltered request announces OCI-Filters-Applied=%q", got))
					return
				}
			}
			for _, sz := range sizes {
				if int64(sz) > h.limit {
					h.viol("referrers:page-size", fmt.Sprintf("a page of %d bytes exceeds the limit %d", sz, h.limit))
					return
				}
			}
			exp := map[string]bool{}
			mayMiss := map[string]bool{}
			for _, d := range want {
				mm := w.U.ByD[d]
				if f != "" && mm.AT != f {
					continue
				}
				exp[d] = true
				ds := descSize(vh.RefDesc{MediaType: mm.MT, Digest: mm.D, Size: int64(len(mm.Raw)), ArtifactType: mm.AT, Annotations: mm.Ann})
				if int64(ds+160) > h.limit {
					mayMiss[d] = true // a single entry that (nearly) cannot fit in a page
				}
			}
			seen := map[string]bool{}
			for _, d := range descs {
				if seen[d.Digest] {
					h.viol("referrers:duplicate", fmt.Sprintf("digest %s listed twice for subject %s (filter %q)", vh.Short(d.Digest), vh.Short(sj), f))
					return
				}
				seen[d.Digest] = true
				if !exp[d.Digest] {
					h.viol("referrers:extra", fmt.Sprintf("referrers of %s (filter %q) list %s which is not a present manifest with that subject and type; specification %s", vh.Short(sj), f, w.NameOf(d.Digest), w.NamesOf(keys(exp))))
					return
				}
				mm := w.U.ByD[d.Digest]
				if d.Size != int64(len(mm.Raw)) || d.MediaType != mm.MT || d.ArtifactType != mm.AT || !sameAnn(d.Annotations, mm.Ann) {
					h.viol("referrers:descriptor", fmt.Sprintf("descriptor of %s: size %d mediaType %s artifactType %q annotations %v; pushed: %d %s %q %v", mm.Name, d.Size, d.MediaType, d.ArtifactType, d.Annotations, len(mm.Raw), mm.MT, mm.AT, mm.Ann))
					return
				}
				h.r.Count("descriptors_checked", 1)
			}
			for d := range exp {
				if !seen[d] && !mayMiss[d] {
					h.viol("referrers:missing", fmt.Sprintf("referrers of %s (filter %q, %d pages) lack %s; listed %s", vh.Short(sj), f, pages, w.NameOf(d), w.NamesOf(keys(seen))))
					return
				}
			}
		}
	}
}

func keys(m map[string]bool) []string {
	out := []string{}
	for k := range m {
		out = append(out, k)
	}
	sort.Strings(out)
	return out
}

func sameAnn(a, b map[string]string) bool {
	if len(a) != len(b) {
		return false
	}
	for k, v := range a {
		if b[k] != v {
			return false
		}
	}
	return true
}

func (h *hist) checkAll() {
	for _, sj := range h.w.U.Subjects {
		if h.bad {
			return
		}
		h.checkSubject("r", sj)
	}
	// a continuation request names a cache digest and a page: whatever it names, the answer lists referrers of the
	// subject in the URL only (the cache digest of one subject's paged answer given with another subject)
	if !h.bad {
		m := h.w.Repos["r"]
		for _, s1 := range h.w.U.Subjects {
			first := h.w.Do(vh.Req{Method: "GET", URL: "/v2/r/referrers/" + s1})
			link := first.H.Get("Link")
			ci := strings.Index(link, "cache=")
			if first.Status != 200 || ci < 0 {
				continue
			}
			cache := link[ci+6:]
			if j := strings.IndexAny(cache, "&>"); j >= 0 {
				cache = cache[:j]
			}
			for _, s2 := range h.w.U.Subjects {
				if s2 == s1 {
					continue
				}
				own := map[string]bool{}
				for _, d := range m.Referrers(s2) {
					own[d] = true
				}
				for pg := 1; pg <= 2; pg++ {
					rq := vh.Req{Method: "GET", URL: fmt.Sprintf("/v2/r/referrers/%s?cache=%s&page=%d", s2, cache, pg)}
					rs := h.w.Do(rq)
					h.r.Count("foreign_cache_digest_probes", 1)
					var idx struct {
						Manifests []struct{ Digest string } `json:"manifests"`
					}
					if rs.Status != 200 || json.Unmarshal(rs.Body, &idx) != nil {
						continue
					}
					for _, d := range idx.Manifests {
						if !own[d.Digest] {
							h.viol("referrers:foreign-page", fmt.Sprintf("GET %s (the cache digest belongs to the paged answer of %s) lists %s, which is not a referrer of %s", rq.URL, h.w.NameOf(s1), h.w.NameOf(d.Digest), h.w.NameOf(s2)))
							return
						}
					}
				}
			}
			break // one paged subject per round is enough
		}
	}
	// unknown repository, unknown subject: empty index, status 200
	if !h.bad && h.idx%3 == 0 {
		rs := h.w.Do(vh.Req{Method: "GET", URL: "/v2/nosuchrepo/referrers/" + h.w.U.Missing})
		var idx struct {
			MediaType string
			Manifests []any
		}
		if rs.Status != 200 || rs.H.Get("Content-Type") != vh.MTIndex || json.Unmarshal(rs.Body, &idx) != nil || len(idx.Manifests) != 0 {
			h.viol("referrers:unknown-repo", fmt.Sprintf("referrers of an unknown repository: status %d type %q body %.80s", rs.Status, rs.H.Get("Content-Type"), rs.Body))
		}
	}
}

func (h *hist) step() {
	w, u := h.w, h.w.U
	rng := h.rngv
	m := w.Repos["r"]
	switch k := rng.Intn(20); {
	case k < 2:
		w.PushBlob("r", u.Blobs[rng.Intn(len(u.Blobs))])
	case k < 12:
		// bias to artifacts
		var arts, others []*vh.Man
		for _, mm := range u.Mans {
			if mm.Subject != "" {
				arts = append(arts, mm)
			} else {
				others = append(others, mm)
			}
		}
		mm := arts[rng.Intn(len(arts))]
		if rng.Intn(4) == 0 {
			mm = others[rng.Intn(len(others))]
		}
		tag := ""
		if rng.Intn(2) == 0 {
			tag = u.Tags[rng.Intn(len(u.Tags))]
		}
		rs, ok := w.PutManifest("r", mm, tag)
		if (rs.Status == 201) != ok || rs.Status >= 500 {
			h.bad = true
			h.r.Count("foreign_put_status", 1)
			return
		}
		if rs.Status == 201 && mm.Subject != "" {
			h.r.Count("artifact_pushes", 1)
			if got := rs.H.Get("OCI-Subject"); got == mm.Subject {
				h.r.Count("oci_subject_headers_seen", 1)
			}
		}
	case k < 14:
		tag := u.Tags[rng.Intn(len(u.Tags))]
		d := m.Tags[tag]
		rs, exp := w.DeleteTag("r", tag)
		if rs.Status != exp {
			h.bad = true
			return
		}
		if exp == 202 && u.ByD[d] != nil && u.ByD[d].Subject != "" {
			h.r.Count("artifact_tag_deletes", 1)
		}
	case k < 18:
		var present []string
		for d := range m.Mans {
			present = append(present, d)
		}
		sort.Strings(present)
		mm := u.Mans[rng.Intn(len(u.Mans))]
		if len(present) > 0 && rng.Intn(3) > 0 {
			mm = u.ByD[present[rng.Intn(len(present))]]
		}
		rs, exp := w.DeleteManifest("r", mm)
		if exp != 0 && rs.Status != exp {
			h.bad = true
			return
		}
		if rs.Status == 202 && mm.Subject != "" {
			h.r.Count("artifact_digest_deletes", 1)
		}
	default:
		if h.kind == vh.Dir {
			_ = h.srv.Close()
			c := vh.Conf(vh.Dir, h.root, vh.Neutral)
			c.API.Referrer.Limit = h.limit
			h.srv = vh.New(c)
			w.H = h.srv
			w.T("RESTART")
			h.r.Count("restarts", 1)
		}
	}
}

func runHistory(r *vh.Run, i int) {
	rng := r.Rand(i)
	kind := []vh.StoreKind{vh.Mem, vh.Dir}[i%2]
	u := vh.GenUniverse(rng, vh.UOpts{Algs: (i/2)%2 == 0, NArtifact: 6 + rng.Intn(5), OddAT: (i/4)%2 == 1, HotAnn: i%3 == 1, Tag: fmt.Sprint(i)})
	if i%5 == 0 {
		// one artifact whose descriptor alone exceeds small limits
		big := strings.Repeat("x", 2500)
		var img *vh.Man
		for _, mm := range u.Mans {
			if mm.Subject == "" && !mm.Index {
				img = mm
				break
			}
		}
		if img != nil {
			b := u.Blobs[0]
			a := vh.MkImage("abig", "sha256", vh.MTImage, b, vh.MTConfig, nil, img.D, "application/x.a", map[string]string{"big": big})
			u.Mans = append(u.Mans, a)
			u.ByD[a.D] = a
		}
	}
	if (i/4)%2 == 1 {
		// five more artifacts of one odd type on one subject: filtered answers of that subject span pages
		var img *vh.Man
		for _, mm := range u.Mans {
			if mm.Subject == "" && !mm.Index {
				img = mm
				break
			}
		}
		if img != nil {
			for k := 0; k < 5; k++ {
				a := vh.MkImage(fmt.Sprintf("aodd%d", k), "sha256", vh.MTImage, u.Blobs[0], vh.MTConfig, nil, img.D, "application/vnd.example.sbom.v1+json", map[string]string{"odd": fmt.Sprint(k), "u": fmt.Sprint(i)})
				u.Mans = append(u.Mans, a)
				u.ByD[a.D] = a
			}
		}
	}
	root := ""
	if kind != vh.Mem {
		root = r.TempDir("ref")
		defer vh.RemoveAll(root)
	}
	limit := []int64{700, 1100, 1024, 2048, 4 << 20}[rng.Intn(5)]
	if (i/4)%2 == 1 && limit > 1100 {
		limit = 900 // the histories with odd artifact types are about filtered answers of several pages
	}
	c := vh.Conf(kind, root, vh.Neutral)
	c.API.Referrer.Limit = limit
	srv := vh.New(c)
	h := &hist{r: r, idx: i, srv: srv, root: root, kind: kind, limit: limit}
	h.rngv = rng
	h.w = vh.NewWorld(r, srv, u, kind, "r")
	for _, b := range u.Blobs {
		h.w.PushBlob("r", b)
	}
	nops := 20 + rng.Intn(25)
	for op := 0; op < nops && !h.bad; op++ {
		h.step()
		r.Count("operations", 1)
		if !h.bad {
			h.checkAll()
		}
	}
	_ = h.srv.Close()
	r.Count("histories", 1)
	r.Count("requests", h.w.Reqs)
	r.Distinct("limits", fmt.Sprint(limit))
	if !h.bad {
		r.Distinct("histories_distinct", fmt.Sprintf("%d:%s", i, strings.Join(h.w.Trace, ";")))
	}
	if i < 2 {
		tr := h.w.Trace
		if len(tr) > 30 {
			tr = tr[:30]
		}
		r.Sample(map[string]any{"history": i, "store": kind.String(), "limit": limit, "first_operations": tr})
	}
}

// cursorTrial: a client is half-way through a paged listing when the list changes - an entry of a page it has already
// read is deleted, the server has lost its cached pages (restart, or the page cache expired) and another client has
// listed in between.  The continuation request names the digest of the old answer: whatever the server does with it,
// every referrer that was present the whole time is delivered somewhere along the chain the client follows.
func cursorTrial(r *vh.Run, i int) {
	kind := []vh.StoreKind{vh.Mem, vh.Dir}[i%2]
	root := ""
	if kind == vh.Dir {
		root = r.TempDir("cur")
		defer vh.RemoveAll(root)
	}
	c := vh.Conf(kind, root, vh.Neutral)
	c.API.Referrer.Limit = []int64{700, 900, 1100}[(i/2)%3]
	c.API.Referrer.PageCacheExpire = time.Millisecond
	srv := vh.New(c)
	defer func() { _ = srv.Close() }()
	cfg := &vh.Blob{Name: "ccfg", B: []byte(fmt.Sprintf(`{"cur":%d}`, i))}
	cfg.D = vh.DigestOf("sha256", cfg.B)
	vh.Do(srv, vh.Req{Method: "POST", URL: "/v2/c/blobs/uploads/?digest=" + cfg.D, Body: cfg.B})
	subj := vh.MkImage("csubj", "sha256", vh.MTImage, cfg, vh.MTConfig, nil, "", "", map[string]string{"c": fmt.Sprint(i)})
	vh.Do(srv, vh.Req{Method: "PUT", URL: "/v2/c/manifests/" + subj.D, H: map[string]string{"Content-Type": subj.MT}, Body: subj.Raw})
	var arts []*vh.Man
	for k := 0; k < 10; k++ {
		a := vh.MkImage(fmt.Sprintf("cart%d", k), "sha256", vh.MTImage, cfg, vh.MTConfig, nil, subj.D, "application/x.a", map[string]string{"k": fmt.Sprint(k), "c": fmt.Sprint(i)})
		if vh.Do(srv, vh.Req{Method: "PUT", URL: "/v2/c/manifests/" + a.D, H: map[string]string{"Content-Type": a.MT}, Body: a.Raw}).Status == 201 {
			arts = append(arts, a)
		}
	}
	digests := func(body []byte) []string {
		var idx struct {
			Manifests []struct{ Digest string } `json:"manifests"`
		}
		_ = json.Unmarshal(body, &idx)
		var o []string
		for _, m := range idx.Manifests {
			o = append(o, m.Digest)
		}
		return o
	}
	next := func(h http.Header) string {
		l := h.Get("Link")
		a, b := strings.Index(l, "<"), strings.Index(l, ">")
		if a < 0 || b < a {
			return ""
		}
		return l[a+1 : b]
	}
	first := vh.Do(srv, vh.Req{Method: "GET", URL: "/v2/c/referrers/" + subj.D})
	page0 := digests(first.Body)
	cont := next(first.H)
	if first.Status != 200 || cont == "" || len(page0) == 0 {
		r.Count("cursor_trials_not_paged", 1)
		return
	}
	// an entry of the page already read goes away; the cached pages are lost; another client lists
	victim := page0[0]
	if ds := vh.Do(srv, vh.Req{Method: "DELETE", URL: "/v2/c/manifests/" + victim}); ds.Status != 202 {
		return
	}
	if kind == vh.Dir && (i/6)%2 == 0 {
		_ = srv.Close()
		srv = vh.New(c)
	} else {
		time.Sleep(20 * time.Millisecond) // page cache entries expire after 1 ms
	}
	vh.Do(srv, vh.Req{Method: "GET", URL: "/v2/c/referrers/" + subj.D})
	// the first client goes on
	got := map[string]bool{}
	for _, d := range page0 {
		got[d] = true
	}
	for steps := 0; cont != "" && steps < 40; steps++ {
		rs := vh.Do(srv, vh.Req{Method: "GET", URL: cont})
		if rs.Status != 200 {
			break
		}
		for _, d := range digests(rs.Body) {
			got[d] = true
		}
		cont = next(rs.H)
	}
	r.Count("cursor_trials", 1)
	for _, a := range arts {
		if a.D != victim && !got[a.D] {
			r.Violation("referrers:lost-along-continued-walk", fmt.Sprintf("a client read page 1 of %d referrers, an entry of that page was deleted, the server lost its cached pages and another client listed; the first client followed its Link chain to the end and never received %s, which was present the whole time (%s store, limit %d)", len(arts), a.Name, kind, c.API.Referrer.Limit),
				map[string]any{"trial": i, "store": kind.String(), "limit": c.API.Referrer.Limit, "first_page": len(page0)})
			return
		}
	}
}

func main() {
	r := vh.Start()
	n := r.N(240, 8000)
	nc := r.N(24, 400)
	vh.Parallel(nc, 8, func(i int) { cursorTrial(r, i) })
	r.Require("cursor_trials", int64(nc/2))
	vh.Parallel(n, 16, func(i int) { runHistory(r, i) })
	r.Require("histories", int64(n))
	r.Require("list_walks", 2000)
	r.Require("paged_walks", 50)
	r.Require("filtered_walks", 200)
	r.Require("artifact_digest_deletes", 20)
	r.Require("artifact_tag_deletes", 10)
	r.Finish("random histories (20-45 operations) of artifact pushes by tag and digest, re-pushes, tag overwrites, deletes by tag and digest, subject deletes/re-pushes and restarts, on 6-10 artifacts over subjects that are images, indexes, artifacts or missing; response size limits 700 B to 4 MiB; after every operation every subject is walked unfiltered and with each artifactType filter, twice (second answer from the page cache); a case is one history, distinct = distinct complete traces", "histories", "histories_distinct")
}
