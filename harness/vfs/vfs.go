// Package vfs is a check-time shim for package os.  The driver builds internal/store with its import of "os"
// replaced by `os "…/internal/verif/vfs"` (one line, through the build overlay), so that every filesystem call
// of the stores goes through here, is counted, and is announced to a monitor registered for the directory it
// touches – before and after the call, and in the middle of a write.  Monitors take crash images (C09, C17),
// check that no path leaves the root (C16) and that read-only stores issue no mutating call (C14).
//
// The package exports the os identifiers the stores use plus the commonly used rest, so that edits to olareg
// keep compiling against it.
package vfs

import (
	"io"
	"io/fs"
	"os"
	"path/filepath"
	"strings"
	"sync"
	"sync/atomic"
	"time"
)

// Event is one observation of a filesystem call.
type Event struct {
	Seq      int64
	Op       string // stat open readfile readdir mkdirall mkdir createtemp create openfile writefile write close rename remove removeall chtimes chmod truncate symlink link
	Path     string // as given by the caller, made absolute and cleaned
	Raw      string // exactly as given by the caller
	Path2    string // rename / link target
	Mutating bool
	Phase    string // before | mid | after
	N        int    // bytes (write, writefile)
	Err      error  // after-phase only
}

// Monitor receives the events of every call that touches a path under its prefix.
type Monitor func(Event)

var (
	mu       sync.RWMutex
	monitors = map[string]Monitor{} // cleaned absolute prefix -> monitor
	seq      atomic.Int64
	// Unattributed counts calls whose path was under no registered prefix while at least one monitor was registered.
	Unattributed atomic.Int64
	unattrMu     sync.Mutex
	unattr       []string
)

// Register installs a monitor for every path under prefix; returns the function that removes it.
func Register(prefix string, m Monitor) func() {
	p, _ := filepath.Abs(prefix)
	mu.Lock()
	monitors[p] = m
	mu.Unlock()
	return func() {
		mu.Lock()
		delete(monitors, p)
		mu.Unlock()
	}
}

// Fault decides whether a call fails instead of being made (nil: the call is made).
type Fault func(Event) error

var faults = map[string]Fault{}

// RegisterFault installs a fault function for every call that touches a path under prefix.
func RegisterFault(prefix string, f Fault) func() {
	p, _ := filepath.Abs(prefix)
	mu.Lock()
	faults[p] = f
	mu.Unlock()
	return func() {
		mu.Lock()
		delete(faults, p)
		mu.Unlock()
	}
}

func findFault(p string) Fault {
	mu.RLock()
	defer mu.RUnlock()
	if len(faults) == 0 {
		return nil
	}
	for pre, f := range faults {
		if p == pre || strings.HasPrefix(p, pre+string(filepath.Separator)) {
			return f
		}
	}
	return nil
}

// UnattributedPaths returns (a sample of) paths that were under no registered prefix.
func UnattributedPaths() []string {
	unattrMu.Lock()
	defer unattrMu.Unlock()
	return append([]string{}, unattr...)
}

// Ops is the total number of intercepted calls.
func Ops() int64 { return seq.Load() }

func abs(p string) string {
	a, err := filepath.Abs(p)
	if err != nil {
		return filepath.Clean(p)
	}
	return a
}

func find(p string) Monitor {
	mu.RLock()
	defer mu.RUnlock()
	if len(monitors) == 0 {
		return nil
	}
	for pre, m := range monitors {
		if p == pre || strings.HasPrefix(p, pre+string(filepath.Separator)) {
			return m
		}
	}
	Unattributed.Add(1)
	unattrMu.Lock()
	if len(unattr) < 50 {
		unattr = append(unattr, p)
	}
	unattrMu.Unlock()
	return nil
}

// call announces op on path around fn.
func call(op, raw, raw2 string, mutating bool, n int, fn func() error) error {
	s := seq.Add(1)
	p := abs(raw)
	m := find(p)
	p2 := ""
	if raw2 != "" {
		p2 = abs(raw2)
	}
	if m != nil {
		m(Event{Seq: s, Op: op, Path: p, Raw: raw, Path2: p2, Mutating: mutating, Phase: "before", N: n})
	}
	if ff := findFault(p); ff != nil {
		if e := ff(Event{Seq: s, Op: op, Path: p, Raw: raw, Path2: p2, Mutating: mutating, Phase: "before", N: n}); e != nil {
			// the call fails without having been made
			err := error(&fs.PathError{Op: op, Path: raw, Err: e})
			if m != nil {
				m(Event{Seq: s, Op: op, Path: p, Raw: raw, Path2: p2, Mutating: mutating, Phase: "after", N: n, Err: err})
			}
			return err
		}
	}
	err := fn()
	if m != nil {
		m(Event{Seq: s, Op: op, Path: p, Raw: raw, Path2: p2, Mutating: mutating, Phase: "after", N: n, Err: err})
	}
	return err
}

// ---- types, constants and variables re-exported from os

type (
	FileInfo   = fs.FileInfo
	FileMode   = fs.FileMode
	DirEntry   = fs.DirEntry
	PathError  = fs.PathError
	LinkError  = os.LinkError
	SyscallErr = os.SyscallError
	Signal     = os.Signal
	Process    = os.Process
)

const (
	O_RDONLY = os.O_RDONLY
	O_WRONLY = os.O_WRONLY
	O_RDWR   = os.O_RDWR
	O_APPEND = os.O_APPEND
	O_CREATE = os.O_CREATE
	O_EXCL   = os.O_EXCL
	O_SYNC   = os.O_SYNC
	O_TRUNC  = os.O_TRUNC

	ModeDir        = fs.ModeDir
	ModeAppend     = fs.ModeAppend
	ModeExclusive  = fs.ModeExclusive
	ModeTemporary  = fs.ModeTemporary
	ModeSymlink    = fs.ModeSymlink
	ModeDevice     = fs.ModeDevice
	ModeNamedPipe  = fs.ModeNamedPipe
	ModeSocket     = fs.ModeSocket
	ModeSetuid     = fs.ModeSetuid
	ModeSetgid     = fs.ModeSetgid
	ModeCharDevice = fs.ModeCharDevice
	ModeSticky     = fs.ModeSticky
	ModeIrregular  = fs.ModeIrregular
	ModeType       = fs.ModeType
	ModePerm       = fs.ModePerm

	PathSeparator     = os.PathSeparator
	PathListSeparator = os.PathListSeparator
	DevNull           = os.DevNull
)

var (
	ErrInvalid          = fs.ErrInvalid
	ErrPermission       = fs.ErrPermission
	ErrExist            = fs.ErrExist
	ErrNotExist         = fs.ErrNotExist
	ErrClosed           = fs.ErrClosed
	ErrNoDeadline       = os.ErrNoDeadline
	ErrDeadlineExceeded = os.ErrDeadlineExceeded
	ErrProcessDone      = os.ErrProcessDone

	Interrupt = os.Interrupt
	Kill      = os.Kill
	Args      = os.Args
)

func IsNotExist(err error) bool   { return os.IsNotExist(err) }
func IsExist(err error) bool      { return os.IsExist(err) }
func IsPermission(err error) bool { return os.IsPermission(err) }
func IsTimeout(err error) bool    { return os.IsTimeout(err) }
func IsPathSeparator(c uint8) bool {
	return os.IsPathSeparator(c)
}
func Getenv(k string) string                  { return os.Getenv(k) }
func LookupEnv(k string) (string, bool)       { return os.LookupEnv(k) }
func Setenv(k, v string) error                { return os.Setenv(k, v) }
func Unsetenv(k string) error                 { return os.Unsetenv(k) }
func Environ() []string                       { return os.Environ() }
func ExpandEnv(s string) string               { return os.ExpandEnv(s) }
func Getpid() int                             { return os.Getpid() }
func Getuid() int                             { return os.Getuid() }
func Getgid() int                             { return os.Getgid() }
func Exit(c int)                              { os.Exit(c) }
func Getwd() (string, error)                  { return os.Getwd() }
func Hostname() (string, error)               { return os.Hostname() }
func TempDir() string                         { return os.TempDir() }
func UserHomeDir() (string, error)            { return os.UserHomeDir() }
func UserCacheDir() (string, error)           { return os.UserCacheDir() }
func Executable() (string, error)             { return os.Executable() }
func SameFile(a, b FileInfo) bool             { return os.SameFile(a, b) }
func DirFS(dir string) fs.FS                  { return os.DirFS(dir) }
func NewSyscallError(s string, e error) error { return os.NewSyscallError(s, e) }

// ---- read calls

func Stat(name string) (fi FileInfo, err error) {
	err = call("stat", name, "", false, 0, func() error { fi, err = os.Stat(name); return err })
	return
}

func Lstat(name string) (fi FileInfo, err error) {
	err = call("lstat", name, "", false, 0, func() error { fi, err = os.Lstat(name); return err })
	return
}

func ReadFile(name string) (b []byte, err error) {
	err = call("readfile", name, "", false, 0, func() error { b, err = os.ReadFile(name); return err })
	return
}

func ReadDir(name string) (d []DirEntry, err error) {
	err = call("readdir", name, "", false, 0, func() error { d, err = os.ReadDir(name); return err })
	return
}

func Readlink(name string) (s string, err error) {
	err = call("readlink", name, "", false, 0, func() error { s, err = os.Readlink(name); return err })
	return
}

func Open(name string) (*File, error) {
	var f *os.File
	err := call("open", name, "", false, 0, func() (e error) { f, e = os.Open(name); return })
	if err != nil {
		return nil, err
	}
	return &File{f: f, path: abs(name)}, nil
}

// ---- mutating calls

func MkdirAll(path string, perm FileMode) error {
	return call("mkdirall", path, "", true, 0, func() error { return os.MkdirAll(path, perm) })
}

func Mkdir(path string, perm FileMode) error {
	return call("mkdir", path, "", true, 0, func() error { return os.Mkdir(path, perm) })
}

func MkdirTemp(dir, pattern string) (s string, err error) {
	err = call("mkdirtemp", dir, "", true, 0, func() error { s, err = os.MkdirTemp(dir, pattern); return err })
	return
}

func CreateTemp(dir, pattern string) (*File, error) {
	var f *os.File
	err := call("createtemp", filepath.Join(dir, pattern), "", true, 0, func() (e error) { f, e = os.CreateTemp(dir, pattern); return })
	if err != nil {
		return nil, err
	}
	return &File{f: f, path: abs(f.Name()), w: true}, nil
}

func Create(name string) (*File, error) {
	var f *os.File
	err := call("create", name, "", true, 0, func() (e error) { f, e = os.Create(name); return })
	if err != nil {
		return nil, err
	}
	return &File{f: f, path: abs(name), w: true}, nil
}

func OpenFile(name string, flag int, perm FileMode) (*File, error) {
	var f *os.File
	mut := flag&(os.O_WRONLY|os.O_RDWR|os.O_CREATE|os.O_TRUNC|os.O_APPEND) != 0
	err := call("openfile", name, "", mut, 0, func() (e error) { f, e = os.OpenFile(name, flag, perm); return })
	if err != nil {
		return nil, err
	}
	return &File{f: f, path: abs(name), w: mut}, nil
}

// WriteFile is performed as create + two half writes so that a crash image can be taken in the middle.
func WriteFile(name string, data []byte, perm FileMode) error {
	return call("writefile", name, "", true, len(data), func() error {
		f, err := os.OpenFile(name, os.O_WRONLY|os.O_CREATE|os.O_TRUNC, perm)
		if err != nil {
			return err
		}
		half := len(data) / 2
		_, err = f.Write(data[:half])
		if err == nil {
			if m := find(abs(name)); m != nil && len(data) > 1 {
				m(Event{Seq: seq.Load(), Op: "writefile", Path: abs(name), Raw: name, Mutating: true, Phase: "mid", N: half})
			}
			_, err = f.Write(data[half:])
		}
		if e2 := f.Close(); err == nil {
			err = e2
		}
		return err
	})
}

func Rename(oldpath, newpath string) error {
	return call("rename", oldpath, newpath, true, 0, func() error { return os.Rename(oldpath, newpath) })
}

func Remove(name string) error {
	return call("remove", name, "", true, 0, func() error { return os.Remove(name) })
}

func RemoveAll(name string) error {
	return call("removeall", name, "", true, 0, func() error { return os.RemoveAll(name) })
}

func Chtimes(name string, a, m time.Time) error {
	return call("chtimes", name, "", true, 0, func() error { return os.Chtimes(name, a, m) })
}

func Chmod(name string, mode FileMode) error {
	return call("chmod", name, "", true, 0, func() error { return os.Chmod(name, mode) })
}

func Chown(name string, uid, gid int) error {
	return call("chown", name, "", true, 0, func() error { return os.Chown(name, uid, gid) })
}

func Truncate(name string, size int64) error {
	return call("truncate", name, "", true, 0, func() error { return os.Truncate(name, size) })
}

func Symlink(oldname, newname string) error {
	return call("symlink", newname, oldname, true, 0, func() error { return os.Symlink(oldname, newname) })
}

func Link(oldname, newname string) error {
	return call("link", newname, oldname, true, 0, func() error { return os.Link(oldname, newname) })
}

// ---- File

// File wraps *os.File; writes are announced (before / mid / after) to the monitor of the file's path.
type File struct {
	f    *os.File
	path string
	w    bool
}

func (f *File) Name() string                            { return f.f.Name() }
func (f *File) Read(p []byte) (int, error)              { return f.f.Read(p) }
func (f *File) ReadAt(p []byte, off int64) (int, error) { return f.f.ReadAt(p, off) }
func (f *File) Seek(o int64, w int) (int64, error)      { return f.f.Seek(o, w) }
func (f *File) Stat() (FileInfo, error)                 { return f.f.Stat() }
func (f *File) Sync() error                             { return f.f.Sync() }
func (f *File) Fd() uintptr                             { return f.f.Fd() }
func (f *File) Readdir(n int) ([]FileInfo, error)       { return f.f.Readdir(n) }
func (f *File) ReadDir(n int) ([]DirEntry, error)       { return f.f.ReadDir(n) }
func (f *File) Readdirnames(n int) ([]string, error)    { return f.f.Readdirnames(n) }
func (f *File) SetDeadline(t time.Time) error           { return f.f.SetDeadline(t) }
func (f *File) Chmod(m FileMode) error {
	return call("chmod", f.path, "", true, 0, func() error { return f.f.Chmod(m) })
}
func (f *File) Truncate(n int64) error {
	return call("truncate", f.path, "", true, 0, func() error { return f.f.Truncate(n) })
}
func (f *File) WriteString(s string) (int, error)   { return f.Write([]byte(s)) }
func (f *File) ReadFrom(r io.Reader) (int64, error) { return io.Copy(struct{ io.Writer }{f}, r) }
func (f *File) WriteAt(p []byte, off int64) (n int, e error) {
	e = call("write", f.path, "", true, len(p), func() error { n, e = f.f.WriteAt(p, off); return e })
	return
}

// Write is split in two so that a monitor can observe the file half written.
func (f *File) Write(p []byte) (n int, err error) {
	err = call("write", f.path, "", true, len(p), func() error {
		half := len(p) / 2
		n, err = f.f.Write(p[:half])
		if err != nil {
			return err
		}
		if len(p) > 1 {
			if m := find(f.path); m != nil {
				m(Event{Seq: seq.Load(), Op: "write", Path: f.path, Raw: f.path, Mutating: true, Phase: "mid", N: half})
			}
		}
		n2, e2 := f.f.Write(p[half:])
		n += n2
		err = e2
		return err
	})
	return
}

func (f *File) Close() error {
	if f == nil {
		return ErrInvalid
	}
	return call("close", f.path, "", false, 0, func() error { return f.f.Close() })
}

// Stdin, Stdout and Stderr are provided for completeness.
var (
	Stdin  = &File{f: os.Stdin, path: "/dev/stdin"}
	Stdout = &File{f: os.Stdout, path: "/dev/stdout"}
	Stderr = &File{f: os.Stderr, path: "/dev/stderr"}
)
