// C11: concurrent requests on a repository never lose or tear updates.
//
// A history is recorded at the client boundary: for every call {client, operation, arguments, call time, result,
// return time} from one monotonic clock, call before ServeHTTP, return after.  Contents are unique per
// (history, client, counter), so a read identifies the writes it observed.  The history is checked offline with
// porcupine against small sequential models, partitioned by object (the objects are independent in the
// specification, so a history is linearizable only if every object's sub-history is):
//
//	tag:<t>        register: put(d) / delete-tag / delete-digest(d) = conditional clear / read
//	ref:<subject>  set: add(d) on an acknowledged artifact push, remove(d) on an acknowledged delete by digest, read
//	man:<d>        presence: push / delete by digest / read
//
// A request with an unknown outcome (5xx) stays open until the end of the history and may or may not have taken
// effect (nondeterministic model).  Illegal => violation with porcupine's verdict and the sub-history as witness;
// Unknown (checker timeout) => inconclusive.  At quiescence: every acknowledged, undeleted artifact is listed,
// every tag resolves to a manifest pushed under it, index.json is a valid layout (directory store).
package main

import (
	"context"
	"encoding/json"
	"fmt"
	"io"
	"net/http/httptest"
	"math/rand"
	"path/filepath"
	"sort"
	"strings"
	"sync"
	"time"

	"github.com/anishathalye/porcupine"

	"github.com/olareg/olareg"
	"github.com/olareg/olareg/internal/verif/vh"
	"github.com/olareg/olareg/internal/verif/vsync"
)

type in struct {
	Key  string `json:"key"`
	Kind string `json:"kind"` // put del cleardig add rem read
	Arg  string `json:"arg,omitempty"`
}

type out struct {
	OK      bool   `json:"ok"`      // acknowledged (2xx)
	Unknown bool   `json:"unknown"` // 5xx / no answer: may or may not have taken effect
	Val     string `json:"val"`     // read result: digest, "" or sorted comma list
}

func setOf(s string) map[string]bool {
	m := map[string]bool{}
	for _, x := range strings.Split(s, ",") {
		if x != "" {
			m[x] = true
		}
	}
	return m
}

func encSet(m map[string]bool) string {
	l := make([]string, 0, len(m))
	for x := range m {
		l = append(l, x)
	}
	sort.Strings(l)
	return strings.Join(l, ",")
}

// step returns the possible next states (empty = the operation is impossible in this state).
func step(state, input, output interface{}) []interface{} {
	s := state.(string)
	i, o := input.(in), output.(out)
	one := func(x string) []interface{} { return []interface{}{x} }
	apply := func() (string, bool) { // effect of the operation if it takes effect; second = precondition holds
		switch i.Kind {
		case "put": // tag register or presence
			return i.Arg, true
		case "del": // delete of the tag / of the manifest: must exist
			return "", s != ""
		case "cleardig": // delete by digest seen from a tag: clears the tag iff it points to that digest
			if s == i.Arg {
				return "", true
			}
			return s, true
		case "add":
			m := setOf(s)
			m[i.Arg] = true
			return encSet(m), true
		case "rem":
			m := setOf(s)
			had := m[i.Arg]
			delete(m, i.Arg)
			return encSet(m), had
		}
		return s, true
	}
	switch i.Kind {
	case "read":
		if o.Unknown {
			return one(s)
		}
		if o.Val == s {
			return one(s)
		}
		return nil
	case "readp": // a tag listing seen from one tag: it names the tag iff the tag resolves to something
		if o.Unknown || (o.Val == "P") == (s != "") {
			return one(s)
		}
		return nil
	default:
		ns, pre := apply()
		switch {
		case o.Unknown:
			if pre {
				return []interface{}{s, ns}
			}
			return one(s)
		case o.OK:
			// An acknowledged delete of something a concurrent delete has just removed (both answered 202) is accepted:
			// delete is idempotent in effect, nothing is lost or torn, and the statement's clauses are about lost updates
			// and impossible reads.  (A delete refused as unknown while the item is there stays illegal, below.)
			return one(ns)
		default: // refused (4xx)
			if i.Kind == "del" {
				if s == "" {
					return one(s)
				}
				return nil // refused as unknown although it was there
			}
			return one(s) // a refused push / other refused operation has no effect
		}
	}
}

var nmodel = porcupine.NondeterministicModel{
	Partition: func(h []porcupine.Operation) [][]porcupine.Operation {
		m := map[string][]porcupine.Operation{}
		var keys []string
		for _, o := range h {
			k := o.Input.(in).Key
			if _, ok := m[k]; !ok {
				keys = append(keys, k)
			}
			m[k] = append(m[k], o)
		}
		sort.Strings(keys)
		r := make([][]porcupine.Operation, 0, len(keys))
		for _, k := range keys {
			r = append(r, m[k])
		}
		return r
	},
	Init:  func() []interface{} { return []interface{}{""} },
	Step:  step,
	Equal: func(a, b interface{}) bool { return a.(string) == b.(string) },
	DescribeOperation: func(i, o interface{}) string {
		return fmt.Sprintf("%+v -> %+v", i, o)
	},
}

var model = nmodel.ToModel()

type rec struct {
	mu    sync.Mutex
	ops   []porcupine.Operation
	start time.Time
	end   int64
}

func (r *rec) now() int64 { return int64(time.Since(r.start)) }

func (r *rec) add(client int, call, ret int64, i in, o out) {
	r.mu.Lock()
	r.ops = append(r.ops, porcupine.Operation{ClientId: client, Input: i, Call: call, Output: o, Return: ret})
	r.mu.Unlock()
}

func outcome(status int, panicked bool) out {
	switch {
	case panicked || status >= 500:
		return out{Unknown: true}
	case status >= 200 && status < 300:
		return out{OK: true}
	}
	return out{}
}

func history(r *vh.Run, hidx int) {
	rng := r.Rand(hidx)
	kind := []vh.StoreKind{vh.Mem, vh.Dir}[hidx%2]
	root := ""
	if kind == vh.Dir {
		root = r.TempDir("c11")
		defer vh.RemoveAll(root)
	}
	// a quarter of the histories (directory store) run with a grace period of 25 ms and clients that all pause for
	// about that long in the middle: the cached repository object expires (which runs its collection) and is loaded
	// again from index.json while requests arrive
	idleExpiry := hidx%4 == 3
	pol := vh.Neutral
	if idleExpiry {
		pol.Grace = 25 * time.Millisecond
		r.Count("histories_with_repository_expiry", 1)
	} else if hidx%5 == 1 {
		// no grace period: whatever a request has replaced (a superseded referrers answer) is removed by the very next
		// background collection - a request that still needs it must be holding the repository
		pol.Grace = -1
		r.Count("histories_without_grace_period", 1)
	}
	// a sixth of the histories run on the memory store over a directory that a directory store filled before: the
	// clients' first requests load the repository from disk while the others already use it
	memdir := hidx%6 == 2
	if memdir {
		kind = vh.MemDir
		root = r.TempDir("c11")
		defer vh.RemoveAll(root)
		r.Count("histories_on_memory_over_directory", 1)
	}
	var srv *olareg.Server
	if memdir {
		srv = vh.New(vh.Conf(vh.Dir, root, pol))
	} else {
		srv = vh.New(vh.Conf(kind, root, pol))
	}
	defer func() { srv.Close() }()
	repo := "r"
	cfg := &vh.Blob{Name: "cfg", B: []byte(fmt.Sprintf(`{"h":%d}`, hidx))}
	cfg.D = vh.DigestOf("sha256", cfg.B)
	vh.Do(srv, vh.Req{Method: "POST", URL: "/v2/" + repo + "/blobs/uploads/?digest=" + cfg.D, Body: cfg.B})
	mk := func(name, subj string) *vh.Man {
		return vh.MkImage(name, "sha256", vh.MTImage, cfg, vh.MTConfig, nil, subj, "application/x.a", map[string]string{"n": name, "h": fmt.Sprint(hidx)})
	}
	tags := []string{"t1", "t2", "t3"}[:2+rng.Intn(2)]
	nsub := 1 + rng.Intn(2)
	var subjects []string
	for s := 0; s < nsub; s++ {
		m := mk(fmt.Sprintf("S%d", s), "")
		vh.Do(srv, vh.Req{Method: "PUT", URL: "/v2/" + repo + "/manifests/" + m.D, H: map[string]string{"Content-Type": m.MT}, Body: m.Raw})
		subjects = append(subjects, m.D)
	}
	if memdir {
		srv.Close()
		srv = vh.New(vh.Conf(vh.MemDir, root, pol))
	}
	if rng.Intn(3) == 0 {
		subjects = append(subjects, vh.DigestOf("sha256", []byte(fmt.Sprint("missing", hidx)))) // a subject that does not exist
	}
	// a small pool of images shared by all clients (tag moves between known digests)
	var pool []*vh.Man
	for p := 0; p < 3; p++ {
		pool = append(pool, mk(fmt.Sprintf("P%d", p), ""))
	}
	// shared artifacts: any client may push one again or delete it by digest while another does the same.  Seen as one
	// object ("art:<digest>") such an artifact is either there - served by digest and listed under its subject - or
	// not: every observation of either side is a read of that one bit
	var apool []*vh.Man
	for p := 0; p < 2+rng.Intn(2); p++ {
		sa := mk(fmt.Sprintf("SA%d", p), subjects[rng.Intn(len(subjects))])
		if p == 1 {
			sa = vh.MkIndex("SAX", "sha256", vh.MTIndex, nil, subjects[rng.Intn(len(subjects))], "application/x.a", map[string]string{"n": "SAX", "h": fmt.Sprint(hidx)})
		}
		apool = append(apool, sa)
	}
	byD := map[string]*vh.Man{}
	var bmu sync.Mutex
	for _, p := range pool {
		byD[p.D] = p
	}
	rc := &rec{start: time.Now()}
	fresh := fmt.Sprintf("fresh%d", hidx)
	freshAck := map[string]string{} // tag -> digest acknowledged in the fresh repository
	nclients := 4 + rng.Intn(5)
	nops := 6 + rng.Intn(5)
	pushedUnder := map[string]map[string]bool{} // tag -> digests ever pushed under it (acknowledged or unknown)
	artAck := map[string]string{}               // artifact digest -> subject, acknowledged pushes
	artDel := map[string]bool{}                 // artifact digests with an acknowledged or unknown delete
	var smu sync.Mutex
	stopGC := make(chan struct{})
	var gcwg sync.WaitGroup
	gcwg.Add(1)
	go func() {
		defer gcwg.Done()
		for {
			select {
			case <-stopGC:
				return
			default:
			}
			_ = srv.VerifGC(context.Background(), repo) // retain-everything policy: exercises the token / wait-group protocol
			r.Count("background_collections", 1)
			time.Sleep(time.Duration(200+rand.Intn(800)) * time.Microsecond)
		}
	}()
	// a client whose only job is to give the background collection something to prune in most passes: it pushes
	// a unique untagged manifest and removes its body through the blob API, which leaves an index entry without
	// content.  Nothing it writes is part of the recorded history.
	gcwg.Add(1)
	go func() {
		defer gcwg.Done()
		for n := 0; ; n++ {
			select {
			case <-stopGC:
				return
			default:
			}
			g := mk(fmt.Sprintf("garbage%d", n), "")
			if rs := vh.Do(srv, vh.Req{Method: "PUT", URL: "/v2/" + repo + "/manifests/" + g.D, H: map[string]string{"Content-Type": g.MT}, Body: g.Raw}); rs.Status == 201 {
				if ds := vh.Do(srv, vh.Req{Method: "DELETE", URL: "/v2/" + repo + "/blobs/" + g.D}); ds.Status == 202 {
					r.Count("prunable_entries_created", 1)
				}
			}
			time.Sleep(time.Duration(100+rand.Intn(400)) * time.Microsecond)
		}
	}()
	var wg sync.WaitGroup
	for c := 0; c < nclients; c++ {
		wg.Add(1)
		go func(c int) {
			defer wg.Done()
			crng := rand.New(rand.NewSource(r.Seed*31337 + int64(hidx)*101 + int64(c)))
			var mine []*vh.Man // artifacts this client pushed
			lrng := rand.New(rand.NewSource(r.Seed*7919 + int64(hidx)*977 + int64(c))) // a stream of its own: the older choices keep their sequence
			// the first request of every client goes to a repository nobody has touched yet: concurrent first use
			{
				ft := fmt.Sprintf("f%d", c)
				fm := vh.MkIndex("fresh", "sha256", vh.MTIndex, nil, "", "", map[string]string{"c": fmt.Sprint(c), "h": fmt.Sprint(hidx)})
				t0 := rc.now()
				rs := vh.Do(srv, vh.Req{Method: "PUT", URL: "/v2/" + fresh + "/manifests/" + ft, H: map[string]string{"Content-Type": fm.MT}, Body: fm.Raw})
				t1 := rc.now()
				o := outcome(rs.Status, rs.Panic != "")
				rc.add(c, t0, t1, in{"tag:" + fresh + "/" + ft, "put", fm.D}, o)
				if o.OK {
					smu.Lock()
					freshAck[ft] = fm.D
					smu.Unlock()
				}
			}
			for n := 0; n < nops; n++ {
				if idleExpiry && (n == nops/3 || n == 2*nops/3) {
					time.Sleep(time.Duration(27+crng.Intn(8)) * time.Millisecond)
				}
				k := crng.Intn(15)
				if hidx%3 == 0 && crng.Intn(2) == 0 {
					// a third of the histories concentrate on the shared artifacts: push again / delete / probe / list
					k = []int{12, 12, 13, 14, 11}[crng.Intn(5)]
				}
				switch {
				case k == 12: // push a shared artifact (again)
					a := apool[crng.Intn(len(apool))]
					t0 := rc.now()
					rs := vh.Do(srv, vh.Req{Method: "PUT", URL: "/v2/" + repo + "/manifests/" + a.D, H: map[string]string{"Content-Type": a.MT}, Body: a.Raw})
					t1 := rc.now()
					o := outcome(rs.Status, rs.Panic != "")
					rc.add(c, t0, t1, in{"art:" + a.D, "put", "P"}, o)
					rc.add(c, t0, t1, in{"artp:" + a.D, "put", "P"}, o)
					rc.add(c, t0, t1, in{"artl:" + a.D, "put", "P"}, o)
					rc.add(c, t0, t1, in{"ref:" + a.Subject, "add", a.D}, o)
					r.Count("shared_artifact_pushes", 1)
				case k == 13: // delete a shared artifact by digest
					a := apool[crng.Intn(len(apool))]
					t0 := rc.now()
					rs := vh.Do(srv, vh.Req{Method: "DELETE", URL: "/v2/" + repo + "/manifests/" + a.D})
					t1 := rc.now()
					o := outcome(rs.Status, rs.Panic != "")
					rc.add(c, t0, t1, in{"art:" + a.D, "del", ""}, o)
					rc.add(c, t0, t1, in{"artp:" + a.D, "del", ""}, o)
					rc.add(c, t0, t1, in{"artl:" + a.D, "del", ""}, o)
					rc.add(c, t0, t1, in{"ref:" + a.Subject, "rem", a.D}, o)
					r.Count("shared_artifact_deletes", 1)
				case k == 14: // is a shared artifact served by digest?
					a := apool[crng.Intn(len(apool))]
					t0 := rc.now()
					rs := vh.Do(srv, vh.Req{Method: "HEAD", URL: "/v2/" + repo + "/manifests/" + a.D, H: map[string]string{"Accept": vh.AcceptAll}})
					t1 := rc.now()
					o := out{Val: "P"}
					if rs.Status == 404 {
						o.Val = ""
					} else if rs.Status != 200 {
						o = out{Unknown: true}
					}
					rc.add(c, t0, t1, in{"art:" + a.D, "read", ""}, o)
					rc.add(c, t0, t1, in{"artp:" + a.D, "read", ""}, o)
				case k < 3: // tag push (pool image or a fresh one)
					m := pool[crng.Intn(len(pool))]
					if crng.Intn(3) == 0 {
						m = mk(fmt.Sprintf("c%dn%d", c, n), "")
						bmu.Lock()
						byD[m.D] = m
						bmu.Unlock()
					}
					t := tags[crng.Intn(len(tags))]
					smu.Lock()
					if pushedUnder[t] == nil {
						pushedUnder[t] = map[string]bool{}
					}
					pushedUnder[t][m.D] = true
					smu.Unlock()
					t0 := rc.now()
					rs := vh.Do(srv, vh.Req{Method: "PUT", URL: "/v2/" + repo + "/manifests/" + t, H: map[string]string{"Content-Type": m.MT}, Body: m.Raw})
					t1 := rc.now()
					o := outcome(rs.Status, rs.Panic != "")
					rc.add(c, t0, t1, in{"tag:" + t, "put", m.D}, o)
					rc.add(c, t0, t1, in{"man:" + m.D, "put", "present"}, o)
				case k < 4: // tag delete
					t := tags[crng.Intn(len(tags))]
					t0 := rc.now()
					rs := vh.Do(srv, vh.Req{Method: "DELETE", URL: "/v2/" + repo + "/manifests/" + t})
					t1 := rc.now()
					rc.add(c, t0, t1, in{"tag:" + t, "del", ""}, outcome(rs.Status, rs.Panic != ""))
				case k < 5: // delete a pool image by digest: clears every tag that points to it
					m := pool[crng.Intn(len(pool))]
					t0 := rc.now()
					rs := vh.Do(srv, vh.Req{Method: "DELETE", URL: "/v2/" + repo + "/manifests/" + m.D})
					t1 := rc.now()
					o := outcome(rs.Status, rs.Panic != "")
					rc.add(c, t0, t1, in{"man:" + m.D, "del", ""}, o)
					if o.OK || o.Unknown {
						for _, t := range tags {
							rc.add(c, t0, t1, in{"tag:" + t, "cleardig", m.D}, o)
						}
					}
				case k < 8: // artifact push
					sj := subjects[crng.Intn(len(subjects))]
					a := mk(fmt.Sprintf("a-c%dn%d", c, n), sj)
					if crng.Intn(3) == 0 {
						// the rarer form of a referrer: an image index that carries the subject
						a = vh.MkIndex(fmt.Sprintf("ax-c%dn%d", c, n), "sha256", vh.MTIndex, nil, sj, "application/x.a", map[string]string{"n": fmt.Sprintf("ax-c%dn%d", c, n), "h": fmt.Sprint(hidx)})
						r.Count("index_artifact_pushes", 1)
					}
					t0 := rc.now()
					rs := vh.Do(srv, vh.Req{Method: "PUT", URL: "/v2/" + repo + "/manifests/" + a.D, H: map[string]string{"Content-Type": a.MT}, Body: a.Raw})
					t1 := rc.now()
					o := outcome(rs.Status, rs.Panic != "")
					rc.add(c, t0, t1, in{"ref:" + sj, "add", a.D}, o)
					rc.add(c, t0, t1, in{"man:" + a.D, "put", "present"}, o)
					if o.OK {
						mine = append(mine, a)
						smu.Lock()
						artAck[a.D] = sj
						smu.Unlock()
					}
				case k < 9: // artifact delete
					if len(mine) == 0 {
						continue
					}
					j := crng.Intn(len(mine))
					a := mine[j]
					mine = append(mine[:j], mine[j+1:]...)
					smu.Lock()
					artDel[a.D] = true
					smu.Unlock()
					t0 := rc.now()
					rs := vh.Do(srv, vh.Req{Method: "DELETE", URL: "/v2/" + repo + "/manifests/" + a.D})
					t1 := rc.now()
					o := outcome(rs.Status, rs.Panic != "")
					rc.add(c, t0, t1, in{"ref:" + a.Subject, "rem", a.D}, o)
					rc.add(c, t0, t1, in{"man:" + a.D, "del", ""}, o)
				case k < 10 && crng.Intn(3) == 0: // read a tag of the fresh repository (any client's)
					ft := fmt.Sprintf("f%d", crng.Intn(nclients))
					t0 := rc.now()
					rs := vh.Do(srv, vh.Req{Method: "HEAD", URL: "/v2/" + fresh + "/manifests/" + ft, H: map[string]string{"Accept": vh.AcceptAll}})
					t1 := rc.now()
					o := out{Val: rs.H.Get("Docker-Content-Digest")}
					if rs.Status != 200 && rs.Status != 404 {
						o = out{Unknown: true}
					}
					if rs.Status == 404 {
						o.Val = ""
					}
					rc.add(c, t0, t1, in{"tag:" + fresh + "/" + ft, "read", ""}, o)
				case k < 10: // read a tag
					t := tags[crng.Intn(len(tags))]
					t0 := rc.now()
					rs := vh.Do(srv, vh.Req{Method: "HEAD", URL: "/v2/" + repo + "/manifests/" + t, H: map[string]string{"Accept": vh.AcceptAll}})
					t1 := rc.now()
					o := out{Val: rs.H.Get("Docker-Content-Digest")}
					if rs.Status != 200 && rs.Status != 404 {
						o = out{Unknown: true}
					}
					if rs.Status == 404 {
						o.Val = ""
					}
					rc.add(c, t0, t1, in{"tag:" + t, "read", ""}, o)
					if lrng.Intn(2) == 0 {
						// the tag listing is a read of every tag at once: per tag "named iff it resolves"; the listing
						// itself is sorted, without duplicates and names nothing that was never pushed
						t0 := rc.now()
						rs := vh.Do(srv, vh.Req{Method: "GET", URL: "/v2/" + repo + "/tags/list"})
						t1 := rc.now()
						var tl struct {
							Tags []string `json:"tags"`
						}
						if rs.Status == 200 && json.Unmarshal(rs.Body, &tl) == nil {
							named := map[string]bool{}
							for j, x := range tl.Tags {
								if named[x] || (j > 0 && tl.Tags[j-1] >= x) {
									r.Violation("listing:order", fmt.Sprintf("a tag listing under concurrent pushes is not sorted or names a tag twice: %v (%s)", tl.Tags, kind), map[string]any{"history": hidx, "listing": tl.Tags})
								}
								named[x] = true
								known := false
								for _, y := range tags {
									known = known || x == y
								}
								if !known {
									r.Violation("listing:foreign-tag", fmt.Sprintf("a tag listing names %q, which was never pushed to the repository (%s)", x, kind), map[string]any{"history": hidx, "listing": tl.Tags})
								}
							}
							for _, y := range tags {
								rc.add(c, t0, t1, in{"tag:" + y, "readp", ""}, out{Val: map[bool]string{true: "P", false: ""}[named[y]]})
							}
							r.Count("tag_listing_reads", 1)
						}
					}
				case k < 11: // read a manifest by digest
					m := pool[crng.Intn(len(pool))]
					t0 := rc.now()
					rs := vh.Do(srv, vh.Req{Method: "HEAD", URL: "/v2/" + repo + "/manifests/" + m.D, H: map[string]string{"Accept": vh.AcceptAll}})
					t1 := rc.now()
					o := out{Val: "present"}
					if rs.Status == 404 {
						o.Val = ""
					} else if rs.Status != 200 {
						o = out{Unknown: true}
					}
					rc.add(c, t0, t1, in{"man:" + m.D, "read", ""}, o)
				default: // read referrers
					sj := subjects[crng.Intn(len(subjects))]
					t0 := rc.now()
					rs := vh.Do(srv, vh.Req{Method: "GET", URL: "/v2/" + repo + "/referrers/" + sj})
					t1 := rc.now()
					var idx struct {
						Manifests []struct{ Digest string } `json:"manifests"`
					}
					o := out{}
					if rs.Status != 200 || json.Unmarshal(rs.Body, &idx) != nil {
						o.Unknown = true
					} else {
						m := map[string]bool{}
						for _, d := range idx.Manifests {
							m[d.Digest] = true
						}
						o.Val = encSet(m)
						for _, a := range apool {
							if a.Subject == sj {
								v := ""
								if m[a.D] {
									v = "P"
								}
								rc.add(c, t0, t1, in{"art:" + a.D, "read", ""}, out{Val: v})
								rc.add(c, t0, t1, in{"artl:" + a.D, "read", ""}, out{Val: v})
							}
						}
					}
					rc.add(c, t0, t1, in{"ref:" + sj, "read", ""}, o)
				}
			}
		}(c)
	}
	wg.Wait()
	close(stopGC)
	gcwg.Wait()
	// one more collection, now alone: it prunes what the garbage client left behind (the layout check below expects
	// no entry without content)
	_ = srv.VerifGC(context.Background(), repo)
	// the last reads of the history: every tag, so that an acknowledged push that was lost afterwards (for instance to
	// a collection that wrote back an older index) has no sequential explanation
	for _, t := range tags {
		t0 := rc.now()
		rs := vh.Do(srv, vh.Req{Method: "HEAD", URL: "/v2/" + repo + "/manifests/" + t, H: map[string]string{"Accept": vh.AcceptAll}})
		t1 := rc.now()
		if rs.Status == 200 || rs.Status == 404 {
			v := ""
			if rs.Status == 200 {
				v = rs.H.Get("Docker-Content-Digest")
			}
			rc.add(nclients, t0, t1, in{"tag:" + t, "read", ""}, out{Val: v})
			r.Count("quiescent_tag_reads", 1)
		}
	}
	var quiescentTorn []*vh.Man
	// two observations of every shared artifact at quiescence, recorded as the last reads of the history: served by
	// digest, listed under its subject
	for _, a := range apool {
		t0 := rc.now()
		hs := vh.Do(srv, vh.Req{Method: "HEAD", URL: "/v2/" + repo + "/manifests/" + a.D, H: map[string]string{"Accept": vh.AcceptAll}})
		t1 := rc.now()
		if hs.Status == 200 || hs.Status == 404 {
			rc.add(nclients, t0, t1, in{"art:" + a.D, "read", ""}, out{Val: map[bool]string{true: "P", false: ""}[hs.Status == 200]})
			rc.add(nclients, t0, t1, in{"artp:" + a.D, "read", ""}, out{Val: map[bool]string{true: "P", false: ""}[hs.Status == 200]})
		}
		t0 = rc.now()
		ls := vh.Do(srv, vh.Req{Method: "GET", URL: "/v2/" + repo + "/referrers/" + a.Subject})
		t1 = rc.now()
		if ls.Status == 200 {
			rc.add(nclients, t0, t1, in{"art:" + a.D, "read", ""}, out{Val: map[bool]string{true: "P", false: ""}[strings.Contains(string(ls.Body), a.D)]})
			rc.add(nclients, t0, t1, in{"artl:" + a.D, "read", ""}, out{Val: map[bool]string{true: "P", false: ""}[strings.Contains(string(ls.Body), a.D)]})
		}
		r.Count("quiescent_shared_artifact_observations", 2)
		if (hs.Status == 200 || hs.Status == 404) && ls.Status == 200 && (hs.Status == 200) != strings.Contains(string(ls.Body), a.D) {
			quiescentTorn = append(quiescentTorn, a)
		}
	}
	end := rc.now() + 1
	// operations with an unknown outcome stay open until the end of the history
	for i := range rc.ops {
		if rc.ops[i].Output.(out).Unknown {
			rc.ops[i].Return = end
		}
	}
	r.Count("histories", 1)
	r.Count("operations", len(rc.ops))
	// overlap statistics
	maxOv := 0
	type ev struct {
		t int64
		d int
	}
	var evs []ev
	seen := map[[2]int64]bool{}
	for _, o := range rc.ops {
		k := [2]int64{o.Call, o.Return}
		if seen[k] {
			continue // the per-object projections of one request
		}
		seen[k] = true
		evs = append(evs, ev{o.Call, 1}, ev{o.Return, -1})
	}
	sort.Slice(evs, func(i, j int) bool { return evs[i].t < evs[j].t || (evs[i].t == evs[j].t && evs[i].d < evs[j].d) })
	cur := 0
	var shape strings.Builder
	for _, e := range evs {
		cur += e.d
		if cur > maxOv {
			maxOv = cur
		}
		if e.d > 0 {
			shape.WriteByte('(')
		} else {
			shape.WriteByte(')')
		}
	}
	r.Count("max_overlap_sum", maxOv)
	if maxOv >= 2 {
		r.Distinct("overlap_shapes", fmt.Sprintf("%d:%s", hidx, shape.String()))
	}
	// ---- the checker
	res, info := porcupine.CheckOperationsVerbose(model, rc.ops, 60*time.Second)
	wit := func(key string) map[string]any {
		var sub []map[string]any
		for _, o := range rc.ops {
			if key == "" || o.Input.(in).Key == key {
				sub = append(sub, map[string]any{"client": o.ClientId, "call": o.Call, "return": o.Return, "in": o.Input, "out": o.Output})
			}
		}
		sort.Slice(sub, func(i, j int) bool { return sub[i]["call"].(int64) < sub[j]["call"].(int64) })
		return map[string]any{"history": hidx, "store": kind.String(), "clients": nclients, "operations": sub}
	}
	switch res {
	case porcupine.Ok:
		r.Count("porcupine_ok", 1)
	case porcupine.Unknown:
		r.Count("porcupine_unknown", 1)
		r.Inconclusive(fmt.Sprintf("history %d: linearizability checker timed out", hidx))
	case porcupine.Illegal:
		r.Count("porcupine_illegal", 1)
		// find the offending partitions by checking each key on its own
		keys := map[string][]porcupine.Operation{}
		for _, o := range rc.ops {
			keys[o.Input.(in).Key] = append(keys[o.Input.(in).Key], o)
		}
		var bad []string
		for k, ops := range keys {
			if porcupine.CheckOperations(model, ops) == false {
				bad = append(bad, k)
			}
		}
		sort.Strings(bad)
		_ = info
		badSet := map[string]bool{}
		for _, k := range bad {
			badSet[k] = true
		}
		for _, k := range bad {
			kindk := strings.SplitN(k, ":", 2)[0]
			if kindk == "art" {
				d := strings.SplitN(k, ":", 2)[1]
				if !badSet["artp:"+d] && !badSet["artl:"+d] {
					// Each side on its own (served by digest; listed) has a sequential explanation: the only thing
					// that has none is the pairing.  A push or delete of a manifest with a subject updates the index
					// twice (the entry, then the regenerated referrers answer - recorded finding K2); a read between
					// the two sees one side only.  Whether that ever becomes permanent is decided at quiescence below.
					r.Violation("K2:art-window", fmt.Sprintf("a read saw shared artifact %s half-way through a push or delete (served by digest but not listed, or the reverse) (%s, %d clients)", vh.Short(d), kind, nclients), wit(k))
					continue
				}
			}
			r.Violation("not-linearizable:"+kindk, fmt.Sprintf("the recorded history of %s (%s, %d clients) has no sequential explanation consistent with real time", describeKey(k), kind, nclients), wit(k))
		}
	}
	r.Count("partitions_checked", len(func() map[string]bool {
		m := map[string]bool{}
		for _, o := range rc.ops {
			m[o.Input.(in).Key] = true
		}
		return m
	}()))
	// ---- quiescent checks
	for _, a := range quiescentTorn {
		r.Violation("quiescent:shared-artifact-torn", fmt.Sprintf("at quiescence artifact %s is served by digest and not listed under its subject, or listed and not served (%s): no order of the acknowledged pushes and deletes leaves that state", vh.Short(a.D), kind), wit("art:"+a.D))
	}
	for d, sj := range artAck {
		if artDel[d] {
			continue
		}
		rs := vh.Do(srv, vh.Req{Method: "GET", URL: "/v2/" + repo + "/referrers/" + sj})
		if !strings.Contains(string(rs.Body), d) {
			r.Violation("quiescent:artifact-not-listed", fmt.Sprintf("at quiescence the acknowledged, undeleted artifact %s is missing from the referrers of %s (%s)", vh.Short(d), vh.Short(sj), kind), wit("ref:"+sj))
		}
		r.Count("quiescent_artifact_checks", 1)
	}
	for ft, d := range freshAck {
		rs := vh.Do(srv, vh.Req{Method: "HEAD", URL: "/v2/" + fresh + "/manifests/" + ft, H: map[string]string{"Accept": vh.AcceptAll}})
		r.Count("quiescent_fresh_repo_checks", 1)
		if rs.Status != 200 || rs.H.Get("Docker-Content-Digest") != d {
			r.Violation("quiescent:first-use-push-lost", fmt.Sprintf("tag %s pushed (201) as a client's first request to the new repository %s answers %d at quiescence (%s)", ft, fresh, rs.Status, kind), wit("tag:"+fresh+"/"+ft))
		}
	}
	for _, t := range tags {
		rs := vh.Do(srv, vh.Req{Method: "HEAD", URL: "/v2/" + repo + "/manifests/" + t, H: map[string]string{"Accept": vh.AcceptAll}})
		if rs.Status == 200 {
			if d := rs.H.Get("Docker-Content-Digest"); !pushedUnder[t][d] {
				r.Violation("quiescent:tag-to-foreign-manifest", fmt.Sprintf("tag %s resolves to %s which was never pushed under it", t, vh.Short(d)), wit("tag:"+t))
			}
		}
	}
	if kind == vh.Dir {
		if p := vh.ValidateLayout(filepath.Join(root, repo)); len(p) > 0 {
			r.Violation("quiescent:layout", "after the concurrent history the directory is not a valid layout: "+strings.Join(p, "; "), wit(""))
		}
	}
	if hidx < 1 {
		w := wit("")
		if ops, ok := w["operations"].([]map[string]any); ok && len(ops) > 14 {
			w["operations"] = ops[:14]
		}
		r.Sample(w)
	}
}

func describeKey(k string) string {
	p := strings.SplitN(k, ":", 2)
	switch p[0] {
	case "tag":
		return "tag " + p[1]
	case "ref":
		return "the referrers of " + vh.Short(p[1])
	case "art":
		return "shared artifact " + vh.Short(p[1]) + " (served by digest <=> listed under its subject)"
	}
	return "manifest " + vh.Short(p[1])
}

// expiryHolderTrial: the directory store keeps one object per open repository in a cache and drops it when it has not
// been asked for during a grace period.  A request that has been using the repository for longer than that (a manifest
// PUT whose body is still coming) must not lose its object to the expiry: a second request would open a second object
// for the same directory, each with an index of its own, and whichever saves last wipes the other's acknowledged
// update.  Sequential reads at the end decide: both tags pushed with 201 resolve.
type slowBody struct {
	r       *io.PipeReader
	started chan struct{}
	once    sync.Once
}

func (p *slowBody) Read(b []byte) (int, error) {
	p.once.Do(func() { close(p.started) })
	return p.r.Read(b)
}
func (p *slowBody) Close() error { return p.r.Close() }

func expiryHolderTrial(r *vh.Run, i int) {
	root := r.TempDir("c11x")
	defer vh.RemoveAll(root)
	grace := []time.Duration{60 * time.Millisecond, 150 * time.Millisecond}[i%2]
	c := vh.Conf(vh.Dir, root, vh.Policy{Grace: grace})
	variant := []string{"collection-disabled", "collection-on-release"}[(i/2)%2]
	if variant == "collection-disabled" {
		c.Storage.GC.Frequency = -1
	}
	srv := vh.New(c)
	defer srv.Close()
	wit := map[string]any{"trial": i, "grace": grace.String(), "variant": variant}
	cfg := []byte(fmt.Sprintf(`{"x":%d}`, i))
	cd := vh.DigestOf("sha256", cfg)
	vh.Do(srv, vh.Req{Method: "POST", URL: "/v2/x/blobs/uploads/?digest=" + cd, Body: cfg})
	cb := &vh.Blob{Name: "cfg", B: cfg, D: cd}
	slow := vh.MkImage("slow", "sha256", vh.MTImage, cb, vh.MTConfig, nil, "", "", map[string]string{"n": "slow", "i": fmt.Sprint(i)})
	fast := vh.MkImage("fast", "sha256", vh.MTImage, cb, vh.MTConfig, nil, "", "", map[string]string{"n": "fast", "i": fmt.Sprint(i)})
	pr, pw := io.Pipe()
	body := &slowBody{r: pr, started: make(chan struct{})}
	req := httptest.NewRequest("PUT", "/v2/x/manifests/slow", body)
	req.Header.Set("Content-Type", slow.MT)
	req.ContentLength = -1
	slowDone := make(chan int, 1)
	go func() {
		w := httptest.NewRecorder()
		srv.ServeHTTP(w, req)
		slowDone <- w.Code
	}()
	select {
	case <-body.started:
	case <-time.After(10 * time.Second):
		r.Inconclusive("expiryHolderTrial: the slow request never started reading its body")
		_ = pw.Close()
		return
	}
	time.Sleep(3*grace + 40*time.Millisecond) // longer than the expiry needs; the slow request is still there
	fastDone := make(chan int, 1)
	go func() {
		rs := vh.Do(srv, vh.Req{Method: "PUT", URL: "/v2/x/manifests/fast", H: map[string]string{"Content-Type": fast.MT}, Body: fast.Raw})
		fastDone <- rs.Status
	}()
	// the second push is given a moment of its own (it may have to wait for the first: that is C12's subject, not this one's)
	var fs int
	select {
	case fs = <-fastDone:
	case <-time.After(300 * time.Millisecond):
	}
	_, _ = pw.Write(slow.Raw)
	_ = pw.Close()
	ss := <-slowDone
	if fs == 0 {
		fs = <-fastDone
	}
	r.Count("expiry_holder_trials", 1)
	wit["slow_status"], wit["fast_status"] = ss, fs
	for _, tc := range []struct {
		tag    string
		status int
		d      string
	}{{"slow", ss, slow.D}, {"fast", fs, fast.D}} {
		if tc.status != 201 {
			continue
		}
		rs := vh.Do(srv, vh.Req{Method: "HEAD", URL: "/v2/x/manifests/" + tc.tag, H: map[string]string{"Accept": vh.AcceptAll}})
		if rs.Status != 200 || rs.H.Get("Docker-Content-Digest") != tc.d {
			r.Violation("lost-update:repository-object-expired-in-use", fmt.Sprintf("directory store, grace period %s, %s: tag %s was pushed with 201 while another request had been using the repository for longer than the grace period; at quiescence it answers %d - the repository was opened a second time next to the object still in use, and one index was saved over the other", grace, variant, tc.tag, rs.Status), wit)
			return
		}
	}
	if p := vh.ValidateLayout(filepath.Join(root, "x")); len(p) > 0 {
		r.Violation("quiescent:layout", "after the slow and the fast push the directory is not a valid layout: "+strings.Join(p, "; "), wit)
	}
}

// listingHoldsRepositoryTrial: a referrers listing reads the repository index and then the stored answer it names.
// Between the two steps another client pushes a second artifact (the answer is replaced) and a collection runs - with
// no grace period it removes the superseded answer at once.  The listing has been in flight the whole time: it
// answers with the list it found or a later one, never with a list that lacks the artifact acknowledged before it
// started.  The sync shim stops the listing right before it takes the repository lock to read the answer, so the
// order of the steps is a fact.  (The collection may have to wait for the listing - then it simply has not run yet.)
func listingHoldsRepositoryTrial(r *vh.Run, i int) {
	kind := []vh.StoreKind{vh.Dir, vh.Mem, vh.MemDir}[i%3]
	root := ""
	if kind != vh.Mem {
		root = r.TempDir("c11l")
		defer vh.RemoveAll(root)
	}
	srv := vh.New(vh.Conf(kind, root, vh.Policy{Grace: -1}))
	defer srv.Close()
	wit := map[string]any{"trial": i, "store": kind.String()}
	cfg := []byte(fmt.Sprintf(`{"l":%d}`, i))
	cb := &vh.Blob{Name: "cfg", B: cfg, D: vh.DigestOf("sha256", cfg)}
	vh.Do(srv, vh.Req{Method: "POST", URL: "/v2/l/blobs/uploads/?digest=" + cb.D, Body: cfg})
	put := func(m *vh.Man, ref string) int {
		return vh.Do(srv, vh.Req{Method: "PUT", URL: "/v2/l/manifests/" + ref, H: map[string]string{"Content-Type": m.MT}, Body: m.Raw}).Status
	}
	subj := vh.MkImage("S", "sha256", vh.MTImage, cb, vh.MTConfig, nil, "", "", map[string]string{"n": "S", "i": fmt.Sprint(i)})
	a1 := vh.MkImage("A1", "sha256", vh.MTImage, cb, vh.MTConfig, nil, subj.D, "application/x.a", map[string]string{"n": "A1", "i": fmt.Sprint(i)})
	a2 := vh.MkImage("A2", "sha256", vh.MTImage, cb, vh.MTConfig, nil, subj.D, "application/x.a", map[string]string{"n": "A2", "i": fmt.Sprint(i)})
	if put(subj, "s") != 201 || put(a1, a1.D) != 201 {
		r.Inconclusive("listingHoldsRepositoryTrial: setup refused")
		return
	}
	fn := map[vh.StoreKind]string{vh.Dir: "(*dirRepo).blobGet", vh.Mem: "(*memRepo).blobGet", vh.MemDir: "(*memRepo).blobGet"}[kind]
	parked, release := vsync.SetGateBefore(fn)
	defer release()
	type ans struct {
		status int
		body   string
	}
	listed := make(chan ans, 1)
	go func() {
		rs := vh.Do(srv, vh.Req{Method: "GET", URL: "/v2/l/referrers/" + subj.D})
		listed <- ans{rs.Status, string(rs.Body)}
	}()
	select {
	case <-parked:
	case a := <-listed:
		// the listing never read a stored answer (served another way): nothing to show
		r.Count("listing_trials_gate_not_reached", 1)
		_ = a
		return
	case <-time.After(10 * time.Second):
		r.Count("listing_trials_gate_not_reached", 1)
		release()
		<-listed
		return
	}
	st2 := put(a2, a2.D)
	gcDone := make(chan struct{})
	go func() { _ = srv.VerifGC(context.Background(), "l"); close(gcDone) }()
	select {
	case <-gcDone:
		r.Count("listing_trials_collection_ran_during_listing", 1)
	case <-time.After(300 * time.Millisecond):
		r.Count("listing_trials_collection_waited_for_listing", 1)
	}
	release()
	a := <-listed
	<-gcDone
	r.Count("listing_trials", 1)
	wit["second_push"], wit["listing_status"], wit["listing"] = st2, a.status, a.body
	if a.status != 200 || !strings.Contains(a.body, a1.D) {
		r.Violation("listing-lacks-acknowledged-artifact", fmt.Sprintf("%s store, no grace period: a referrers listing in flight while a second artifact was pushed and a collection ran answered %d without artifact A1, which was acknowledged before the listing started and never deleted: %.200s", kind, a.status, a.body), wit)
	}
}

// sessionPressureTrial: other clients keep opening upload sessions in a repository whose session bound is small, while
// one client pushes artifacts to a subject and deletes them again.  The registry writes manifests and referrers answers
// itself; whatever housekeeping it does for its clients' sessions, an acknowledged delete means the artifact is no
// longer listed, an acknowledged push means it is (until deleted), and no push of a complete manifest fails with a 5xx.
func sessionPressureTrial(r *vh.Run, i int) {
	kind := []vh.StoreKind{vh.Dir, vh.Mem}[i%2]
	root := ""
	if kind == vh.Dir {
		root = r.TempDir("c11p")
		defer vh.RemoveAll(root)
	}
	c := vh.Conf(kind, root, vh.Neutral)
	c.Storage.GC.RepoUploadMax = []int{1, 2, 3}[(i/2)%3]
	srv := vh.New(c)
	defer srv.Close()
	wit := map[string]any{"trial": i, "store": kind.String(), "repo_upload_max": c.Storage.GC.RepoUploadMax}
	cfg := []byte(fmt.Sprintf(`{"p":%d}`, i))
	cb := &vh.Blob{Name: "cfg", B: cfg, D: vh.DigestOf("sha256", cfg)}
	vh.Do(srv, vh.Req{Method: "POST", URL: "/v2/p/blobs/uploads/?digest=" + cb.D, Body: cfg})
	subj := vh.MkImage("S", "sha256", vh.MTImage, cb, vh.MTConfig, nil, "", "", map[string]string{"n": "S", "i": fmt.Sprint(i)})
	if st := vh.Do(srv, vh.Req{Method: "PUT", URL: "/v2/p/manifests/s", H: map[string]string{"Content-Type": subj.MT}, Body: subj.Raw}).Status; st != 201 {
		r.Inconclusive("sessionPressureTrial: setup refused")
		return
	}
	stop := make(chan struct{})
	var wg sync.WaitGroup
	for u := 0; u < 3; u++ {
		wg.Add(1)
		go func() {
			defer wg.Done()
			for {
				select {
				case <-stop:
					return
				default:
				}
				vh.Do(srv, vh.Req{Method: "POST", URL: "/v2/p/blobs/uploads/"})
			}
		}()
	}
	deleted, kept := map[string]bool{}, map[string]bool{}
	var fivexx []string
	for n := 0; n < 60; n++ {
		a := vh.MkImage(fmt.Sprintf("a%d", n), "sha256", vh.MTImage, cb, vh.MTConfig, nil, subj.D, "application/x.a", map[string]string{"n": fmt.Sprint(n), "i": fmt.Sprint(i)})
		ps := vh.Do(srv, vh.Req{Method: "PUT", URL: "/v2/p/manifests/" + a.D, H: map[string]string{"Content-Type": a.MT}, Body: a.Raw}).Status
		if ps >= 500 {
			fivexx = append(fivexx, fmt.Sprintf("PUT artifact %d = %d", n, ps))
			continue
		}
		if ps != 201 {
			continue
		}
		if n%3 == 2 {
			kept[a.D] = true
			continue
		}
		if ds := vh.Do(srv, vh.Req{Method: "DELETE", URL: "/v2/p/manifests/" + a.D}).Status; ds == 202 {
			deleted[a.D] = true
		} else if ds >= 500 {
			fivexx = append(fivexx, fmt.Sprintf("DELETE artifact %d = %d", n, ds))
		}
	}
	close(stop)
	wg.Wait()
	r.Count("session_pressure_trials", 1)
	r.Count("session_pressure_acknowledged_deletes", len(deleted))
	ls := vh.Do(srv, vh.Req{Method: "GET", URL: "/v2/p/referrers/" + subj.D})
	for d := range deleted {
		if strings.Contains(string(ls.Body), d) {
			wit["five_xx"] = fivexx
			r.Violation("acknowledged-delete-still-listed", fmt.Sprintf("%s store, at most %d upload sessions per repository, three clients opening sessions: the delete of artifact %s was acknowledged with 202 (GET by digest: %d), at quiescence the referrers of its subject still list it", kind, c.Storage.GC.RepoUploadMax, vh.Short(d), vh.Do(srv, vh.Req{Method: "HEAD", URL: "/v2/p/manifests/" + d, H: map[string]string{"Accept": vh.AcceptAll}}).Status), wit)
			return
		}
	}
	for d := range kept {
		if !strings.Contains(string(ls.Body), d) {
			r.Violation("quiescent:artifact-not-listed", fmt.Sprintf("%s store under session pressure: artifact %s, pushed with 201 and never deleted, is missing from the referrers of its subject", kind, vh.Short(d)), wit)
			return
		}
	}
	if len(fivexx) > 0 {
		wit["five_xx"] = fivexx
		r.Violation("complete-push-failed-under-session-pressure", fmt.Sprintf("%s store, at most %d upload sessions per repository: %d pushes / deletes of complete artifacts were answered with a 5xx while other clients opened upload sessions (first: %s) - the registry evicted the session of its own write", kind, c.Storage.GC.RepoUploadMax, len(fivexx), fivexx[0]), wit)
	}
}

func main() {
	r := vh.Start()
	if strings.HasPrefix(r.Variant(), "vsync") {
		vsync.SetJitter(true, uint64(r.Seed)*0x9e3779b97f4a7c15+3)
	}
	n := r.N(400, 20000)
	vh.Parallel(n, 6, func(i int) { history(r, i) })
	if r.Variant() == "vsync" {
		nx := r.N(8, 80)
		vh.Parallel(nx, 4, func(i int) { expiryHolderTrial(r, i) })
		r.Require("expiry_holder_trials", int64(nx/2))
		nsp := r.N(6, 60)
		vh.Parallel(nsp, 3, func(i int) { sessionPressureTrial(r, i) })
		r.Require("session_pressure_trials", int64(nsp))
		nl := r.N(9, 90)
		for i := 0; i < nl; i++ { // one at a time: the gate is process-wide
			listingHoldsRepositoryTrial(r, i)
		}
		r.Require("listing_trials", int64(nl/2))
	}
	r.Require("histories", int64(n))
	r.Require("operations", int64(n*40))
	r.RequireDistinct("overlap_shapes", n/2)
	r.Finish("short concurrent histories: 4-8 clients x 6-10 operations on one repository (tag pushes of shared and fresh images over 2-3 tags, tag deletes, deletes by digest, artifact pushes to 1-3 shared subjects incl. a missing one, artifact deletes, 2-3 shared artifacts (one of them an index with a subject) that any client pushes again, deletes and probes, a third of the private artifacts are indexes with a subject, a quarter of the histories run with a 25 ms grace period and synchronous pauses so that the cached repository object expires and is reloaded under traffic, reads of tags / manifests / referrers / the tag listing (seen per tag as named-iff-it-resolves)), a background collection loop with a retain-everything policy and a client that keeps creating index entries without content for it to prune, final reads of every tag and shared artifact recorded as the last operations, both stores and (a sixth of the histories) the memory store over a directory filled beforehand, seeded jitter before lock acquisitions in the vsync build; every history checked with porcupine (nondeterministic model, partitioned by object) and at quiescence; a case is one history, distinct = distinct interval orders (call/return shapes) with at least two overlapping requests", "histories", "overlap_shapes")
}
