// C16: repositories are isolated and storage access stays inside the root.
//
// (A) isolation: content is pushed / mounted into repositories whose names are prefixes and nestings of each
// other (a, a/b, ab, a/b/c, a.b, a-b); after every write every digest, tag and subject ever used is probed in
// every repository; anything visible where it was not pushed or mounted is a violation.  Mount: 201 without an
// upload iff the source repository holds the blob or the target already held it.
// (B) path monitor (build variant "vfs": internal/store's os calls go through the shim): the root lives in
// outer/root next to outer/secret (a valid layout with a known blob) and canary files.  Every path any
// filesystem call receives must lie in the directory of a repository the current request addresses (target,
// and `from` of a mount) – its layout files, blobs/ and _uploads/ – or be an ancestor of it inside the root.
// Requests are hostile: dot segments, encoded separators, from=../secret, digests and session ids with
// separators, reserved names.  The tree outside the root is compared with its initial snapshot.
package main

import (
	"context"
	"crypto/sha256"
	"fmt"
	"net/url"
	"os"
	"path"
	"path/filepath"
	"regexp"
	"sort"
	"strings"
	"sync"
	"time"

	"github.com/olareg/olareg/internal/verif/vfs"
	"github.com/olareg/olareg/internal/verif/vh"
)

var (
	repoPart = `[a-z0-9]+(?:(?:\.|_|__|-+)[a-z0-9]+)*`
	repoRE   = regexp.MustCompile(`^` + repoPart + `(?:/` + repoPart + `)*$`)
	routeRE  = regexp.MustCompile(`^/v2/(.+?)/(manifests/[^/]+|blobs/uploads(?:/[^/]*)?|blobs/[^/]+|tags/list|referrers/[^/]+)$`)
	names    = []string{"a", "a/b", "ab", "a/b/c", "a.b", "a-b"}
)

type env struct {
	r     *vh.Run
	idx   int
	kind  vh.StoreKind
	outer string
	root  string
	mu    sync.Mutex
	addr  []string // repositories the current request addresses ("*" = any: Close / collection)
	cur   string   // current request, for messages
	bad   []string
	nev   int
	have  map[string]map[string][]byte // repo -> digest -> bytes (blobs and manifest bodies)
	tags  map[string]map[string]string
	trace []string
}

func inLayout(rel string) bool {
	first, _, _ := strings.Cut(rel, string(filepath.Separator))
	return first == "index.json" || strings.HasPrefix(first, "index.json.") || first == "oci-layout" || first == "blobs" || first == "_uploads"
}

func (e *env) monitor(ev vfs.Event) {
	if ev.Phase != "before" {
		return
	}
	e.mu.Lock()
	defer e.mu.Unlock()
	e.nev++
	check := func(p string) {
		if p == e.root && ev.Mutating && (strings.HasPrefix(ev.Op, "remove") || strings.HasPrefix(ev.Op, "rename")) {
			e.bad = append(e.bad, fmt.Sprintf("%s of the root directory itself (given as %q), during %s", ev.Op, ev.Raw, e.cur))
			return
		}
		if p != e.root && !strings.HasPrefix(p, e.root+"/") {
			e.bad = append(e.bad, fmt.Sprintf("%s %s (given as %q) is outside the root, during %s", ev.Op, p, ev.Raw, e.cur))
			return
		}
		if p == e.root && e.cur == "" && ev.Op == "mkdirall" {
			return // the store creates its own root when it is opened, before any request: inside the root, no request involved
		}
		for _, a := range e.addr {
			if a == "*" {
				return
			}
			rp := filepath.Join(e.root, a)
			if p == rp || strings.HasPrefix(rp, p+"/") {
				return // the repository directory itself or an ancestor inside the root
			}
			if strings.HasPrefix(p, rp+"/") && inLayout(p[len(rp)+1:]) {
				return
			}
		}
		e.bad = append(e.bad, fmt.Sprintf("%s %s is not in the directory of a repository addressed by %s (addressed: %v)", ev.Op, strings.TrimPrefix(p, e.outer), e.cur, e.addr))
	}
	check(ev.Path)
	if ev.Path2 != "" {
		check(ev.Path2)
	}
}

// addressed computes which repositories a request addresses, the way any router would see it.
func reserved(name string) bool {
	for _, c := range strings.Split(name, "/") {
		if c == "index.json" || c == "oci-layout" || c == "blobs" {
			return true
		}
	}
	return false
}

func addressed(rq vh.Req, kind vh.StoreKind) []string {
	u, err := url.ParseRequestURI(rq.URL)
	if err != nil {
		return nil
	}
	p := path.Clean("/" + u.Path)
	m := routeRE.FindStringSubmatch(p)
	if m == nil || !repoRE.MatchString(m[1]) {
		return nil
	}
	if kind == vh.Dir && reserved(m[1]) {
		return nil // a name with a layout file name as component would live inside another repository's directory: refused before any storage access
	}
	out := []string{m[1]}
	if f := u.Query().Get("from"); f != "" && repoRE.MatchString(f) && rq.Method == "POST" {
		out = append(out, f)
	}
	return out
}

func snapshotOutside(outer, root string, more ...string) string {
	var l []string
	_ = filepath.Walk(outer, func(p string, fi os.FileInfo, err error) error {
		if err != nil {
			return nil
		}
		if p == root {
			return filepath.SkipDir
		}
		for _, m := range more {
			if p == m {
				return filepath.SkipDir
			}
		}
		s := fmt.Sprintf("%s %v %d %v", strings.TrimPrefix(p, outer), fi.Mode(), fi.Size(), fi.ModTime().UnixNano())
		if !fi.IsDir() {
			b, _ := os.ReadFile(p)
			s += fmt.Sprintf(" %x", sha256.Sum256(b))
		}
		l = append(l, s)
		return nil
	})
	sort.Strings(l)
	return strings.Join(l, "\n")
}

func batch(r *vh.Run, i int) {
	rng := r.Rand(i)
	kind := []vh.StoreKind{vh.Dir, vh.Mem, vh.Dir, vh.MemDir}[i%4]
	outer := r.TempDir("c16")
	defer vh.RemoveAll(outer)
	root := filepath.Join(outer, "root")
	_ = os.MkdirAll(root, 0o755)
	// the secret: a valid layout next to the root, holding a known blob, plus canaries
	secretBlob := []byte(fmt.Sprintf("top secret %d", i))
	secretD := vh.DigestOf("sha256", secretBlob)
	sdir := filepath.Join(outer, "secret")
	_ = os.MkdirAll(filepath.Join(sdir, "blobs", "sha256"), 0o755)
	_ = os.WriteFile(filepath.Join(sdir, "oci-layout"), []byte(`{"imageLayoutVersion":"1.0.0"}`), 0o644)
	_ = os.WriteFile(filepath.Join(sdir, "index.json"), []byte(`{"schemaVersion":2,"mediaType":"application/vnd.oci.image.index.v1+json","manifests":[],"annotations":{"org.olareg.referrer.convert":"true"}}`), 0o644)
	_ = os.WriteFile(filepath.Join(sdir, "blobs", "sha256", secretD[7:]), secretBlob, 0o644)
	_ = os.WriteFile(filepath.Join(outer, "canary"), []byte("canary"), 0o644)
	before := snapshotOutside(outer, root)

	e := &env{r: r, idx: i, kind: kind, outer: outer, root: root, have: map[string]map[string][]byte{}, tags: map[string]map[string]string{}}
	for _, n := range names {
		e.have[n] = map[string][]byte{}
		e.tags[n] = map[string]string{}
	}
	if kind == vh.MemDir {
		// the memory store reads a backing directory only where it is an OCI layout: a directory store creates the
		// repositories first (before the path monitor is switched on - these are not requests of the batch)
		un0 := vfs.Register(outer, func(vfs.Event) {})
		ps := vh.New(vh.Conf(vh.Dir, root, vh.Neutral))
		for _, n := range names {
			b := []byte(fmt.Sprintf("backing content %d %s", i, n))
			vh.Do(ps, vh.Req{Method: "POST", URL: "/v2/" + n + "/blobs/uploads/?digest=" + vh.DigestOf("sha256", b), Body: b})
		}
		_ = ps.Close()
		un0()
	}
	unreg := vfs.Register(outer, e.monitor)
	defer unreg()
	p := vh.Neutral
	p.EmptyRepo = i%3 == 0
	// the configured root is not always in canonical form (`--dir mirror/`, `--dir ./data`): the same directory
	spelled := []string{root, root + "/", filepath.Dir(root) + "/./" + filepath.Base(root), root + "/."}[(i/4)%4]
	srv := vh.New(vh.Conf(kind, spelled, p))
	u := vh.GenUniverse(rng, vh.UOpts{Tag: fmt.Sprint(i), NArtifact: 3})
	do := func(rq vh.Req) vh.Resp {
		e.mu.Lock()
		e.addr = addressed(rq, kind)
		e.cur = rq.Method + " " + rq.URL
		e.mu.Unlock()
		r.Count("requests", 1)
		return vh.Do(srv, rq)
	}
	viol := func(sig, detail string) {
		tr := e.trace
		if len(tr) > 40 {
			tr = tr[len(tr)-40:]
		}
		r.Violation(sig, detail, map[string]any{"batch": i, "store": kind.String(), "trace": tr})
	}
	flush := func() bool {
		e.mu.Lock()
		defer e.mu.Unlock()
		if len(e.bad) > 0 {
			viol("path:"+strings.Fields(e.bad[0])[0], e.bad[0])
			e.bad = nil
			return true
		}
		return false
	}
	probe := func() bool {
		// every digest / tag in every repository
		all := map[string]bool{secretD: true}
		for _, m := range e.have {
			for d := range m {
				all[d] = true
			}
		}
		ds := make([]string, 0, len(all))
		for d := range all {
			ds = append(ds, d)
		}
		sort.Strings(ds)
		for _, rp := range names {
			for _, d := range ds {
				for _, kindp := range []string{"blobs", "manifests"} {
					rs := do(vh.Req{Method: "GET", URL: "/v2/" + rp + "/" + kindp + "/" + d, H: map[string]string{"Accept": vh.AcceptAll}})
					r.Count("cross_probes", 1)
					want, ok := e.have[rp][d]
					if rs.Status == 200 && !ok {
						viol("isolation:"+kindp, fmt.Sprintf("%s/%s is served from repository %s where it was never pushed or mounted (%d bytes: %.40q)", kindp, vh.Short(d), rp, len(rs.Body), rs.Body))
						return false
					}
					if rs.Status == 200 && string(rs.Body) != string(want) {
						viol("isolation:bytes", fmt.Sprintf("%s/%s in %s serves other bytes than were pushed there", kindp, vh.Short(d), rp))
						return false
					}
					if kindp == "blobs" && ok && rs.Status != 200 {
						viol("isolation:lost", fmt.Sprintf("blob %s pushed to %s answers %d", vh.Short(d), rp, rs.Status))
						return false
					}
				}
			}
			for _, o := range names {
				for t, d := range e.tags[o] {
					rs := do(vh.Req{Method: "HEAD", URL: "/v2/" + rp + "/manifests/" + t, H: map[string]string{"Accept": vh.AcceptAll}})
					got := ""
					if rs.Status == 200 {
						got = rs.H.Get("Docker-Content-Digest")
					}
					if want := e.tags[rp][t]; got != want {
						viol("isolation:tag", fmt.Sprintf("tag %s in repository %s resolves to %s, specification %s (the tag was pushed to %s as %s)", t, rp, vh.Short(got), vh.Short(want), o, vh.Short(d)))
						return false
					}
				}
			}
		}
		return true
	}
	ok := true
	nops := 30 + rng.Intn(25)
	hostileFrom := []string{"../secret", "a/../../secret", "../../" + filepath.Base(outer) + "/secret", "/" + strings.TrimPrefix(sdir, "/"), "..", ".", "a/..", "%2e%2e/secret", "..%2fsecret", "a//b", "A", "secret", "./a", "a/./b"}
	for op := 0; op < nops && ok; op++ {
		rp := names[rng.Intn(len(names))]
		switch k := rng.Intn(12); {
		case k < 3:
			b := u.Blobs[rng.Intn(len(u.Blobs))]
			rs := do(vh.Req{Method: "POST", URL: "/v2/" + rp + "/blobs/uploads/?digest=" + b.D, Body: b.B})
			e.trace = append(e.trace, fmt.Sprintf("blob %s -> %s = %d", b.Name, rp, rs.Status))
			if rs.Status == 201 {
				e.have[rp][b.D] = b.B
			}
		case k < 5:
			mm := u.Mans[rng.Intn(len(u.Mans))]
			valid := true
			for _, rf := range mm.Refs {
				if e.have[rp][rf] == nil {
					valid = false
				}
			}
			tag := []string{"", "t1", "t2"}[rng.Intn(3)]
			rs := do(vh.Req{Method: "PUT", URL: vh.ManifestURL(rp, mm, tag), H: map[string]string{"Content-Type": mm.MT}, Body: mm.Raw})
			e.trace = append(e.trace, fmt.Sprintf("manifest %s as %q -> %s = %d", mm.Name, tag, rp, rs.Status))
			if rs.Status == 201 {
				if !valid {
					viol("isolation:cross-reference", fmt.Sprintf("manifest %s was accepted in %s although a config/layer/child is not in that repository", mm.Name, rp))
					ok = false
				}
				e.have[rp][mm.D] = mm.Raw
				if tag != "" {
					e.tags[rp][tag] = mm.D
				}
			}
		case k < 8:
			// mount
			src := names[rng.Intn(len(names))]
			var ds []string
			for d := range e.have[names[rng.Intn(len(names))]] {
				ds = append(ds, d)
			}
			ds = append(ds, secretD)
			sort.Strings(ds)
			d := ds[rng.Intn(len(ds))]
			from := src
			hostile := rng.Intn(3) == 0
			if hostile {
				from = hostileFrom[rng.Intn(len(hostileFrom))]
				d = secretD
			}
			_, srcHas := e.have[src][d]
			if hostile {
				srcHas = false
			}
			_, dstHas := e.have[rp][d]
			rs := do(vh.Req{Method: "POST", URL: "/v2/" + rp + "/blobs/uploads/?mount=" + d + "&from=" + url.QueryEscape(from)})
			r.Count("mounts", 1)
			e.trace = append(e.trace, fmt.Sprintf("mount %s from %q to %s (source has %v, target has %v) = %d", vh.Short(d), from, rp, srcHas, dstHas, rs.Status))
			switch {
			case rs.Status == 201 && !srcHas && !dstHas:
				viol("mount:source-lacks-blob", fmt.Sprintf("mount of %s from %q into %s answered 201 although neither the source repository nor the target holds it", vh.Short(d), from, rp))
				ok = false
			case rs.Status != 201 && (srcHas || dstHas):
				viol("mount:refused", fmt.Sprintf("mount of %s from %s into %s answered %d although the source holds it", vh.Short(d), from, rp, rs.Status))
				ok = false
			case rs.Status == 201 && srcHas && !dstHas:
				e.have[rp][d] = e.have[src][d]
				r.Count("mount_hits", 1)
			case rs.Status == 202:
				r.Count("mount_fallbacks", 1)
				if loc := rs.H.Get("Location"); loc != "" {
					do(vh.Req{Method: "DELETE", URL: loc})
				}
			case rs.Status >= 500:
				viol("mount:5xx", fmt.Sprintf("mount from %q answered %d", from, rs.Status))
				ok = false
			}
			if hostile {
				r.Count("hostile_mounts", 1)
			}
		default:
			// hostile path-bearing requests
			d := secretD
			reqs := []vh.Req{
				{Method: "GET", URL: "/v2/" + rp + "/../secret/blobs/" + d},
				{Method: "GET", URL: "/v2/" + rp + "/%2e%2e/secret/blobs/" + d},
				{Method: "GET", URL: "/v2/..%2fsecret/blobs/" + d},
				{Method: "GET", URL: "/v2/" + rp + "/blobs/sha256:..%2f..%2f..%2fsecret%2fblobs%2fsha256%2f" + d[7:]},
				{Method: "GET", URL: "/v2/" + rp + "/blobs/..%2f..%2fcanary"},
				{Method: "GET", URL: "/v2/" + rp + "/manifests/..%2f..%2f..%2fcanary", H: map[string]string{"Accept": vh.AcceptAll}},
				{Method: "PATCH", URL: "/v2/" + rp + "/blobs/uploads/..%2f..%2f..%2fcanary", Body: []byte("x")},
				{Method: "DELETE", URL: "/v2/" + rp + "/blobs/uploads/..%2f..%2f..%2fcanary"},
				{Method: "DELETE", URL: "/v2/" + rp + "/blobs/sha256:..%2f..%2f..%2fcanary"},
				{Method: "GET", URL: "/v2/" + rp + "/referrers/..%2f..%2fsecret"},
				{Method: "GET", URL: "/v2//" + strings.TrimPrefix(sdir, "/") + "/tags/list"},
				{Method: "GET", URL: "/v2/" + rp + "/blobs/uploads/..%2f_uploads%2fx"},
				{Method: "POST", URL: "/v2/" + rp + "/blobs/uploads/?digest=sha256:..%2fx", Body: []byte("x")},
				{Method: "PUT", URL: "/v2/" + rp + "/manifests/..%2fescape", H: map[string]string{"Content-Type": vh.MTImage}, Body: u.Mans[0].Raw},
				{Method: "GET", URL: "/v2/index.json/tags/list"},
				{Method: "GET", URL: "/v2/" + rp + "/blobs/tags/list"},
				{Method: "GET", URL: "/v2/" + rp + "/oci-layout/tags/list"},
				{Method: "POST", URL: "/v2/" + rp + "/_uploads/blobs/uploads/"},
			}
			// a repository name that would live inside another repository's blob store
			hexOther := strings.Repeat("ab", 32)
			for dd := range e.have[names[rng.Intn(len(names))]] {
				if strings.HasPrefix(dd, "sha256:") && (hexOther == strings.Repeat("ab", 32) || dd[7:] < hexOther) {
					hexOther = dd[7:]
				}
			}
			inside := rp + "/blobs/sha256/" + hexOther
			nb := []byte(fmt.Sprintf("nested %d %d", i, op))
			reqs = append(reqs,
				vh.Req{Method: "POST", URL: "/v2/" + inside + "/blobs/uploads/?digest=" + vh.DigestOf("sha256", nb), Body: nb},
				vh.Req{Method: "POST", URL: "/v2/" + rp + "/index.json/blobs/uploads/?digest=" + vh.DigestOf("sha256", nb), Body: nb},
				vh.Req{Method: "PUT", URL: "/v2/" + rp + "/blobs/x/manifests/latest", H: map[string]string{"Content-Type": vh.MTImage}, Body: u.Mans[0].Raw},
			)
			// traversal inside a manifest body: descriptors whose digest is a path
			victim := names[rng.Intn(len(names))]
			up := strings.Repeat("../", 2+strings.Count(rp, "/"))
			for _, evil := range []string{"sha256:" + up + victim + "/blobs/sha256/" + hexOther, "sha256:" + up + "../secret/blobs/sha256/" + d[7:], "sha256:" + up + "../canary", "sha256:/etc/hostname", "sha256:..", "sha512:" + up + victim + "/index.json"} {
				cfgOK := ""
				for dd := range e.have[rp] {
					if cfgOK == "" || dd < cfgOK {
						cfgOK = dd
					}
				}
				if cfgOK == "" {
					cfgOK = evil
				}
				img1 := fmt.Sprintf(`{"schemaVersion":2,"mediaType":"%s","config":{"mediaType":"%s","digest":"%s","size":2},"layers":[]}`, vh.MTImage, vh.MTConfig, evil)
				img2 := fmt.Sprintf(`{"schemaVersion":2,"mediaType":"%s","config":{"mediaType":"%s","digest":"%s","size":2},"layers":[{"mediaType":"%s","digest":"%s","size":3}]}`, vh.MTImage, vh.MTConfig, cfgOK, vh.MTLayer, evil)
				idx := fmt.Sprintf(`{"schemaVersion":2,"mediaType":"%s","manifests":[{"mediaType":"%s","digest":"%s","size":3}]}`, vh.MTIndex, vh.MTImage, evil)
				sub := fmt.Sprintf(`{"schemaVersion":2,"mediaType":"%s","config":{"mediaType":"%s","digest":"%s","size":2},"layers":[],"subject":{"mediaType":"%s","digest":"%s","size":3}}`, vh.MTImage, vh.MTConfig, cfgOK, vh.MTImage, evil)
				for bi, body := range []string{img1, img2, idx, sub} {
					mt := vh.MTImage
					if bi == 2 {
						mt = vh.MTIndex
					}
					reqs = append(reqs, vh.Req{Method: "PUT", URL: "/v2/" + rp + "/manifests/evil", H: map[string]string{"Content-Type": mt}, Body: []byte(body)})
				}
			}
			rq := reqs[rng.Intn(len(reqs))]
			rs := do(rq)
			if rng.Intn(2) == 0 {
				// the same request again, twice: an answer must not depend on having been asked before
				for rep := 0; rep < 2; rep++ {
					if again := do(rq); again.Status/100 != rs.Status/100 && rq.Method != "PUT" && rq.Method != "DELETE" {
						viol("hostile:answer-changes-on-repeat", fmt.Sprintf("%s %s answered %d, repeated: %d", rq.Method, rq.URL, rs.Status, again.Status))
						ok = false
					}
				}
				r.Count("hostile_requests_repeated", 1)
			}
			if rq.Method == "PUT" && strings.HasSuffix(rq.URL, "/manifests/evil") {
				r.Count("hostile_manifest_bodies", 1)
				if rs.Status == 201 && !strings.Contains(string(rq.Body), `"subject"`) {
					viol("escape:manifest-accepted", fmt.Sprintf("a manifest whose descriptor digest is a path was accepted: %.300s", rq.Body))
					ok = false
				}
				if rs.Status == 201 {
					// whatever was accepted, reading it back must not serve foreign content
					g := do(vh.Req{Method: "GET", URL: "/v2/" + rp + "/manifests/evil", H: map[string]string{"Accept": vh.MTImage}})
					if g.Status == 200 && (strings.Contains(string(g.Body), "top secret") || string(g.Body) == "canary") {
						viol("escape:content", "reading back a manifest with a path as digest served content from outside the root")
						ok = false
					}
					do(vh.Req{Method: "DELETE", URL: "/v2/" + rp + "/manifests/evil"})
				}
			}
			r.Count("hostile_requests", 1)
			r.Distinct("hostile_templates", strings.ReplaceAll(strings.ReplaceAll(rq.Method+" "+rq.URL, rp, "R"), d[7:], "D"))
			e.trace = append(e.trace, fmt.Sprintf("%s %s = %d", rq.Method, rq.URL, rs.Status))
			if rs.Status == 200 && (strings.Contains(string(rs.Body), "top secret") || string(rs.Body) == "canary") {
				viol("escape:content", fmt.Sprintf("%s %s served content from outside the root", rq.Method, rq.URL))
				ok = false
			}
			if rs.Status >= 500 {
				viol("hostile:5xx", fmt.Sprintf("%s %s answered %d", rq.Method, rq.URL, rs.Status))
				ok = false
			}
		}
		if flush() {
			ok = false
		}
		if ok && rng.Intn(6) == 0 {
			// a collection of one repository addresses that repository only: what it reads, writes and removes
			// must be its own layout, never the directory of a repository nested below it
			g := names[rng.Intn(len(names))]
			e.mu.Lock()
			e.addr, e.cur = []string{g}, "collection of "+g
			e.mu.Unlock()
			_ = srv.VerifGC(context.Background(), g)
			r.Count("single_repository_collections", 1)
			e.trace = append(e.trace, "collect "+g)
			if flush() || !probe() {
				ok = false
			}
		}
		if ok && op%4 == 0 {
			ok = probe()
			if flush() {
				ok = false
			}
		}
	}
	if ok {
		ok = probe()
	}
	e.mu.Lock()
	e.addr, e.cur = []string{"*"}, "Close"
	e.mu.Unlock()
	_ = srv.Close()
	flush()
	if after := snapshotOutside(outer, root); after != before {
		viol("outside-changed", "the tree outside the root changed:\nbefore:\n"+before+"\nafter:\n"+after)
	}
	r.Count("sentinel_comparisons", 1)
	if kind != vh.Mem {
		// a second store whose only (nested) repository becomes empty and is collected: whatever the store tidies up
		// afterwards, its root directory stays and nothing above it is touched
		root2 := filepath.Join(outer, "root2")
		_ = os.MkdirAll(root2, 0o755)
		before2 := snapshotOutside(outer, root, root2)
		e.mu.Lock()
		e.root = root2
		e.mu.Unlock()
		sp2 := []string{root2 + "/", filepath.Dir(root2) + "/./root2", root2, root2 + "/."}[(i/4)%4]
		p2 := vh.Policy{Untagged: true, Dangling: true, WithSubj: true, EmptyRepo: true, Grace: -1}
		s2 := vh.New(vh.Conf(kind, sp2, p2))
		nb := []byte(fmt.Sprintf("lonely %d", i))
		nd := vh.DigestOf("sha256", nb)
		for _, rq := range []vh.Req{{Method: "POST", URL: "/v2/x/y/z/blobs/uploads/?digest=" + nd, Body: nb}, {Method: "DELETE", URL: "/v2/x/y/z/blobs/" + nd}} {
			e.mu.Lock()
			e.addr, e.cur = addressed(rq, kind), rq.Method+" "+rq.URL
			e.mu.Unlock()
			vh.Do(s2, rq)
		}
		e.mu.Lock()
		e.addr, e.cur = []string{"*"}, "collection of a store whose only repository is empty"
		e.mu.Unlock()
		_ = s2.VerifGC(context.Background(), "x/y/z")
		now := time.Now()
		_ = s2.VerifGCPass(now, now.Add(-time.Second))
		_ = s2.Close()
		r.Count("emptied_store_trials", 1)
		flush()
		if after2 := snapshotOutside(outer, root, root2); after2 != before2 {
			viol("outside-changed", "emptied store: the tree outside the root changed:\nbefore:\n"+before2+"\nafter:\n"+after2)
		}
		if fi, err := os.Stat(root2); err != nil || !fi.IsDir() {
			viol("root-removed", fmt.Sprintf("after its only repository x/y/z was emptied and collected the configured root directory (given as %q) is gone", sp2))
		}
		e.mu.Lock()
		e.root = root
		e.mu.Unlock()
		_ = os.RemoveAll(root2)
	}
	// paged referrers answers are kept in a cache of the server: a page of repository pa's answer must not be handed
	// out through another repository, whatever cache digest and page number the request carries
	{
		c3 := vh.Conf(vh.Mem, "", vh.Neutral)
		c3.API.Referrer.Limit = 700
		s3 := vh.New(c3)
		cfgb := &vh.Blob{Name: "pcfg", B: []byte(fmt.Sprintf(`{"p":%d}`, i))}
		cfgb.D = vh.DigestOf("sha256", cfgb.B)
		subj := vh.MkImage("psubj", "sha256", vh.MTImage, cfgb, vh.MTConfig, nil, "", "", map[string]string{"p": fmt.Sprint(i)})
		var arts []*vh.Man
		for _, rp := range []string{"pa", "pb"} {
			vh.Do(s3, vh.Req{Method: "POST", URL: "/v2/" + rp + "/blobs/uploads/?digest=" + cfgb.D, Body: cfgb.B})
			vh.Do(s3, vh.Req{Method: "PUT", URL: "/v2/" + rp + "/manifests/" + subj.D, H: map[string]string{"Content-Type": subj.MT}, Body: subj.Raw})
		}
		for k := 0; k < 6; k++ {
			a := vh.MkImage(fmt.Sprintf("part%d", k), "sha256", vh.MTImage, cfgb, vh.MTConfig, nil, subj.D, "application/x.a", map[string]string{"k": fmt.Sprint(k), "p": fmt.Sprint(i)})
			arts = append(arts, a)
			vh.Do(s3, vh.Req{Method: "PUT", URL: "/v2/pa/manifests/" + a.D, H: map[string]string{"Content-Type": a.MT}, Body: a.Raw})
		}
		first := vh.Do(s3, vh.Req{Method: "GET", URL: "/v2/pa/referrers/" + subj.D})
		link := first.H.Get("Link")
		if ci := strings.Index(link, "cache="); first.Status == 200 && ci >= 0 {
			cache := link[ci+6:]
			if j := strings.IndexAny(cache, "&>"); j >= 0 {
				cache = cache[:j]
			}
			for _, rp := range []string{"pb", "pc", "pa/x"} {
				for pg := 1; pg <= 3; pg++ {
					rq := vh.Req{Method: "GET", URL: fmt.Sprintf("/v2/%s/referrers/%s?cache=%s&page=%d", rp, subj.D, cache, pg)}
					rs := vh.Do(s3, rq)
					r.Count("referrer_page_cache_probes", 1)
					for _, a := range arts {
						if rs.Status == 200 && strings.Contains(string(rs.Body), a.D) {
							viol("isolation:referrers-page-cache", fmt.Sprintf("GET %s lists %s, an artifact that was pushed to repository pa only (the page comes from the server's cache of pa's paged answer)", rq.URL, vh.Short(a.D)))
							ok = false
							break
						}
					}
				}
			}
		}
		_ = s3.Close()
	}
	r.Count("batches", 1)
	e.mu.Lock()
	r.Count("fs_events_checked", e.nev)
	e.mu.Unlock()
	r.Distinct("stores", kind.String())
	if i < 2 {
		tr := e.trace
		if len(tr) > 20 {
			tr = tr[:20]
		}
		r.Sample(map[string]any{"batch": i, "store": kind.String(), "first_operations": tr})
	}
}

// nonRepositoryTrial: the root holds a directory X that is no repository - it has an index.json (a file of some other
// application, or a layout someone took apart) and a blobs/sha256/<d> file, but no oci-layout file (or one of another
// version).  "A cross-repository mount succeeds only if the source repository holds the blob": X is no repository, so
// a mount from it never answers 201 and its file never becomes visible in a real repository - whatever was asked of X
// before (the store once took X for a repository as soon as its index.json had been read by a listing).
func nonRepositoryTrial(r *vh.Run, i int) {
	kind := []vh.StoreKind{vh.Dir, vh.MemDir}[i%2]
	ro := (i/2)%2 == 1
	outer := r.TempDir("c16n")
	defer vh.RemoveAll(outer)
	root := filepath.Join(outer, "root")
	x := filepath.Join(root, "x")
	_ = os.MkdirAll(filepath.Join(x, "blobs", "sha256"), 0o755)
	content := []byte(fmt.Sprintf("file of a directory that is no repository %d", i))
	d := vh.DigestOf("sha256", content)
	_ = os.WriteFile(filepath.Join(x, "blobs", "sha256", d[7:]), content, 0o644)
	idx := []string{`{"schemaVersion":2,"manifests":[]}`, `{"name":"something else","items":[1,2,3]}`}[(i/4)%2]
	_ = os.WriteFile(filepath.Join(x, "index.json"), []byte(idx), 0o644)
	if (i/8)%2 == 1 {
		_ = os.WriteFile(filepath.Join(x, "oci-layout"), []byte(`{"imageLayoutVersion":"2.0.0"}`), 0o644)
	}
	c := vh.Conf(kind, root, vh.Neutral)
	if ro {
		c.Storage.ReadOnly = vh.BP(true)
	}
	srv := vh.New(c)
	defer srv.Close()
	wit := map[string]any{"trial": i, "store": kind.String(), "read_only": ro, "index_json": idx}
	var tr []string
	do := func(rq vh.Req) vh.Resp {
		rs := vh.Do(srv, rq)
		tr = append(tr, fmt.Sprintf("%s %s = %d", rq.Method, rq.URL, rs.Status))
		return rs
	}
	do(vh.Req{Method: "GET", URL: "/v2/x/blobs/" + d})
	do(vh.Req{Method: "GET", URL: "/v2/x/tags/list"})
	do(vh.Req{Method: "GET", URL: "/v2/x/manifests/latest", H: map[string]string{"Accept": vh.AcceptAll}})
	do(vh.Req{Method: "GET", URL: "/v2/x/blobs/" + d})
	r.Count("non_repository_trials", 1)
	if !ro {
		m := do(vh.Req{Method: "POST", URL: "/v2/real/blobs/uploads/?mount=" + d + "&from=x"})
		g := do(vh.Req{Method: "GET", URL: "/v2/real/blobs/" + d})
		wit["requests"] = tr
		if m.Status == 201 || g.Status == 200 {
			r.Violation("isolation:mount-from-a-directory-that-is-no-repository", fmt.Sprintf("%s store: %s/x has an index.json and a blobs directory but is no OCI layout; after a listing of x, POST ?mount=<d>&from=x answers %d and GET /v2/real/blobs/<d> answers %d: a file of a directory that is no repository became content of a repository", kind, "root", m.Status, g.Status), wit)
		}
	}
}

// nestedLayoutTrial: a complete OCI layout sits *inside* the blob store of repository a (root/a/blobs/sha256/x).  The name
// a/blobs/sha256/x is grammatical, but what lies there belongs to a: neither store may serve it as a repository of its
// own, and nothing of it may be mounted into another repository.
func nestedLayoutTrial(r *vh.Run, i int) {
	kind := []vh.StoreKind{vh.MemDir, vh.Dir}[i%2]
	ro := (i/2)%2 == 1
	outer := r.TempDir("c16l")
	defer vh.RemoveAll(outer)
	root := filepath.Join(outer, "root")
	content := []byte(fmt.Sprintf("content inside the blob store of a %d", i))
	d := vh.DigestOf("sha256", content)
	inner := []string{"x", "x/y", "index.json/x"}[(i/4)%3]
	for _, dir := range []string{filepath.Join(root, "a"), filepath.Join(root, "a", "blobs", "sha256", filepath.FromSlash(inner))} {
		_ = os.MkdirAll(filepath.Join(dir, "blobs", "sha256"), 0o755)
		_ = os.WriteFile(filepath.Join(dir, "oci-layout"), []byte(`{"imageLayoutVersion":"1.0.0"}`), 0o644)
		_ = os.WriteFile(filepath.Join(dir, "index.json"), []byte(`{"schemaVersion":2,"mediaType":"application/vnd.oci.image.index.v1+json","manifests":[]}`), 0o644)
	}
	_ = os.WriteFile(filepath.Join(root, "a", "blobs", "sha256", filepath.FromSlash(inner), "blobs", "sha256", d[7:]), content, 0o644)
	c := vh.Conf(kind, root, vh.Neutral)
	if ro {
		c.Storage.ReadOnly = vh.BP(true)
	}
	srv := vh.New(c)
	defer srv.Close()
	name := "a/blobs/sha256/" + inner
	wit := map[string]any{"trial": i, "store": kind.String(), "read_only": ro, "name": name}
	r.Count("nested_layout_trials", 1)
	g := vh.Do(srv, vh.Req{Method: "GET", URL: "/v2/" + name + "/blobs/" + d})
	h := vh.Do(srv, vh.Req{Method: "HEAD", URL: "/v2/" + name + "/blobs/" + d})
	if g.Status == 200 || h.Status == 200 {
		r.Violation("isolation:layout-inside-a-blob-store-served", fmt.Sprintf("%s store: GET /v2/%s/blobs/<d> answers %d (HEAD %d): files below the blobs directory of repository a are served as a repository of their own", kind, name, g.Status, h.Status), wit)
		return
	}
	if !ro {
		m := vh.Do(srv, vh.Req{Method: "POST", URL: "/v2/real/blobs/uploads/?mount=" + d + "&from=" + url.QueryEscape(name)})
		g2 := vh.Do(srv, vh.Req{Method: "GET", URL: "/v2/real/blobs/" + d})
		if m.Status == 201 || g2.Status == 200 {
			r.Violation("isolation:mount-from-inside-a-blob-store", fmt.Sprintf("%s store: POST ?mount=<d>&from=%s answers %d and GET /v2/real/blobs/<d> answers %d: a file below the blobs directory of repository a became content of another repository", kind, name, m.Status, g2.Status), wit)
		}
	}
}

// missingRootTrial: the configured root does not exist yet (and neither does its parent).  Requests may create what they
// need at or below the root - never the directories above it: those are outside the root.
func missingRootTrial(r *vh.Run, i int) {
	outer := r.TempDir("c16m")
	defer vh.RemoveAll(outer)
	root := filepath.Join(outer, "not-there", "nor-this", "root")
	c := vh.Conf(vh.Dir, root, vh.Neutral)
	srv := vh.New(c)
	defer srv.Close()
	// what the server creates when it is started is the operator's doing; from here on it is the requests'
	before := snapshotOutside(outer, root)
	b := []byte(fmt.Sprintf("first push %d", i))
	rs := vh.Do(srv, vh.Req{Method: "POST", URL: "/v2/a/b/blobs/uploads/?digest=" + vh.DigestOf("sha256", b), Body: b})
	vh.Do(srv, vh.Req{Method: "GET", URL: "/v2/a/b/tags/list"})
	after := snapshotOutside(outer, root)
	r.Count("missing_root_trials", 1)
	if before != after {
		r.Violation("path:created-above-the-root", fmt.Sprintf("the configured root %s did not exist; the first push (answered %d) created directories above it:\nbefore:\n%s\nafter:\n%s", strings.TrimPrefix(root, outer), rs.Status, before, after), map[string]any{"trial": i})
	}
}

func main() {
	r := vh.Start()
	n := r.N(96, 3000)
	vh.Parallel(n, 16, func(i int) { batch(r, i) })
	if ua := vfs.UnattributedPaths(); len(ua) > 0 {
		r.Violation("path:unattributed", fmt.Sprintf("filesystem calls on paths outside every sandbox: %v", ua), nil)
	}
	nn := r.N(32, 320)
	vh.Parallel(nn, 8, func(i int) { nonRepositoryTrial(r, i) })
	vh.Parallel(r.N(4, 40), 4, func(i int) { missingRootTrial(r, i) })
	nl := r.N(24, 240)
	vh.Parallel(nl, 8, func(i int) { nestedLayoutTrial(r, i) })
	r.Require("nested_layout_trials", int64(nl))
	r.Require("non_repository_trials", int64(nn))
	r.Require("batches", int64(n))
	r.Require("cross_probes", 10000)
	r.Require("fs_events_checked", 5000)
	r.Require("hostile_mounts", 50)
	r.Finish("batches of 30-55 operations over 6 repository names that are prefixes/nestings of each other: blob and manifest pushes, mounts (ordinary and with hostile `from` values), 18 hostile path templates (dot segments, encoded separators, digests / session ids / references with separators, reserved names, absolute paths); cross-repository probe of every digest and tag in every repository; every path of every filesystem call of the stores checked against the addressed repositories; tree outside the root compared; directory, memory and memory-over-directory stores; a case is one request, distinct = hostile templates used", "requests", "hostile_templates")
}
