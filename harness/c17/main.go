// C17: fallback-tag referrers are converted without loss, repeatably.
//
// Generated legacy layouts (tags <alg>-<hex> pointing to an index of referrers): 0-3 subjects x 0-4 referrers,
// fallback indexes that are accurate / stale (wrong size, wrong artifactType, wrong annotations, entry for a
// missing manifest, a non-referrer entry) / mixed-subject, a converted answer coexisting with a fallback tag,
// sha256 and sha512 subjects, unrelated tags including ones that merely look like fallback tags; writable
// directory store and memory-over-directory.  Oracle: the expected referrers per subject are computed from the
// manifests on disk that some fallback index lists, grouped by the subject each one actually names.  After
// opening: referrers API == expected, every other tag / manifest / blob still served, the directory carries the
// converted marker and is a valid layout; opening again, and opening every crash image of the conversion (build
// variant "vfs"), gives the same answers; the first request returns (stable-stall criterion, never a deadline).
package main

import (
	"encoding/json"
	"fmt"
	"net/http"
	"os"
	"path/filepath"
	"sort"
	"strings"
	"sync"
	"sync/atomic"
	"syscall"
	"time"

	"github.com/olareg/olareg"
	"github.com/olareg/olareg/internal/verif/vfs"
	"github.com/olareg/olareg/internal/verif/vh"
)

type checker struct {
	r    *vh.Run
	idx  int
	kind vh.StoreKind
	L    vh.Legacy
	desc string
}

func verifyServer(c *checker, h http.Handler, phase string) []string {
	var probs []string
	acc := map[string]string{"Accept": vh.AcceptAll}
	for _, sd := range c.L.Subjects {
		want := c.L.Expected[sd]
		rs := vh.Do(h, vh.Req{Method: "GET", URL: "/v2/leg/referrers/" + sd})
		var idx struct {
			Manifests []vh.RefDesc `json:"manifests"`
		}
		_ = json.Unmarshal(rs.Body, &idx)
		got := []string{}
		for _, m := range idx.Manifests {
			got = append(got, m.Digest)
		}
		sort.Strings(got)
		c.r.Count("subjects_compared", 1)
		if rs.Status != 200 || strings.Join(got, ",") != strings.Join(want, ",") {
			probs = append(probs, fmt.Sprintf("%s: referrers of subject %s: status %d, %d listed, the fallback indexes give %d (listed %v, expected %v)", phase, vh.Short(sd), rs.Status, len(got), len(want), shorts(got), shorts(want)))
			continue
		}
		for _, m := range idx.Manifests {
			for _, a := range c.L.All {
				if a.D == m.Digest {
					eff := a.AT
					if eff == "" && !a.Index {
						eff = vh.MTConfig
					}
					if m.Size != int64(len(a.Raw)) || m.ArtifactType != eff || m.Annotations["seed"] != a.Ann["seed"] {
						probs = append(probs, fmt.Sprintf("%s: descriptor of %s is stale after conversion: size %d artifactType %q annotations %v", phase, vh.Short(a.D), m.Size, m.ArtifactType, m.Annotations))
					}
				}
			}
		}
	}
	for tg, d := range c.L.OtherTags {
		rs := vh.Do(h, vh.Req{Method: "HEAD", URL: "/v2/leg/manifests/" + tg, H: acc})
		if rs.Status != 200 || rs.H.Get("Docker-Content-Digest") != d {
			probs = append(probs, fmt.Sprintf("%s: tag %s lost (status %d)", phase, tg, rs.Status))
		}
	}
	for _, m := range c.L.All {
		rq := vh.Req{Method: "GET", URL: "/v2/leg/blobs/" + m.D}
		rs := vh.Do(h, rq)
		if rs.Status != 200 || string(rs.Body) != string(m.Raw) {
			probs = append(probs, fmt.Sprintf("%s: content %s lost (status %d)", phase, vh.Short(m.D), rs.Status))
		}
		if m.Subject != "" && contains(c.L.Expected[m.Subject], m.D) {
			if ms := vh.Do(h, vh.Req{Method: "HEAD", URL: "/v2/leg/manifests/" + m.D, H: acc}); ms.Status != 200 {
				probs = append(probs, fmt.Sprintf("%s: referrer manifest %s is not addressable (status %d)", phase, vh.Short(m.D), ms.Status))
			}
		}
	}
	return probs
}

func contains(l []string, x string) bool {
	for _, y := range l {
		if y == x {
			return true
		}
	}
	return false
}

func shorts(l []string) []string {
	o := make([]string, len(l))
	for i, d := range l {
		o[i] = vh.Short(d)
	}
	return o
}

func copyTree(src, dst string) {
	_ = filepath.Walk(src, func(p string, fi os.FileInfo, err error) error {
		if err != nil {
			return nil
		}
		rel, _ := filepath.Rel(src, p)
		t := filepath.Join(dst, rel)
		if fi.IsDir() {
			return os.MkdirAll(t, 0o755)
		}
		b, err := os.ReadFile(p)
		if err == nil {
			_ = os.WriteFile(t, b, 0o644)
		}
		return nil
	})
}

// crashOnly: run for C09 (VERIF_FOCUS=crash) - only the crash images of the conversion on the directory store are
// judged: whatever was there before the crash (the referrers the fallback tags name, every other tag, manifest and
// blob) is in effect after the restart.  Problems of an uninterrupted conversion are C17's and stay silent here.
var crashOnly = os.Getenv("VERIF_FOCUS") == "crash"

func main() {
	r := vh.Start()
	if crashOnly {
		n := r.N(81, 2499)
		vh.Parallel(n, 12, func(i int) { one(r, 3*i) })
		r.Require("layouts", int64(n))
		r.Require("crash_images_checked", int64(n))
		r.Finish("conversions: generated legacy layouts (see C17) opened by a writable directory store under the filesystem shim; the tree is copied before every mutating call and in the middle of every write of the conversion, each copy is opened by a new server and must serve every referrer the fallback tags name, every other tag, manifest and blob; a case is one crash image", "crash_images_checked", "layout_classes")
		return
	}
	n := r.N(180, 5001)
	vh.Parallel(n, 12, func(i int) { one(r, i) })
	r.Require("layouts", int64(n))
	r.Require("subjects_compared", int64(n*3))
	r.Require("crash_images_checked", int64(n/3))
	r.RequireDistinct("layout_classes", 7)
	r.Finish("generated legacy layouts (0-3 subjects x 0-4 referrers; fallback index accurate / stale size / stale artifactType / stale annotations / entry for a missing manifest / mixed subject / non-referrer entry; dangling fallback tag; sha256 and sha512 subjects; look-alike tags; shuffled index.json) opened by a writable directory store, by memory-over-directory and by a read-only memory-over-directory (which converts in memory); classes also: one referrer listed twice, index referrers with and without a wrong artifactType, an ordinary multi-platform index under a digest-shaped tag; referrers, other tags, content and marker checked after the first open, after a second open, on every crash image of the conversion, and after conversions in which the k-th mutating call failed with an I/O error (then reopened on healthy storage); the first request runs under the stable-stall watch; a case is one layout x store, distinct = fallback index classes", "layouts", "layout_classes")
}

func one(r *vh.Run, i int) {
	rng := r.Rand(i / 3) // the same layout for the three stores
	kind := []vh.StoreKind{vh.Dir, vh.MemDir, vh.MemDir}[i%3]
	ro := i%3 == 2 // the memory store over the directory, read-only: it converts in memory all the same
	base := r.TempDir("c17")
	defer vh.RemoveAll(base)
	root := filepath.Join(base, "root")
	L := vh.BuildLegacy(rng, root, fmt.Sprint(i/3))
	open := func() http.Handler {
		cf := vh.Conf(kind, root, vh.Neutral)
		if ro {
			cf.Storage.ReadOnly = vh.BP(true)
		}
		return vh.New(cf)
	}
	c := &checker{r: r, idx: i, kind: kind, L: L, desc: fmt.Sprintf("layout %d store %s read-only %v kinds %v", i/3, kind, ro, L.Kinds)}
	for _, k := range L.Kinds {
		r.Distinct("layout_classes", k)
	}
	wit := map[string]any{"layout": i / 3, "store": kind.String(), "read_only": ro, "fallback_index_classes": L.Kinds, "subjects": len(L.Subjects)}
	if b, err := os.ReadFile(filepath.Join(root, "leg", "index.json")); err == nil {
		wit["index_json"] = string(b)
	}
	viol := func(sig, detail string) { r.Violation(sig, detail, wit) }
	// crash images of the conversion
	var mu sync.Mutex
	var images []string
	imgDir := filepath.Join(base, "img")
	unreg := func() {}
	if kind == vh.Dir {
		unreg = vfs.Register(root, func(ev vfs.Event) {
			if !ev.Mutating || ev.Phase == "after" {
				return
			}
			mu.Lock()
			defer mu.Unlock()
			d := filepath.Join(imgDir, fmt.Sprintf("%04d", len(images)))
			copyTree(root, d)
			images = append(images, d)
		})
	}
	pristine := filepath.Join(base, "pristine")
	if kind == vh.Dir && !crashOnly {
		copyTree(root, pristine) // the layout as generated, for the failing-call series below
	}
	srv := open().(*olareg.Server)
	var probs []string
	res := vh.Watch(func() { probs = verifyServer(c, srv, "first open") }, 2*time.Second, 60*time.Second)
	unreg()
	r.Count("layouts", 1)
	if res.Stalled {
		wit["blocked_goroutines"] = res.Desc
		if crashOnly {
			return
		}
		viol("conversion-hangs", fmt.Sprintf("the first requests after opening never return: every goroutine inside olareg is blocked (%s)", c.desc))
		return // the server is abandoned
	}
	if !res.Done {
		r.Inconclusive("first open still running after 60s without a stable stall")
		return
	}
	for _, p := range probs {
		if !crashOnly {
			viol("conversion:"+classify(p), p+" ["+c.desc+"]")
		}
	}
	_ = srv.Close()
	if len(probs) > 0 {
		return
	}
	if kind == vh.Dir && !crashOnly {
		ib, _ := os.ReadFile(filepath.Join(root, "leg", "index.json"))
		if !strings.Contains(string(ib), `"org.olareg.referrer.convert":"true"`) {
			viol("conversion:no-marker", "index.json does not carry the converted marker after conversion ["+c.desc+"]")
		}
		if p := vh.ValidateLayout(filepath.Join(root, "leg")); len(p) > 0 {
			viol("conversion:layout", "after conversion the directory is not a valid layout: "+strings.Join(p, "; "))
		}
	}
	// repeat
	if !crashOnly {
		srv2 := open().(*olareg.Server)
		res2 := vh.Watch(func() { probs = verifyServer(c, srv2, "second open") }, 2*time.Second, 60*time.Second)
		if res2.Stalled {
			wit["blocked_goroutines"] = res2.Desc
			viol("conversion-hangs", "requests after the second open never return ["+c.desc+"]")
			return
		}
		for _, p := range probs {
			viol("conversion-repeat:"+classify(p), p+" ["+c.desc+"]")
		}
		_ = srv2.Close()
		r.Count("reopen_runs", 1)
	}
	// interrupted conversion: every crash image, opened again, gives the same result
	mu.Lock()
	imgs := images
	mu.Unlock()
	for k, d := range imgs {
		s3 := vh.New(vh.Conf(vh.Dir, d, vh.Neutral))
		var p3 []string
		r3 := vh.Watch(func() { p3 = verifyServer(c, s3, fmt.Sprintf("crash image %d of the conversion", k)) }, 2*time.Second, 60*time.Second)
		r.Count("crash_images_checked", 1)
		if r3.Stalled {
			wit["blocked_goroutines"] = r3.Desc
			viol("conversion-hangs", fmt.Sprintf("opening crash image %d of the conversion hangs [%s]", k, c.desc))
			break
		}
		for _, p := range p3 {
			viol("conversion-interrupted:"+classify(p), p+" ["+c.desc+"]")
		}
		if r3.Done {
			_ = s3.Close()
		}
		if len(p3) > 0 {
			break
		}
	}
	// interrupted by a failing call instead of a crash: the k-th mutating call of the conversion returns an I/O error
	// (the conversion gives up, requests fail), the server is closed; a new server on that directory, with healthy
	// storage, gives the full result
	if kind == vh.Dir && !crashOnly && len(imgs) > 0 && (i/3)%2 == 0 {
		nmut := len(imgs)
		if nmut > 14 {
			nmut = 14
		}
		for k := 0; k < nmut; k++ {
			d := filepath.Join(base, fmt.Sprintf("flt%02d", k))
			copyTree(pristine, d)
			var cnt atomic.Int64
			off := vfs.RegisterFault(d, func(ev vfs.Event) error {
				if ev.Mutating && cnt.Add(1) == int64(k+1) {
					return syscall.EIO
				}
				return nil
			})
			s4 := vh.New(vh.Conf(vh.Dir, d, vh.Neutral))
			r4 := vh.Watch(func() {
				vh.Do(s4, vh.Req{Method: "GET", URL: "/v2/leg/tags/list"})
				for _, sj := range L.Subjects {
					vh.Do(s4, vh.Req{Method: "GET", URL: "/v2/leg/referrers/" + sj})
				}
			}, 2*time.Second, 60*time.Second)
			off()
			if os.Getenv("VERIF_DEBUG") != "" {
				ib, _ := os.ReadFile(filepath.Join(d, "leg", "index.json"))
				fmt.Fprintf(os.Stderr, "DEBUG layout %d k=%d cnt=%d marker=%v kinds=%v\n", i/3, k, cnt.Load(), strings.Contains(string(ib), "referrer.convert"), L.Kinds)
			}
			if r4.Stalled {
				wit["blocked_goroutines"] = r4.Desc
				viol("conversion-hangs", fmt.Sprintf("a conversion whose mutating call %d fails with an I/O error hangs [%s]", k+1, c.desc))
				break
			}
			if r4.Done && k == (i/6)%nmut {
				// the same server, once the fault is gone: the store looks at index.json again after a second at the
				// latest; that look has to repeat the conversion - not keep the half-converted index it has in memory
				time.Sleep(1100 * time.Millisecond)
				var p6 []string
				r6 := vh.Watch(func() {
					p6 = verifyServer(c, s4, fmt.Sprintf("after a conversion whose mutating call %d failed with an I/O error, same server, storage healthy again", k+1))
				}, 2*time.Second, 60*time.Second)
				r.Count("failed_call_conversions_checked_same_server", 1)
				for _, p := range p6 {
					viol("conversion-failed-call-same-server:"+classify(p), p+" ["+c.desc+"]")
				}
				if !r6.Done {
					break
				}
			}
			if r4.Done {
				_ = s4.Close()
			}
			s5 := vh.New(vh.Conf(vh.Dir, d, vh.Neutral))
			var p5 []string
			r5 := vh.Watch(func() {
				p5 = verifyServer(c, s5, fmt.Sprintf("after a conversion whose mutating call %d failed with an I/O error, reopened", k+1))
			}, 2*time.Second, 60*time.Second)
			r.Count("failed_call_conversions_checked", 1)
			for _, p := range p5 {
				viol("conversion-failed-call:"+classify(p), p+" ["+c.desc+"]")
			}
			if r5.Done {
				_ = s5.Close()
			}
			vh.RemoveAll(d)
			if len(p5) > 0 || r5.Stalled {
				break
			}
		}
	}
	if i < 3 {
		r.Sample(map[string]any{"layout": i / 3, "store": kind.String(), "fallback_index_classes": L.Kinds, "expected_referrers_per_subject": func() []int {
			var o []int
			for _, s := range L.Subjects {
				o = append(o, len(L.Expected[s]))
			}
			return o
		}()})
	}
}

func classify(p string) string {
	switch {
	case strings.Contains(p, "referrers of subject"):
		return "referrers-differ"
	case strings.Contains(p, "stale after conversion"):
		return "descriptor-stale"
	case strings.Contains(p, "tag "):
		return "tag-lost"
	case strings.Contains(p, "not addressable"):
		return "referrer-not-addressable"
	}
	return "content-lost"
}
