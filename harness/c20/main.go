// C20: the bounded cache never drops an entry without its cleanup.
//
// The harness owns the callbacks: every PruneFn / PrePruneFn / PostPruneFn invocation is logged
// (key, value, result, timestamps from one monotonic clock) into a thread-safe shadow.  Values are
// unique per Set, so a value that disappears identifies exactly which cleanup had to have run.
//
// Oracles (all one-sided with respect to time, so load can only make them more lenient):
//
//	(a/b) at quiescence every value that was Set is either still the current value of its key, or its
//	      cleanup returned nil, or another Set of the same key could have been ordered after it
//	      (overwriting is not a removal).  A value whose cleanup always fails must therefore stay.
//	(c)   expiry lower bound, Count==0 only: for an asynchronous cleanup starting at tp, every use
//	      (Set, successful Get) of that key that returned before tp started at least Age before tp.
//	(d)   LRU, sequential scenario with >=1ms gaps: every evicted key was used before every survivor.
//	(e)   bound: with succeeding cleanups the size returns to <= Count after insertions beyond it.
//	(f)   pre/post hooks are balanced and bracket asynchronous cleanups.
//	(g)   Get never returns a value that was not Set under that key.
package main

import (
	"context"
	"fmt"
	"io/fs"
	"math/rand"
	"sort"
	"strings"
	"sync"
	"sync/atomic"
	"time"

	"github.com/olareg/olareg/internal/cache"
	"github.com/olareg/olareg/internal/verif/vh"
	"github.com/olareg/olareg/types"
)

type evt struct {
	Kind string `json:"k"` // set get del delall prune pre post
	Key  int    `json:"key"`
	Val  int64  `json:"v"`
	Err  bool   `json:"err,omitempty"`
	T0   int64  `json:"t0"` // ns since run start, taken before the call / at callback start
	T1   int64  `json:"t1"`
	G    int    `json:"g"` // worker id, -1 for callbacks
}

type shadow struct {
	mu      sync.Mutex
	log     []evt
	cleaned map[int64]bool
	failing map[int64]bool // cleanup of this value fails as long as failAll is set
	slow    map[int64]int  // cleanup sleeps this many 100us units
	failOn  atomic.Bool
	base    time.Time
	pre     int
	post    int
	inPre   map[int64]int // value -> open pre hooks
}

func (s *shadow) now() int64 { return int64(time.Since(s.base)) }

func (s *shadow) add(e evt) {
	s.mu.Lock()
	s.log = append(s.log, e)
	s.mu.Unlock()
}

type conf struct {
	Age      time.Duration `json:"age"`
	Count    int           `json:"count"`
	FailRate int           `json:"failRate"`
	Workers  int           `json:"workers"`
	Hooks    bool          `json:"hooks"`
	Shared   bool          `json:"sharedKeys"`
}

// cleanupErr is the error a failing cleanup reports for value v.  The property speaks of any error, and the real callbacks
// (upload cancel, repository collection) can fail with every class the stores know - among them "not found" and "does not
// exist" from a file that is already gone - so the class rotates with the value instead of being one opaque error.
func cleanupErr(v int64) error {
	switch v % 5 {
	case 1:
		return fmt.Errorf("cleanup failed: %w", types.ErrNotFound)
	case 2:
		return fmt.Errorf("cleanup failed: %w", fs.ErrNotExist)
	case 3:
		return fmt.Errorf("cleanup failed: %w", context.Canceled)
	case 4:
		return types.ErrNotFound
	}
	return fmt.Errorf("cleanup failed")
}

func newCache(c conf, s *shadow, bracketViol *atomic.Int64) *cache.Cache[int, int64] {
	o := cache.Opts[int, int64]{Age: c.Age, Count: c.Count, PruneFn: func(k int, v int64) error {
		t0 := s.now()
		s.mu.Lock()
		sl := s.slow[v]
		s.mu.Unlock()
		if sl > 0 {
			time.Sleep(time.Duration(sl) * 100 * time.Microsecond)
		}
		s.mu.Lock()
		defer s.mu.Unlock()
		if s.failing[v] && s.failOn.Load() {
			s.log = append(s.log, evt{"prune", k, v, true, t0, s.now(), -1})
			return cleanupErr(v)
		}
		s.cleaned[v] = true
		s.log = append(s.log, evt{"prune", k, v, false, t0, s.now(), -1})
		return nil
	}}
	if c.Hooks {
		o.PrunePreFn = func(k int, v int64) {
			s.mu.Lock()
			s.pre++
			s.inPre[v]++
			s.log = append(s.log, evt{"pre", k, v, false, s.now(), s.now(), -1})
			s.mu.Unlock()
		}
		o.PrunePostFn = func(k int, v int64) {
			s.mu.Lock()
			s.post++
			s.inPre[v]--
			if s.inPre[v] < 0 {
				bracketViol.Add(1)
			}
			s.log = append(s.log, evt{"post", k, v, false, s.now(), s.now(), -1})
			s.mu.Unlock()
		}
	}
	return cache.New[int, int64](o)
}

func concurrentRun(r *vh.Run, idx int) {
	rng := r.Rand(idx)
	c := conf{
		Age:      []time.Duration{0, 15 * time.Millisecond, 40 * time.Millisecond}[rng.Intn(3)],
		Count:    []int{0, 1, 2, 3, 10}[rng.Intn(5)],
		FailRate: []int{0, 0, 3}[rng.Intn(3)],
		Workers:  1 + rng.Intn(4),
		Hooks:    rng.Intn(2) == 0,
		Shared:   rng.Intn(2) == 0,
	}
	s := &shadow{cleaned: map[int64]bool{}, failing: map[int64]bool{}, slow: map[int64]int{}, base: time.Now(), inPre: map[int64]int{}}
	s.failOn.Store(true)
	var bracket atomic.Int64
	ca := newCache(c, s, &bracket)
	var valSeq atomic.Int64
	var prng sync.Mutex
	rnd := func(n int) int { prng.Lock(); defer prng.Unlock(); return rng.Intn(n) }
	const keys = 6
	sets := map[int][]evt{} // key -> set events (guarded by s.mu)
	badGet := ""
	var wg sync.WaitGroup
	for w := 0; w < c.Workers; w++ {
		wg.Add(1)
		go func(w int) {
			defer wg.Done()
			for i := 0; i < 40; i++ {
				k := rnd(keys)
				if !c.Shared {
					k = w + c.Workers*rnd((keys+c.Workers-1)/c.Workers)
				}
				switch rnd(8) {
				case 0, 1, 2, 3:
					v := valSeq.Add(1)
					s.mu.Lock()
					if c.FailRate > 0 && rnd(c.FailRate) == 0 {
						s.failing[v] = true
					}
					if rnd(3) == 0 {
						s.slow[v] = 1 + rnd(30)
					}
					s.mu.Unlock()
					t0 := s.now()
					ca.Set(k, v)
					e := evt{"set", k, v, false, t0, s.now(), w}
					s.mu.Lock()
					sets[k] = append(sets[k], e)
					s.log = append(s.log, e)
					s.mu.Unlock()
				case 4, 5:
					// the value must have been set under this key before the Get returned: take the snapshot afterwards
					t0 := s.now()
					v, err := ca.Get(k)
					t1 := s.now()
					s.mu.Lock()
					s.log = append(s.log, evt{"get", k, v, err != nil, t0, t1, w})
					if err == nil {
						ok := false
						for _, e := range sets[k] {
							if e.Val == v {
								ok = true
							}
						}
						// a Set by another worker may have returned from the cache but not yet been logged: only decide for unshared keys
						if !ok && !c.Shared && badGet == "" {
							badGet = fmt.Sprintf("Get(%d) returned %d which was never set under that key", k, v)
						}
					}
					s.mu.Unlock()
				case 6:
					t0 := s.now()
					err := ca.Delete(k)
					s.add(evt{"del", k, 0, err != nil, t0, s.now(), w})
				case 7:
					if rnd(6) == 0 {
						t0 := s.now()
						err := ca.DeleteAll()
						s.add(evt{"delall", -1, 0, err != nil, t0, s.now(), w})
					}
				}
				if rnd(4) == 0 {
					time.Sleep(time.Duration(rnd(6000)) * time.Microsecond)
				}
			}
		}(w)
	}
	wg.Wait()
	r.Count("runs_concurrent", 1)
	report := func(cls, detail string) {
		s.mu.Lock()
		lg := append([]evt{}, s.log...)
		s.mu.Unlock()
		sort.Slice(lg, func(i, j int) bool { return lg[i].T0 < lg[j].T0 })
		if len(lg) > 400 {
			lg = lg[len(lg)-400:]
		}
		r.Violation("cache:"+cls, detail, map[string]any{"conf": c, "batch": idx, "events": lg})
	}
	if badGet != "" {
		report("get returned a value never set", badGet)
	}
	// (e) bound, only when no cleanup fails and nothing is in flight
	if c.Count > 0 && c.FailRate == 0 {
		ok := false
		var n int
		for i := 0; i < 400; i++ {
			l, _ := ca.List()
			n = len(l)
			if n <= c.Count {
				ok = true
				break
			}
			time.Sleep(5 * time.Millisecond)
		}
		r.Count("bound_checks", 1)
		if !ok {
			report("size above the limit at quiescence", fmt.Sprintf("size %d, limit %d, all cleanups succeed, waited 2s", n, c.Count))
		}
	} else {
		time.Sleep(3 * time.Millisecond)
	}
	// (a/b/g) accounting of every value ever set
	present := map[int]int64{}
	for k := 0; k < keys+4; k++ {
		if v, err := ca.Get(k); err == nil {
			present[k] = v
		}
	}
	s.mu.Lock()
	for k, evs := range sets {
		for _, e := range evs {
			if p, ok := present[k]; ok && p == e.Val {
				r.Count("values_present", 1)
				continue
			}
			if s.cleaned[e.Val] {
				r.Count("values_cleaned", 1)
				continue
			}
			over := false
			for _, o := range evs {
				if o.Val != e.Val && o.T1 > e.T0 {
					over = true
					break
				}
			}
			if over {
				r.Count("values_overwritten", 1)
				continue
			}
			fl := s.failing[e.Val]
			s.mu.Unlock()
			cls := "entry removed without a successful cleanup of its value"
			if fl {
				cls = "entry removed although its cleanup reported an error"
			}
			report(cls, fmt.Sprintf("key %d value %d is gone, was never cleaned successfully and no later Set replaced it", k, e.Val))
			s.mu.Lock()
		}
	}
	for k, p := range present {
		ok := false
		for _, e := range sets[k] {
			if e.Val == p {
				ok = true
			}
		}
		if !ok {
			s.mu.Unlock()
			report("get returned a value never set", fmt.Sprintf("at quiescence Get(%d) = %d", k, p))
			s.mu.Lock()
		}
	}
	// (c) expiry lower bound
	if c.Age > 0 && c.Count == 0 {
		type win struct{ t0, t1 int64 }
		var sync_ []win // windows of Delete/DeleteAll calls: cleanups inside are synchronous, not expiry
		for _, e := range s.log {
			if e.Kind == "del" || e.Kind == "delall" {
				sync_ = append(sync_, win{e.T0, e.T1})
			}
		}
		for _, e := range s.log {
			if e.Kind != "prune" {
				continue
			}
			in := false
			for _, w := range sync_ {
				if e.T0 >= w.t0 && e.T0 <= w.t1 {
					in = true
				}
			}
			if in {
				continue
			}
			r.Count("expiry_checked", 1)
			for _, u := range s.log {
				if u.Key == e.Key && (u.Kind == "set" || (u.Kind == "get" && !u.Err)) && u.T1 < e.T0 {
					if e.T0-u.T0 < int64(c.Age) {
						s.mu.Unlock()
						report("entry expired before its age", fmt.Sprintf("key %d value %d: cleanup started %v after a use that had returned, age is %v", e.Key, e.Val, time.Duration(e.T0-u.T0), c.Age))
						s.mu.Lock()
						break
					}
				}
			}
		}
	}
	s.mu.Unlock()
	// (f) hooks balanced; allow in-flight async prune to finish
	s.failOn.Store(false)
	_ = ca.DeleteAll()
	for i := 0; i < 200; i++ {
		s.mu.Lock()
		bal := s.pre == s.post
		s.mu.Unlock()
		if bal {
			break
		}
		time.Sleep(5 * time.Millisecond)
	}
	s.mu.Lock()
	pre, post := s.pre, s.post
	nprune := 0
	for _, e := range s.log {
		if e.Kind == "prune" {
			nprune++
		}
	}
	s.mu.Unlock()
	r.Count("cleanups_logged", nprune)
	r.Count("pre_hooks", pre)
	if pre != post {
		report("pre/post hooks unbalanced", fmt.Sprintf("pre=%d post=%d after quiescence", pre, post))
	}
	if bracket.Load() > 0 {
		report("post hook without pre hook", "")
	}
	r.Distinct("configs", fmt.Sprintf("%v/%d/%d/%d/%v/%v", c.Age, c.Count, c.FailRate, c.Workers, c.Hooks, c.Shared))
	if idx < 2 {
		s.mu.Lock()
		lg := append([]evt{}, s.log...)
		s.mu.Unlock()
		if len(lg) > 25 {
			lg = lg[:25]
		}
		r.Sample(map[string]any{"conf": c, "first_events": lg})
	}
}

// lruRun is the sequential scenario for (d), (e) and the "keeps failing entries" clause with exact expectations.
func lruRun(r *vh.Run, idx int) {
	rng := r.Rand(1_000_000 + idx)
	count := []int{1, 2, 3, 5, 10, 20}[rng.Intn(6)]
	s := &shadow{cleaned: map[int64]bool{}, failing: map[int64]bool{}, slow: map[int64]int{}, base: time.Now(), inPre: map[int64]int{}}
	s.failOn.Store(true)
	var bracket atomic.Int64
	c := conf{Count: count, Hooks: rng.Intn(2) == 0}
	ca := newCache(c, s, &bracket)
	lastUse := map[int]int{} // key -> logical time
	val := map[int]int64{}
	clock := 0
	var vs int64
	use := func(k int, set bool) {
		clock++
		if set {
			vs++
			val[k] = vs
			ca.Set(k, vs)
		} else if _, err := ca.Get(k); err != nil {
			return
		}
		lastUse[k] = clock
		time.Sleep(1200 * time.Microsecond)
	}
	for k := 0; k < count; k++ {
		use(k, true)
	}
	for i := 0; i < count*2; i++ {
		use(rng.Intn(count), rng.Intn(3) == 0)
	}
	failKey := -1
	if rng.Intn(3) == 0 && count >= 3 {
		// make the least recently used entry's cleanup fail: it must survive the eviction
		lru, lt := -1, 1<<30
		for k, t := range lastUse {
			if t < lt {
				lru, lt = k, t
			}
		}
		failKey = lru
		s.mu.Lock()
		s.failing[val[lru]] = true
		s.mu.Unlock()
	}
	extra := 1 + rng.Intn(2)
	for e := 0; e < extra; e++ {
		use(count+e, true)
	}
	// wait for the eviction goroutines
	var keys []int
	ok := false
	for i := 0; i < 400; i++ {
		keys, _ = ca.List()
		if len(keys) <= count {
			ok = true
			break
		}
		time.Sleep(5 * time.Millisecond)
	}
	time.Sleep(3 * time.Millisecond)
	keys, _ = ca.List()
	r.Count("runs_lru", 1)
	wit := map[string]any{"count": count, "extra": extra, "lastUse": fmt.Sprint(lastUse), "survivors": fmt.Sprint(keys), "failKey": failKey, "batch": idx}
	if !ok {
		r.Violation("cache:size above the limit at quiescence", fmt.Sprintf("sequential: %d entries, limit %d", len(keys), count), wit)
		return
	}
	surv := map[int]bool{}
	for _, k := range keys {
		surv[k] = true
	}
	if failKey >= 0 && !surv[failKey] {
		r.Violation("cache:entry removed although its cleanup reported an error", fmt.Sprintf("key %d", failKey), wit)
	}
	s.mu.Lock()
	for k, v := range val {
		if !surv[k] && !s.cleaned[v] {
			s.mu.Unlock()
			r.Violation("cache:entry removed without a successful cleanup of its value", fmt.Sprintf("sequential: key %d value %d", k, v), wit)
			s.mu.Lock()
		}
	}
	s.mu.Unlock()
	for e := range lastUse {
		if surv[e] || e == failKey {
			continue
		}
		for sv := range surv {
			if sv == failKey {
				continue
			}
			r.Count("lru_comparisons", 1)
			if lastUse[e] > lastUse[sv] {
				r.Violation("cache:eviction is not least-recently-used first", fmt.Sprintf("key %d (used at step %d) evicted while key %d (used at step %d) survived", e, lastUse[e], sv, lastUse[sv]), wit)
				return
			}
		}
	}
	r.Distinct("configs", fmt.Sprintf("lru/%d/%d/%v/%v", count, extra, c.Hooks, failKey >= 0))
	s.failOn.Store(false)
	_ = ca.DeleteAll()
}

// keepRun: expiry with an always-failing cleanup keeps the entry; a later succeeding cleanup removes it; an entry
// that is used every Age/3 is never expired.
func keepRun(r *vh.Run, idx int) {
	rng := r.Rand(2_000_000 + idx)
	age := []time.Duration{10 * time.Millisecond, 25 * time.Millisecond}[rng.Intn(2)]
	s := &shadow{cleaned: map[int64]bool{}, failing: map[int64]bool{}, slow: map[int64]int{}, base: time.Now(), inPre: map[int64]int{}}
	s.failOn.Store(true)
	var bracket atomic.Int64
	c := conf{Age: age}
	ca := newCache(c, s, &bracket)
	s.failing[1] = true
	ca.Set(1, 1) // cleanup fails
	ca.Set(2, 2) // idle, must eventually be cleaned but never before age
	t0 := s.now()
	ca.Set(3, 3) // kept alive by use
	lastStart := t0
	expiredEarly := ""
	for i := 0; i < 12; i++ {
		time.Sleep(age / 4)
		st := s.now()
		_, err := ca.Get(3)
		en := s.now()
		if err != nil && en-lastStart < int64(age) {
			expiredEarly = fmt.Sprintf("key 3 reported gone %v after a successful use started, age %v", time.Duration(en-lastStart), age)
			break
		}
		if err != nil {
			break // slow machine: gap exceeded the age, legitimately expired; inconclusive for this run
		}
		lastStart = st
	}
	r.Count("runs_keep", 1)
	wit := map[string]any{"age": age.String(), "batch": idx}
	if expiredEarly != "" {
		r.Violation("cache:entry expired before its age", expiredEarly, wit)
	}
	if _, err := ca.Get(1); err != nil {
		s.mu.Lock()
		cl := s.cleaned[1]
		s.mu.Unlock()
		if !cl {
			r.Violation("cache:entry removed although its cleanup reported an error", "expiry removed key 1 whose cleanup always fails", wit)
		}
	} else {
		r.Count("failing_entries_kept", 1)
	}
	r.Distinct("configs", "keep/"+age.String())
	s.failOn.Store(false)
	_ = ca.DeleteAll()
}

// blockRun: callbacks that block.  The harness parks one cleanup (or the pre hook before it) on a gate it owns, so
// that "while the cleanup has not returned" is a logical interval, not a matter of timing:
//
//	modes 0/1  Delete / DeleteAll with the cleanup of one entry parked: every observation (Get, List, IsEmpty) that
//	           returns before the gate opens must still see the entry (it has not been cleaned successfully yet);
//	           after the gate opens the entry is gone iff the cleanup reported success.
//	modes 2/3  timer expiry with the pre hook parked: a Get (2) or a replacing Set (3) made while it is parked is a
//	           use, so no cleanup of that key's current value may start less than Age after it.
//
// An observer that does not return while the gate is closed (an implementation may hold its lock there) gives no
// verdict; the watchdogs only decide "no verdict", never a violation.
func blockRun(r *vh.Run, idx int) {
	rng := r.Rand(3_000_000 + idx)
	mode := idx % 6
	if mode == 4 {
		expiryCleanupParked(r, idx, rng)
		return
	}
	if mode == 5 {
		if (idx/6)%2 == 1 {
			countPruneNextUsedWhileParked(r, idx, rng)
			return
		}
		countPruneUsedWhileParked(r, idx, rng)
		return
	}
	const target = int64(1000)
	gate := make(chan struct{})
	started := make(chan struct{}, 64)
	fail := rng.Intn(2) == 0
	base := time.Now()
	now := func() int64 { return int64(time.Since(base)) }
	var mu sync.Mutex
	cleaned := map[int64]bool{}
	pruneStart := map[int64][]int64{}
	preCalls, postCalls := map[int64]int{}, map[int64]int{} // the hooks bracket a cleanup attempt: whatever the pass decides after its pre hook, the post hook follows
	age := time.Duration(0)
	if mode >= 2 {
		age = []time.Duration{15 * time.Millisecond, 30 * time.Millisecond}[rng.Intn(2)]
	}
	o := cache.Opts[int, int64]{Age: age, PruneFn: func(k int, v int64) error {
		mu.Lock()
		pruneStart[v] = append(pruneStart[v], now())
		mu.Unlock()
		if v == target && mode < 2 {
			started <- struct{}{}
			<-gate
			if fail {
				return cleanupErr(v)
			}
		}
		mu.Lock()
		cleaned[v] = true
		mu.Unlock()
		return nil
	}}
	if mode >= 2 {
		o.PrunePreFn = func(k int, v int64) {
			mu.Lock()
			preCalls[v]++
			mu.Unlock()
			if v == target {
				started <- struct{}{}
				<-gate
			}
		}
		o.PrunePostFn = func(k int, v int64) {
			mu.Lock()
			postCalls[v]++
			mu.Unlock()
		}
	}
	ca := cache.New[int, int64](o)
	others := rng.Intn(3)
	if mode >= 2 {
		others = 0 // other entries would be expired by the same timer pass before or after the parked one
	}
	for k := 1; k <= others; k++ {
		ca.Set(k, int64(k))
	}
	ca.Set(0, target)
	wit := map[string]any{"batch": idx, "mode": mode, "cleanup_fails": fail, "other_entries": others, "age": age.String()}
	viol := func(cls, detail string) { r.Violation("cache:"+cls, detail, wit) }
	var delErr error
	delDone := make(chan struct{})
	if mode < 2 {
		go func() {
			if mode == 0 {
				delErr = ca.Delete(0)
			} else {
				delErr = ca.DeleteAll()
			}
			close(delDone)
		}()
	} else {
		close(delDone)
	}
	select {
	case <-started:
	case <-time.After(10 * time.Second):
		r.Count("block_not_reached", 1)
		close(gate)
		<-delDone
		return
	}
	r.Count("runs_block", 1)
	type obs struct {
		what string
		bad  string
	}
	res := make(chan obs, 8)
	nobs := 0
	tUse := int64(0)
	newVal := int64(0)
	if mode < 2 {
		nobs = 3
		go func() {
			v, err := ca.Get(0)
			if err != nil || v != target {
				res <- obs{"get", fmt.Sprintf("Get of the entry returned (%d, %v) while its cleanup had not returned", v, err)}
			} else {
				res <- obs{"get", ""}
			}
		}()
		go func() {
			l, _ := ca.List()
			in := false
			for _, k := range l {
				in = in || k == 0
			}
			if !in {
				res <- obs{"list", fmt.Sprintf("List %v lacks the entry while its cleanup had not returned", l)}
			} else {
				res <- obs{"list", ""}
			}
		}()
		go func() {
			if ca.IsEmpty() {
				res <- obs{"isempty", "IsEmpty reported true while the cleanup of an entry had not returned"}
			} else {
				res <- obs{"isempty", ""}
			}
		}()
	} else {
		nobs = 1
		tUse = now()
		go func() {
			if mode == 2 {
				v, err := ca.Get(0)
				if err != nil || v != target {
					res <- obs{"get", fmt.Sprintf("Get of the expiring entry returned (%d, %v) before its cleanup could have run (pre hook parked)", v, err)}
					return
				}
			} else {
				newVal = target + 1
				ca.Set(0, target+1)
			}
			res <- obs{"use", ""}
		}()
	}
	// collect what returns while the gate is closed
	got := 0
	used := false
	wait := time.After(300 * time.Millisecond)
collect:
	for got < nobs {
		select {
		case ob := <-res:
			got++
			r.Count("block_observations_before_release", 1)
			if ob.bad != "" {
				viol("entry invisible while its cleanup is in flight", ob.bad)
			}
			if ob.what == "use" || ob.what == "get" {
				used = true
			}
		case <-wait:
			break collect
		}
	}
	tRelease := now()
	close(gate)
	<-delDone
	for ; got < nobs; got++ {
		<-res // these overlapped the release: no verdict
		r.Count("block_observations_overlapping_release", 1)
	}
	if mode < 2 {
		v, err := ca.Get(0)
		mu.Lock()
		cl := cleaned[target]
		mu.Unlock()
		switch {
		case fail && (err != nil || v != target):
			viol("entry removed although its cleanup reported an error", fmt.Sprintf("blocked cleanup returned an error, Get afterwards: (%d, %v), Delete returned %v", v, err, delErr))
		case !fail && err == nil:
			viol("entry kept after a successful cleanup by Delete", fmt.Sprintf("Get afterwards: (%d, %v)", v, err))
		case !fail && !cl:
			viol("entry removed without a successful cleanup of its value", "blocked cleanup")
		}
		r.Distinct("configs", fmt.Sprintf("block/%d/%v/%d", mode, fail, others))
		return
	}
	// modes 2/3: give an eager cleanup the time to show itself, then judge starts of cleanups of the current value
	time.Sleep(age / 3)
	cur := target
	if mode == 3 {
		cur = newVal
	}
	if used {
		mu.Lock()
		for _, tp := range pruneStart[cur] {
			r.Count("expiry_checked", 1)
			if tp >= tRelease && tp-tUse < int64(age) {
				mu.Unlock()
				viol("entry expired before its age", fmt.Sprintf("value %d was used (mode %d) while the expiry pass waited in its pre hook; its cleanup started %v after that use, age is %v", cur, mode, time.Duration(tp-tUse), age))
				mu.Lock()
				break
			}
		}
		mu.Unlock()
		r.Count("block_uses_during_pre", 1)
	}
	// every pre hook of the parked pass has been followed by its post hook by now (the pass went on right after the
	// gate opened; a pass that is still inside a later pre hook has pre == post + 1 for that value only while it runs)
	balanced := false
	for k := 0; k < 400 && !balanced; k++ {
		mu.Lock()
		balanced = preCalls[target] == postCalls[target]
		mu.Unlock()
		if !balanced {
			time.Sleep(5 * time.Millisecond)
		}
	}
	r.Count("hook_balance_checks", 1)
	if !balanced {
		mu.Lock()
		pc, qc := preCalls[target], postCalls[target]
		mu.Unlock()
		viol("pre/post hooks unbalanced", fmt.Sprintf("the pre hook of value %d ran %d times, its post hook %d times, 2 s after the pass was released (mode %d: the entry was used or replaced while the pass waited) - whoever took a lock in the pre hook never releases it", target, pc, qc, mode))
	}
	r.Distinct("configs", fmt.Sprintf("block/%d/%v", mode, age))
	_ = ca.DeleteAll()
}

// expiryCleanupParked (mode 4): the timer expiry has decided to remove an idle entry and its cleanup is running
// (parked on a gate).  An implementation may make observers wait until the removal is complete - then nothing is
// decided.  But a Get that *returns the entry* while its cleanup is in progress has used it: the entry must then
// not be gone right afterwards (it was used less than Age ago).
func expiryCleanupParked(r *vh.Run, idx int, rng *rand.Rand) {
	const target = int64(2000)
	age := []time.Duration{15 * time.Millisecond, 30 * time.Millisecond}[rng.Intn(2)]
	gate := make(chan struct{})
	started := make(chan struct{}, 8)
	o := cache.Opts[int, int64]{Age: age, PruneFn: func(k int, v int64) error {
		if v == target {
			select {
			case started <- struct{}{}:
			default:
			}
			<-gate
		}
		return nil
	}}
	if rng.Intn(2) == 0 {
		o.PrunePreFn = func(int, int64) {}
		o.PrunePostFn = func(int, int64) {}
	}
	ca := cache.New[int, int64](o)
	ca.Set(0, target)
	wit := map[string]any{"batch": idx, "mode": 4, "age": age.String(), "hooks": o.PrunePreFn != nil}
	select {
	case <-started:
	case <-time.After(10 * time.Second):
		r.Count("block_not_reached", 1)
		close(gate)
		return
	}
	r.Count("runs_block", 1)
	type res struct {
		v   int64
		err error
		t   time.Time
	}
	got := make(chan res, 1)
	go func() {
		v, err := ca.Get(0)
		got <- res{v, err, time.Now()}
	}()
	var use *res
	select {
	case g := <-got:
		r.Count("block_observations_before_release", 1)
		if g.err == nil && g.v == target {
			use = &g
		}
	case <-time.After(200 * time.Millisecond):
		r.Count("block_observations_overlapping_release", 1)
	}
	close(gate)
	if use == nil {
		if len(got) == 0 {
			<-got
		}
		r.Distinct("configs", fmt.Sprintf("block/4/%v/observer-waited", age))
		return
	}
	// the entry was handed out while its cleanup ran; look again at once
	time.Sleep(time.Millisecond)
	_, err := ca.Get(0)
	since := time.Since(use.t)
	if err != nil && since < age {
		r.Violation("cache:entry expired before its age", fmt.Sprintf("Get returned the entry while the expiry pass was running its cleanup; %v later (age %v) the entry is gone", since, age), wit)
	}
	r.Count("expiry_checked", 1)
	r.Distinct("configs", fmt.Sprintf("block/4/%v/observer-served", age))
	_ = ca.DeleteAll()
}

// countPruneUsedWhileParked (mode 5): the count prune has picked the least recently used entry and waits in its pre
// hook (in the directory store: for the upload mutex, held by a write in progress).  The entry is used meanwhile - it
// is now the most recently used one.  When the hook returns, evicting it anyway while older entries stay is not
// "least-recently-used first" any more (the age prune re-checks at this point; so must the count prune).
// countPruneNextUsedWhileParked: a prune that has more than one entry to evict parks in the pre hook of the first.
// Meanwhile the SECOND least recently used entry is used.  When the prune goes on, that entry is the most recently
// used one: the next victim is the one after it ("least-recently-used first" is read when the victim is taken, not
// from a list made before the wait).
func countPruneNextUsedWhileParked(r *vh.Run, idx int, rng *rand.Rand) {
	count := 20 + 10*rng.Intn(3)
	gate := make(chan struct{})
	started := make(chan struct{}, 8)
	o := cache.Opts[int, int64]{Count: count,
		PruneFn: func(int, int64) error { return nil },
		PrunePreFn: func(k int, v int64) {
			if v == 1 {
				select {
				case started <- struct{}{}:
				default:
				}
				<-gate
			}
		},
		PrunePostFn: func(int, int64) {},
	}
	ca := cache.New[int, int64](o)
	for k := 0; k < count; k++ {
		ca.Set(k, int64(k+1))
		time.Sleep(300 * time.Microsecond)
	}
	ca.Set(count, int64(count+1))
	wit := map[string]any{"batch": idx, "mode": "5b", "count": count}
	select {
	case <-started:
	case <-time.After(10 * time.Second):
		r.Count("block_not_reached", 1)
		close(gate)
		return
	}
	r.Count("runs_block", 1)
	_, err := ca.Get(1)
	r.Count("block_observations_before_release", 1)
	close(gate)
	if err != nil {
		return
	}
	var keys []int
	for k := 0; k < 400; k++ {
		keys, _ = ca.List()
		if len(keys) < count {
			break
		}
		time.Sleep(5 * time.Millisecond)
	}
	time.Sleep(5 * time.Millisecond)
	keys, _ = ca.List()
	surv := map[int]bool{}
	for _, k := range keys {
		surv[k] = true
	}
	older := []int{}
	for k := 2; k <= count; k++ {
		if surv[k] {
			older = append(older, k)
		}
	}
	r.Count("lru_comparisons", 1)
	if !surv[1] && len(older) > 0 {
		wit["survivors"] = len(keys)
		r.Violation("cache:eviction is not least-recently-used first:next", fmt.Sprintf("limit %d, %d entries: the count prune parked in the pre hook of key 0; key 1 was used meanwhile (now the most recently used entry) and was evicted all the same, while %d older entries stayed", count, count+1, len(older)), wit)
	}
	r.Distinct("configs", fmt.Sprintf("block/5b/%d", count))
	_ = ca.DeleteAll()
}

func countPruneUsedWhileParked(r *vh.Run, idx int, rng *rand.Rand) {
	count := 2 + rng.Intn(3)
	gate := make(chan struct{})
	started := make(chan struct{}, 8)
	var mu sync.Mutex
	cleaned := map[int64]bool{}
	o := cache.Opts[int, int64]{Count: count,
		PruneFn: func(k int, v int64) error {
			mu.Lock()
			cleaned[v] = true
			mu.Unlock()
			return nil
		},
		PrunePreFn: func(k int, v int64) {
			if v == 1 {
				select {
				case started <- struct{}{}:
				default:
				}
				<-gate
			}
		},
		PrunePostFn: func(int, int64) {},
	}
	ca := cache.New[int, int64](o)
	// keys 0..count-1 in this order of use (value = key+1), key 0 is the least recently used
	for k := 0; k < count; k++ {
		ca.Set(k, int64(k+1))
		time.Sleep(1200 * time.Microsecond)
	}
	ca.Set(count, int64(count+1)) // one beyond the limit: the prune goes for key 0 and parks in its pre hook
	wit := map[string]any{"batch": idx, "mode": 5, "count": count}
	select {
	case <-started:
	case <-time.After(10 * time.Second):
		r.Count("block_not_reached", 1)
		close(gate)
		return
	}
	r.Count("runs_block", 1)
	_, err := ca.Get(0) // a use: key 0 is now the most recently used entry
	r.Count("block_observations_before_release", 1)
	close(gate)
	if err != nil {
		r.Distinct("configs", fmt.Sprintf("block/5/%d/get-failed", count))
		return
	}
	// wait for the prune to settle
	var keys []int
	for k := 0; k < 400; k++ {
		keys, _ = ca.List()
		if len(keys) <= count {
			break
		}
		time.Sleep(5 * time.Millisecond)
	}
	time.Sleep(3 * time.Millisecond)
	keys, _ = ca.List()
	surv := map[int]bool{}
	for _, k := range keys {
		surv[k] = true
	}
	older := []int{}
	for k := 1; k <= count; k++ { // every other entry was used before the Get of key 0
		if surv[k] {
			older = append(older, k)
		}
	}
	r.Count("lru_comparisons", 1)
	if !surv[0] && len(older) > 0 {
		wit["survivors"] = fmt.Sprint(keys)
		r.Violation("cache:eviction is not least-recently-used first", fmt.Sprintf("key 0 was used while the count prune waited in its pre hook, making it the most recently used entry; it was evicted all the same while the older entries %v stayed (limit %d)", older, count), wit)
	}
	r.Distinct("configs", fmt.Sprintf("block/5/%d", count))
	_ = ca.DeleteAll()
}

// countPruneVictimKeptBusy (mode 5c, run alone after the parallel families so that every goroutine inside the count
// prune belongs to this cache): every time the count prune waits in the pre hook of the entry it picked, that entry is
// used.  The pass has to go on to the next least recently used entry - and it has to keep going for as long as clients
// keep doing that: a pass that gives up leaves the cache above its limit although no cleanup has failed, and nothing
// prunes again until the next Set.  The harness stops after a fixed number of rounds and waits until no goroutine is
// inside the prune any more (goroutine dump, not a deadline); then the limit must hold.
func countPruneVictimKeptBusy(r *vh.Run, idx int) {
	count := []int{1, 2, 3, 5}[idx%4]
	rounds := 6*(count+1) + 8 + idx%5
	type park struct {
		k    int
		gate chan struct{}
	}
	parked := make(chan park, 16)
	var failed atomic.Int64
	o := cache.Opts[int, int64]{Count: count,
		PruneFn: func(int, int64) error { return nil },
		PrunePreFn: func(k int, v int64) {
			p := park{k, make(chan struct{})}
			parked <- p
			<-p.gate
		},
		PrunePostFn: func(int, int64) {},
	}
	ca := cache.New[int, int64](o)
	for k := 0; k <= count; k++ {
		ca.Set(k, int64(k+1))
		time.Sleep(300 * time.Microsecond)
	}
	used := 0
	inPrune := func() bool {
		for _, g := range vh.Dump() {
			if strings.Contains(g.Stack, "internal/cache.(*Cache") && strings.Contains(g.Stack, "pruneCount") {
				return true
			}
		}
		return false
	}
	settled := false
	for i := 0; i < 4000 && !settled; i++ {
		select {
		case p := <-parked:
			if used < rounds {
				if _, err := ca.Get(p.k); err == nil {
					used++
				}
			}
			close(p.gate)
		default:
			if !inPrune() {
				// nothing parked and nobody inside the prune: look once more for a hook that was entered meanwhile
				select {
				case p := <-parked:
					close(p.gate)
				default:
					settled = true
				}
			} else {
				time.Sleep(2 * time.Millisecond)
			}
		}
	}
	if !settled {
		r.Inconclusive(fmt.Sprintf("mode 5c: the count prune did not come to rest (limit %d)", count))
		return
	}
	r.Count("busy_victim_trials", 1)
	r.Count("busy_victim_uses", used)
	keys, _ := ca.List()
	if len(keys) > count && failed.Load() == 0 {
		r.Violation("cache:count prune gave up above the limit", fmt.Sprintf("limit %d, %d entries: the entry picked by the count prune was used during each of %d consecutive waits in the pre hook; the prune ended with %d entries although no cleanup failed, and nothing prunes until the next Set", count, count+1, used, len(keys)), map[string]any{"mode": "5c", "count": count, "uses": used, "left": fmt.Sprint(keys)})
	}
	r.Distinct("configs", fmt.Sprintf("block/5c/%d/%d", count, rounds))
	_ = ca.DeleteAll()
}

func main() {
	r := vh.Start()
	_ = rand.Int
	nc := r.N(320, 6000)
	nl := r.N(120, 2500)
	nk := r.N(48, 800)
	nb := r.N(144, 3000)
	vh.Parallel(nc+nl+nk+nb, 12, func(i int) {
		switch {
		case i < nc:
			concurrentRun(r, i)
		case i < nc+nl:
			lruRun(r, i-nc)
		case i < nc+nl+nk:
			keepRun(r, i-nc-nl)
		default:
			blockRun(r, i-nc-nl-nk)
		}
	})
	nv := r.N(24, 400)
	for i := 0; i < nv; i++ {
		countPruneVictimKeptBusy(r, i)
	}
	r.Require("busy_victim_trials", int64(nv/2))
	r.Count("runs", nc+nl+nk+nb+nv)
	r.Require("block_observations_before_release", int64(nb*2/5))
	r.Require("cleanups_logged", 200)
	r.Require("lru_comparisons", 50)
	r.Finish("three workload families on the real cache.Cache with harness-owned callbacks: (1) concurrent Set/Get/Delete/DeleteAll by 1-4 workers on 6 keys (shared or owned), Age in {0,15,40ms}, Count in {0,1,2,3,10}, failing and slow cleanups, optional pre/post hooks; (2) sequential LRU scenarios with logical clocks; (3) keep-alive / failing-cleanup expiry scenarios; (4) parked callbacks: Delete/DeleteAll with the cleanup parked on a gate (observers must still see the entry, outcome follows the cleanup result) timer expiry with the pre hook parked while the entry is used or replaced, timer expiry with the cleanup itself parked while an observer asks for the entry, and a count prune parked in its pre hook while the entry it picked is used (once; the next victim instead; every victim of 14-50 consecutive waits - the pass must neither evict a used entry nor give up above the limit). A case is one run; distinct = distinct configurations (age/count/failRate/workers/hooks/sharing)", "runs", "configs")
}
