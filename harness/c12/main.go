// C12: no schedule of requests and background work can hang the registry.
//
// Build variant "vsync": sync.Mutex / sync.WaitGroup of olareg, internal/store and internal/cache are the
// instrumented ones (seeded jitter before acquisitions, holder / waiter bookkeeping).  Workload: concurrent
// clients run chunked uploads (POST, PATCH x n, status, PUT / DELETE), manifest and referrer pushes, listings
// and deletes on few repositories while sessions and idle repositories expire (grace period 20-60 ms), sessions
// are evicted (RepoUploadMax 2-4), the collection ticker fires every 5-10 ms, and the server is closed while
// requests are still in flight.  "Never hangs" is decided as safety + bounded progress (DESIGN C12, Appendix B):
//
//	(1) a cycle in the mutex wait-for graph, seen twice 1 s apart            => violation (deadlock)
//	(2) a stable stall: every goroutine inside olareg blocked, identical stacks over several samples,
//	    while requests / Close are outstanding                                => violation
//	(3) slow without (1) or (2)                                               => inconclusive, never a violation
//	(4) a request waiting for a collection returns once its context is cancelled
//	(5) Close returns
package main

import (
	"context"
	"fmt"
	"io"
	"net"
	"net/http"
	"net/http/httptest"
	"os"
	"sort"
	"strings"
	"sync"
	"sync/atomic"
	"time"

	"github.com/olareg/olareg"
	"github.com/olareg/olareg/internal/verif/vh"
	"github.com/olareg/olareg/internal/verif/vsync"
)

type batchRes struct {
	requests int64
	verdict  string // "" ok, "deadlock", "stall", "inconclusive"
	detail   string
	witness  any
}

// watch decides deadlock / stall while the batch is running; returns when finished is closed or a verdict is reached.
func watch(done, inflight *atomic.Int64, closing *atomic.Bool, finished <-chan struct{}, limit time.Duration) (string, string, any) {
	t0 := time.Now()
	last := done.Load()
	lastChange := time.Now()
	for {
		select {
		case <-finished:
			return "", "", nil
		case <-time.After(250 * time.Millisecond):
		}
		if n := done.Load(); n != last {
			last, lastChange = n, time.Now()
			continue
		}
		outstanding := inflight.Load() > 0 || closing.Load()
		if !outstanding || time.Since(lastChange) < 2*time.Second {
			if time.Since(t0) > limit {
				return "inconclusive", "batch still running after the limit without a deadlock verdict", vsync.Waiters()
			}
			continue
		}
		// (1) mutex wait-for cycle, confirmed after one second
		if c1 := vsync.FindCycle(); c1 != nil {
			time.Sleep(time.Second)
			if c2 := vsync.FindCycle(); c2 != nil && c2.Desc == c1.Desc && done.Load() == last {
				return "deadlock", "cycle in the mutex wait-for graph: " + c1.Desc, map[string]any{"cycle": c2.Steps, "waiters": vsync.Waiters()}
			}
		}
		// (2) stable stall
		if d := vh.StableStall(time.Second); d != "" && done.Load() == last {
			time.Sleep(2 * time.Second)
			if d2 := vh.StableStall(500 * time.Millisecond); d2 == d && done.Load() == last {
				return "stall", fmt.Sprintf("%d requests outstanding (closing=%v), every goroutine inside olareg is blocked with an unchanging stack", inflight.Load(), closing.Load()), map[string]any{"blocked_goroutines": d, "waiters": vsync.Waiters()}
			}
		}
		if time.Since(t0) > limit {
			return "inconclusive", "batch still running after the limit without a deadlock verdict", vsync.Waiters()
		}
	}
}

func stress(r *vh.Run, i int) batchRes {
	rng := r.Rand(i)
	kind := []vh.StoreKind{vh.Dir, vh.Mem}[i%2]
	root := ""
	if kind == vh.Dir {
		root = r.TempDir("c12")
		defer vh.RemoveAll(root)
	}
	c := vh.StressConf(kind, root, rng)
	srv := vh.New(c)
	var done, inflight atomic.Int64
	var closing atomic.Bool
	stop := make(chan struct{})
	finished := make(chan struct{})
	nclients := 6 + rng.Intn(7)
	nseq := 25
	repos := []string{"a", "b", "a/n"}[:1+rng.Intn(3)]
	go func() {
		var wg sync.WaitGroup
		for k := 0; k < nclients; k++ {
			wg.Add(1)
			go func(k int) {
				defer wg.Done()
				vh.StressClient(srv, k, r.Seed*7919+int64(i)*131+int64(k), nseq, repos, &done, &inflight, stop)
			}(k)
		}
		closeEarly := rng.Intn(3) == 0
		if closeEarly {
			// close while requests are in flight: Close must wait for them and return; later requests get errors
			time.Sleep(time.Duration(20+rng.Intn(100)) * time.Millisecond)
			closing.Store(true)
			_ = srv.Close()
			closing.Store(false)
			r.Count("closes_during_traffic", 1)
			close(stop)
			wg.Wait()
		} else {
			wg.Wait()
			closing.Store(true)
			_ = srv.Close()
			closing.Store(false)
		}
		close(finished)
	}()
	verdict, detail, wit := watch(&done, &inflight, &closing, finished, 150*time.Second)
	r.Distinct("configs", fmt.Sprintf("%s/%v/%v/%d/%d/%d", kind, c.Storage.GC.GracePeriod, c.Storage.GC.Frequency, c.Storage.GC.RepoUploadMax, nclients, len(repos)))
	return batchRes{requests: done.Load(), verdict: verdict, detail: detail, witness: map[string]any{"batch": i, "store": kind.String(), "grace": c.Storage.GC.GracePeriod.String(),
		"gc_frequency": c.Storage.GC.Frequency.String(), "upload_max": c.Storage.GC.RepoUploadMax, "clients": nclients, "evidence": wit}}
}

type pipeBody struct {
	r       *io.PipeReader
	started chan struct{}
	once    sync.Once
}

func (p *pipeBody) Read(b []byte) (int, error) {
	p.once.Do(func() { close(p.started) })
	return p.r.Read(b)
}
func (p *pipeBody) Close() error { return p.r.Close() }

// cancelTrial: (4) a request that waits for a collection returns when its context is cancelled.
func cancelTrial(r *vh.Run, i int) {
	rng := r.Rand(3_000_000 + i)
	kind := []vh.StoreKind{vh.Dir, vh.Mem}[i%2]
	root := ""
	if kind == vh.Dir {
		root = r.TempDir("c12c")
		defer vh.RemoveAll(root)
	}
	p := vh.Policy{Untagged: true, Grace: -1}
	c := vh.Conf(kind, root, p)
	c.Storage.GC.Frequency = 3 * time.Millisecond
	srv := vh.New(c)
	wit := map[string]any{"trial": i, "store": kind.String()}
	// make the repository known and recently modified, so that the ticker collects it
	b := []byte(fmt.Sprintf("x%d", i))
	vh.Do(srv, vh.Req{Method: "POST", URL: "/v2/c/blobs/uploads/?digest=" + vh.DigestOf("sha256", b), Body: b})
	// request 1: a manifest PUT whose body the harness holds open keeps the repository busy
	pr, pw := io.Pipe()
	body := &pipeBody{r: pr, started: make(chan struct{})}
	req1 := httptest.NewRequest("PUT", "/v2/c/manifests/held", body)
	req1.Header.Set("Content-Type", vh.MTImage)
	req1.ContentLength = -1
	d1 := make(chan struct{})
	go func() {
		defer close(d1)
		w := httptest.NewRecorder()
		srv.ServeHTTP(w, req1)
	}()
	select {
	case <-body.started:
	case <-time.After(10 * time.Second):
		r.Inconclusive("held request never started reading its body")
		_ = pw.Close()
		return
	}
	// the ticker's collection now takes the token and waits for request 1; requests behind it block
	blocked := false
	for attempt := 0; attempt < 200 && !blocked; attempt++ {
		time.Sleep(time.Duration(3+rng.Intn(5)) * time.Millisecond)
		ctx, cancel := context.WithCancel(context.Background())
		d3 := make(chan int, 1)
		go func() {
			rs := vh.Do(srv, vh.Req{Method: "GET", URL: "/v2/c/tags/list", Ctx: ctx})
			d3 <- rs.Status
		}()
		select {
		case <-d3:
			cancel()
			continue // not blocked this time (no collection was waiting)
		case <-time.After(40 * time.Millisecond):
		}
		blocked = true
		r.Count("requests_blocked_behind_collection", 1)
		cancel()
		res := vh.Watch(func() { <-d3 }, 5*time.Second, 40*time.Second)
		if res.Stalled || !res.Done {
			wit["blocked_goroutines"] = res.Desc
			r.Violation("cancel-ignored", fmt.Sprintf("a request waiting for a collection did not return after its context was cancelled (waited %s, stable stall %v)", res.Waited.Round(time.Millisecond), res.Stalled), wit)
			_ = pw.Close()
			return
		}
		r.Count("cancelled_requests_returned", 1)
	}
	if !blocked {
		r.Count("cancel_trials_never_blocked", 1)
	}
	// release request 1; everything must drain and Close must return
	_, _ = pw.Write([]byte("{}"))
	_ = pw.Close()
	res := vh.Watch(func() { <-d1; _ = srv.Close() }, 5*time.Second, 60*time.Second)
	if res.Stalled {
		wit["blocked_goroutines"] = res.Desc
		r.Violation("close-hangs", "after releasing the held request, Close does not return: every goroutine inside olareg is blocked", wit)
		return
	}
	if !res.Done {
		r.Inconclusive("Close still running after 60s without a stable stall")
	}
	r.Count("cancel_trials", 1)
}

// releaseHolderTrial: the directory store collects a repository when it leaves the repository cache (idle for a grace
// period).  Here the repository is not idle at all: a request whose body the harness holds open has been using it for
// longer than the grace period.  The collection that the expiry starts waits for that request; a request to ANOTHER
// repository that arrives meanwhile is waiting for that collection too (through the store and cache locks) - so it
// returns when its context is cancelled.  Decided by the stable-stall rule while the harness keeps the first request
// open, never by a deadline.
func releaseHolderTrial(r *vh.Run, i int) {
	root := r.TempDir("c12h")
	defer vh.RemoveAll(root)
	grace := []time.Duration{40 * time.Millisecond, 120 * time.Millisecond}[i%2]
	c := vh.Conf(vh.Dir, root, vh.Policy{Untagged: true, Grace: grace})
	srv := vh.New(c)
	wit := map[string]any{"trial": i, "store": "dir", "grace": grace.String()}
	b := []byte(fmt.Sprintf("h%d", i))
	vh.Do(srv, vh.Req{Method: "POST", URL: "/v2/c/blobs/uploads/?digest=" + vh.DigestOf("sha256", b), Body: b})
	pr, pw := io.Pipe()
	body := &pipeBody{r: pr, started: make(chan struct{})}
	req1 := httptest.NewRequest("PUT", "/v2/c/manifests/held", body)
	req1.Header.Set("Content-Type", vh.MTImage)
	req1.ContentLength = -1
	d1 := make(chan struct{})
	go func() {
		defer close(d1)
		srv.ServeHTTP(httptest.NewRecorder(), req1)
	}()
	select {
	case <-body.started:
	case <-time.After(10 * time.Second):
		r.Inconclusive("held request never started reading its body")
		_ = pw.Close()
		return
	}
	blocked, ignored := false, false
	for attempt := 0; attempt < 150 && !blocked; attempt++ {
		time.Sleep(20 * time.Millisecond)
		ctx, cancel := context.WithCancel(context.Background())
		d3 := make(chan int, 1)
		go func() {
			rs := vh.Do(srv, vh.Req{Method: "GET", URL: fmt.Sprintf("/v2/other%d/tags/list", attempt%3), Ctx: ctx})
			d3 <- rs.Status
		}()
		select {
		case <-d3:
			cancel()
			continue
		case <-time.After(80 * time.Millisecond):
		}
		blocked = true
		r.Count("requests_blocked_behind_release_collection", 1)
		cancel()
		res := vh.Watch(func() { <-d3 }, 2*time.Second, 30*time.Second)
		if res.Stalled {
			ignored = true
			wit["blocked_goroutines"] = res.Desc
			r.Violation("K11:cancel-ignored:behind-release-collection", fmt.Sprintf("directory store, grace period %s: a request has used repository c for longer than the grace period (its body is still coming); the collection started by the expiry of c in the repository cache waits for it with the cache lock held; GET /v2/other/tags/list arrives, its context is cancelled - it does not return: every goroutine inside olareg is blocked until the first client finishes", grace), wit)
		} else if res.Done {
			r.Count("cancelled_requests_returned", 1)
		}
	}
	_, _ = pw.Write([]byte("{}"))
	_ = pw.Close()
	res := vh.Watch(func() { <-d1; _ = srv.Close() }, 5*time.Second, 60*time.Second)
	if res.Stalled && !ignored {
		wit["blocked_goroutines"] = res.Desc
		r.Violation("close-hangs", "after releasing the held request, Close does not return", wit)
		return
	}
	r.Count("release_holder_trials", 1)
	if !blocked {
		r.Count("release_holder_trials_never_blocked", 1)
	}
}

// completionBehindCollectionTrial: "a request waiting for a collection returns when its context is cancelled" - also the
// request that completes an upload.  The completing PUT has read its last byte and goes on to store the blob while a
// collection of that repository is inside its locked phase (the sync shim stops the collection right after it took
// the repository lock, so "the collection holds the lock now" is a fact, not a timing guess).  The PUT's context is
// cancelled.  Stable-stall rule: if every goroutine inside olareg is blocked - the collection at the gate, the PUT
// behind it - the cancelled request is waiting for the collection.  Then the gate opens and everything must drain.
func completionBehindCollectionTrial(r *vh.Run, i int) {
	kind := []vh.StoreKind{vh.Dir, vh.Mem}[i%2]
	form := []string{"put", "monolithic-post", "mount"}[(i/2)%3]
	root := ""
	if kind == vh.Dir {
		root = r.TempDir("c12g")
		defer vh.RemoveAll(root)
	}
	srv := vh.New(vh.Conf(kind, root, vh.Policy{Untagged: true, Grace: time.Hour}))
	wit := map[string]any{"trial": i, "store": kind.String(), "form": form}
	seed := []byte(fmt.Sprintf("g%d", i))
	sd := vh.DigestOf("sha256", seed)
	vh.Do(srv, vh.Req{Method: "POST", URL: "/v2/g/blobs/uploads/?digest=" + sd, Body: seed})
	vh.Do(srv, vh.Req{Method: "POST", URL: "/v2/src/blobs/uploads/?digest=" + sd, Body: seed})
	content := []byte(fmt.Sprintf("completed behind a collection %d", i))
	cd := vh.DigestOf("sha256", content)
	pr, pw := io.Pipe()
	body := &pipeBody{r: pr, started: make(chan struct{})}
	ctx, cancel := context.WithCancel(context.Background())
	defer cancel()
	var req *http.Request
	switch form {
	case "put":
		rs := vh.Do(srv, vh.Req{Method: "POST", URL: "/v2/g/blobs/uploads/"})
		loc := rs.H.Get("Location")
		if rs.Status != 202 || loc == "" {
			r.Inconclusive("completionBehindCollection: no session")
			return
		}
		ps := vh.Do(srv, vh.Req{Method: "PATCH", URL: loc, Body: content})
		if ps.Status != 202 || ps.H.Get("Location") == "" {
			r.Inconclusive("completionBehindCollection: chunk refused")
			return
		}
		req = httptest.NewRequest("PUT", ps.H.Get("Location")+"&digest="+cd, body)
	case "monolithic-post":
		req = httptest.NewRequest("POST", "/v2/g/blobs/uploads/?digest="+cd, body)
	case "mount":
		// a mount copies from the source repository and completes like an upload; nothing to hold open: the gate is
		// set first and the request sent while the collection is parked
		req = httptest.NewRequest("POST", "/v2/g/blobs/uploads/?mount="+sd+"x&from=src", http.NoBody)
	}
	req.ContentLength = -1
	req = req.WithContext(ctx)
	done := make(chan struct{})
	start := func() {
		go func() {
			srv.ServeHTTP(httptest.NewRecorder(), req)
			close(done)
		}()
	}
	if form != "mount" {
		start()
		select {
		case <-body.started:
		case <-time.After(10 * time.Second):
			r.Inconclusive("completionBehindCollection: the request never started reading its body")
			_ = pw.Close()
			return
		}
	}
	fn := map[vh.StoreKind]string{vh.Dir: "(*dirRepo).gc", vh.Mem: "(*memRepo).gc"}[kind]
	parked, release := vsync.SetGate(fn)
	defer release()
	gcDone := make(chan struct{})
	go func() { _ = srv.VerifGC(context.Background(), "g"); close(gcDone) }()
	select {
	case <-parked:
	case <-time.After(10 * time.Second):
		r.Count("completion_behind_collection_gate_not_reached", 1)
		release()
		_ = pw.Close()
		return
	}
	// the collection is inside its locked phase.  The request's context is cancelled, then its body ends.
	cancel()
	if form == "mount" {
		r.Count("completion_behind_collection_skipped_forms", 1) // a mount takes the repository first: it waits in RepoGet, which honours the context (covered by cancelTrial)
		release()
		<-gcDone
		_ = srv.Close()
		return
	}
	if form == "monolithic-post" {
		_, _ = pw.Write(content)
	}
	_ = pw.Close()
	r.Count("completion_behind_collection_trials", 1)
	res := vh.Watch(func() { <-done }, 2*time.Second, 30*time.Second)
	if res.Stalled {
		wit["blocked_goroutines"] = res.Desc
		r.Violation("cancel-ignored:completion-behind-collection", fmt.Sprintf("%s store, %s: the request that completes an upload has its context cancelled while a collection of the repository holds the repository lock; it does not return - every goroutine inside olareg is blocked until the collection has finished", kind, form), wit)
	} else if res.Done {
		r.Count("cancelled_completions_returned", 1)
	} else {
		r.Inconclusive("completionBehindCollection: still running after 30 s without a stable stall")
	}
	release()
	res = vh.Watch(func() {
		<-gcDone
		if !res.Done {
			<-done
		}
		vh.Do(srv, vh.Req{Method: "GET", URL: "/v2/g/tags/list"})
		_ = srv.Close()
	}, 3*time.Second, 40*time.Second)
	if res.Stalled {
		wit["blocked_goroutines"] = res.Desc
		r.Violation("close-hangs", "after the collection was let go, the requests and Close do not return", wit)
	}
}

// sessionPairTrial: several requests on ONE upload session at the same time - the PUT that completes it, status
// queries, a late chunk, a cancel.  Whatever each of them is answered, all of them return, and so do a listing, a new
// push and Close afterwards.  (The completion takes the session's lock and then the repository's; a handler that looks
// the session up takes the repository's - any code that takes them in the other order meets it here.)  Rounds run under
// the jittering sync shim; stable-stall rule.
func sessionPairTrial(r *vh.Run, i int) {
	kind := []vh.StoreKind{vh.Dir, vh.Mem}[i%2]
	root := ""
	if kind == vh.Dir {
		root = r.TempDir("c12s")
		defer vh.RemoveAll(root)
	}
	srv := vh.New(vh.Conf(kind, root, vh.Policy{Untagged: true, Grace: time.Hour}))
	wit := map[string]any{"trial": i, "store": kind.String()}
	rounds := 30
	res := vh.Watch(func() {
		for n := 0; n < rounds; n++ {
			rs := vh.Do(srv, vh.Req{Method: "POST", URL: "/v2/s/blobs/uploads/"})
			loc := rs.H.Get("Location")
			if rs.Status != 202 || loc == "" {
				continue
			}
			content := []byte(fmt.Sprintf("pair %d/%d", i, n))
			ps := vh.Do(srv, vh.Req{Method: "PATCH", URL: loc, Body: content})
			if ps.Status != 202 || ps.H.Get("Location") == "" {
				continue
			}
			fin := ps.H.Get("Location")
			path := fin[:strings.Index(fin, "?")]
			var wg sync.WaitGroup
			reqs := []vh.Req{
				{Method: "PUT", URL: fin + "&digest=" + vh.DigestOf("sha256", content)},
				{Method: "GET", URL: path},
				{Method: "GET", URL: path},
				{Method: "GET", URL: path},
			}
			switch n % 3 {
			case 1:
				reqs = append(reqs, vh.Req{Method: "PATCH", URL: fin, Body: []byte("late")})
			case 2:
				reqs = append(reqs, vh.Req{Method: "DELETE", URL: path})
			}
			for _, rq := range reqs {
				wg.Add(1)
				go func(rq vh.Req) { defer wg.Done(); vh.Do(srv, rq) }(rq)
			}
			wg.Wait()
			r.Count("session_pair_rounds", 1)
		}
		vh.Do(srv, vh.Req{Method: "GET", URL: "/v2/s/tags/list"})
		b := []byte(fmt.Sprintf("after the pairs %d", i))
		vh.Do(srv, vh.Req{Method: "POST", URL: "/v2/s/blobs/uploads/?digest=" + vh.DigestOf("sha256", b), Body: b})
		_ = srv.Close()
	}, 3*time.Second, 90*time.Second)
	r.Count("session_pair_trials", 1)
	if res.Stalled {
		wit["blocked_goroutines"] = res.Desc
		r.Violation("session-requests-block-each-other", fmt.Sprintf("%s store: the completing PUT of an upload session and other requests on the same session (status queries, a late chunk, a cancel) were sent together; they never return - every goroutine inside olareg is blocked", kind), wit)
		return
	}
	if !res.Done {
		r.Inconclusive("sessionPairTrial: still running after 90 s without a stable stall")
	}
}

// shutdownStalledTrial: "Close/Shutdown return" - also when a client has started a request that keeps its repository
// (a manifest PUT) and never finishes it.  Shutdown is given a context that ends after 300 ms (serve gives 30 s): when
// it ends, the connection is cut off, the handler returns, the store can be closed; Shutdown and Run return.  Stable-
// stall rule with one addition: the handler waiting in its read ("IO wait") counts as blocked here, because the only
// peer of the only connection is this trial, which sends nothing more - with the store waiting for that handler,
// every goroutine inside olareg is blocked for good.
func shutdownStalledTrial(r *vh.Run, i int) {
	kind := []vh.StoreKind{vh.Mem, vh.Dir}[i%2]
	root := ""
	if kind != vh.Mem {
		root = r.TempDir("c12z")
		defer vh.RemoveAll(root)
	}
	port := freePort()
	c := vh.Conf(kind, root, vh.Neutral)
	c.HTTP.Addr = fmt.Sprintf("127.0.0.1:%d", port)
	srv := vh.New(c)
	wit := map[string]any{"trial": i, "store": kind.String()}
	runDone := make(chan error, 1)
	go func() { runDone <- srv.Run(context.Background()) }()
	addr := fmt.Sprintf("127.0.0.1:%d", port)
	up := false
	for k := 0; k < 400 && !up; k++ {
		if cn, err := net.DialTimeout("tcp", addr, 200*time.Millisecond); err == nil {
			_, _ = cn.Write([]byte("GET /v2/ HTTP/1.1\r\nHost: x\r\nConnection: close\r\n\r\n"))
			_, _ = io.ReadAll(cn)
			_ = cn.Close()
			up = true
		} else {
			time.Sleep(10 * time.Millisecond)
		}
	}
	if !up {
		r.Inconclusive("listener did not come up (port taken?)")
		_ = srv.Close()
		return
	}
	cn, err := net.DialTimeout("tcp", addr, time.Second)
	if err != nil {
		r.Inconclusive("shutdownStalledTrial: dial: " + err.Error())
		_ = srv.Close()
		return
	}
	defer cn.Close()
	_, _ = cn.Write([]byte("PUT /v2/z/manifests/stalled HTTP/1.1\r\nHost: x\r\nContent-Type: application/vnd.oci.image.manifest.v1+json\r\nContent-Length: 500\r\n\r\n{\"schemaVersion\":2,"))
	time.Sleep(100 * time.Millisecond) // the handler holds repository z and waits for the rest of the body
	res := vh.Watch(func() {
		ctx, cancel := context.WithTimeout(context.Background(), 300*time.Millisecond)
		defer cancel()
		_ = srv.Shutdown(ctx)
		<-runDone
	}, 3*time.Second, 60*time.Second, "IO wait") // the only client is this trial and it sends nothing more
	r.Count("shutdown_stalled_trials", 1)
	if res.Stalled {
		wit["blocked_goroutines"] = res.Desc
		r.Violation("shutdown-hangs:stalled-request", fmt.Sprintf("%s store: a client holds a manifest PUT open that it never finishes; Shutdown with a context that ended long ago does not return - the request is not cut off and the store waits for it", kind), wit)
		return
	}
	if !res.Done {
		r.Inconclusive("shutdownStalledTrial: still running after 60 s without a stable stall")
	}
}

// failedCompletionTrial: the completion of an upload fails inside the store (the place of the blob is taken by a
// directory, or the session's file has disappeared under it).  Whatever that request is answered: the repository
// stays usable - a listing, a new push and Close return.  Stable-stall rule.
func failedCompletionTrial(r *vh.Run, i int) {
	root := r.TempDir("c12f")
	defer vh.RemoveAll(root)
	how := []string{"blob-path-is-a-directory", "session-file-removed"}[i%2]
	srv := vh.New(vh.Conf(vh.Dir, root, vh.Neutral))
	wit := map[string]any{"trial": i, "store": "dir", "completion_fails_because": how}
	b := []byte(fmt.Sprintf("content whose completion fails %d", i))
	d := vh.DigestOf("sha256", b)
	first := []byte(fmt.Sprintf("first %d", i))
	vh.Do(srv, vh.Req{Method: "POST", URL: "/v2/f/blobs/uploads/?digest=" + vh.DigestOf("sha256", first), Body: first})
	ns := vh.Do(srv, vh.Req{Method: "POST", URL: "/v2/f/blobs/uploads/"})
	loc := ns.H.Get("Location")
	if ns.Status != 202 || loc == "" {
		r.Inconclusive("failedCompletionTrial: no session")
		_ = srv.Close()
		return
	}
	ps := vh.Do(srv, vh.Req{Method: "PATCH", URL: loc, Body: b})
	if l := ps.H.Get("Location"); l != "" {
		loc = l
	}
	switch how {
	case "blob-path-is-a-directory":
		_ = os.MkdirAll(root+"/f/blobs/sha256/"+d[7:]+"/x", 0o755)
	default:
		ents, _ := os.ReadDir(root + "/f/_uploads")
		for _, e := range ents {
			_ = os.Remove(root + "/f/_uploads/" + e.Name())
		}
	}
	sep := "&"
	if !strings.Contains(loc, "?") {
		sep = "?"
	}
	put := vh.Do(srv, vh.Req{Method: "PUT", URL: loc + sep + "digest=" + d})
	wit["put_status"] = put.Status
	res := vh.Watch(func() {
		vh.Do(srv, vh.Req{Method: "GET", URL: "/v2/f/tags/list"})
		nb := []byte(fmt.Sprintf("next %d", i))
		vh.Do(srv, vh.Req{Method: "POST", URL: "/v2/f/blobs/uploads/?digest=" + vh.DigestOf("sha256", nb), Body: nb})
		_ = srv.Close()
	}, 2*time.Second, 40*time.Second)
	r.Count("failed_completion_trials", 1)
	r.Distinct("configs", "failed-completion/"+how)
	if res.Stalled {
		wit["blocked_goroutines"] = res.Desc
		r.Violation("repository-blocked-after-failed-completion", fmt.Sprintf("directory store: after an upload completion that failed inside the store (%s, answered %d) a listing, a new push or Close of the same repository never returns: every goroutine inside olareg is blocked", how, put.Status), wit)
		return
	}
	if !res.Done {
		r.Inconclusive("requests after a failed completion still running after 40 s without a stable stall")
	}
}

// precancelTrial: requests that arrive with a context that is already cancelled (a client that has gone away before
// the handler runs) - and requests cancelled at a random moment - must leave nothing behind: an ordinary request
// afterwards returns and Close returns.  Decided by the stable-stall criterion, never by a deadline.
func precancelTrial(r *vh.Run, i int) {
	rng := r.Rand(4_000_000 + i)
	kind := []vh.StoreKind{vh.Mem, vh.Dir, vh.MemDir}[i%3]
	root := ""
	if kind != vh.Mem {
		root = r.TempDir("c12p")
		defer vh.RemoveAll(root)
	}
	c := vh.Conf(kind, root, vh.Policy{Untagged: true, Grace: -1})
	c.Storage.GC.Frequency = 4 * time.Millisecond
	srv := vh.New(c)
	wit := map[string]any{"trial": i, "store": kind.String()}
	b := []byte(fmt.Sprintf("p%d", i))
	d := vh.DigestOf("sha256", b)
	vh.Do(srv, vh.Req{Method: "POST", URL: "/v2/p/blobs/uploads/?digest=" + d, Body: b})
	reqs := []vh.Req{
		{Method: "GET", URL: "/v2/p/tags/list"},
		{Method: "HEAD", URL: "/v2/p/blobs/" + d},
		{Method: "GET", URL: "/v2/p/blobs/" + d},
		{Method: "POST", URL: "/v2/p/blobs/uploads/"},
		{Method: "POST", URL: "/v2/p/blobs/uploads/?mount=" + d + "&from=p"},
		{Method: "GET", URL: "/v2/p/referrers/" + d},
		{Method: "GET", URL: "/v2/p/manifests/none", H: map[string]string{"Accept": vh.AcceptAll}},
		{Method: "DELETE", URL: "/v2/p/manifests/none"},
		{Method: "GET", URL: "/v2/never/seen/tags/list"},
	}
	for n := 0; n < 40; n++ {
		rq := reqs[rng.Intn(len(reqs))]
		ctx, cancel := context.WithCancel(context.Background())
		if rng.Intn(3) > 0 {
			cancel() // gone before the handler starts
		} else {
			go func(dl time.Duration) { time.Sleep(dl); cancel() }(time.Duration(rng.Intn(400)) * time.Microsecond)
		}
		rq.Ctx = ctx
		done := make(chan struct{})
		go func() { vh.Do(srv, rq); close(done) }()
		res := vh.Watch(func() { <-done }, 3*time.Second, 40*time.Second)
		cancel()
		r.Count("cancelled_requests_sent", 1)
		if res.Stalled {
			wit["blocked_goroutines"] = res.Desc
			r.Violation("cancelled-request-hangs", fmt.Sprintf("%s %s with a cancelled context never returns: every goroutine inside olareg is blocked (%s store)", rq.Method, rq.URL, kind), wit)
			return
		}
		if !res.Done {
			r.Inconclusive("a cancelled request was still running after 40 s without a stable stall")
			return
		}
	}
	// an ordinary request, then Close
	res := vh.Watch(func() {
		vh.Do(srv, vh.Req{Method: "GET", URL: "/v2/p/blobs/" + d})
		vh.Do(srv, vh.Req{Method: "GET", URL: "/v2/p/tags/list"})
	}, 3*time.Second, 40*time.Second)
	if res.Stalled {
		wit["blocked_goroutines"] = res.Desc
		r.Violation("blocked-after-cancelled-requests", fmt.Sprintf("after 40 requests whose context was cancelled before or while they ran, an ordinary request to the same repository never returns (%s store)", kind), wit)
		return
	}
	if !res.Done {
		r.Inconclusive("the ordinary request after the cancelled ones was still running after 40 s without a stable stall")
		return
	}
	res = vh.Watch(func() { _ = srv.Close() }, 3*time.Second, 40*time.Second)
	if res.Stalled {
		wit["blocked_goroutines"] = res.Desc
		r.Violation("close-hangs", fmt.Sprintf("after requests with cancelled contexts Close does not return (%s store)", kind), wit)
		return
	}
	r.Count("precancel_trials", 1)
}

// slowWriteTrial: one chunk write that takes longer than the grace period (the shim holds the session lock inside
// Write for 80 ms, grace 30 ms).  The expiry timer finds the session idle and waits for that lock; a status query
// arrives meanwhile and refreshes the session.  Whatever the expiry pass decides when the write is done, the session
// must stay usable: the next requests return.
func slowWriteTrial(r *vh.Run, i int) {
	root := r.TempDir("c12w")
	defer vh.RemoveAll(root)
	srv := vh.New(vh.Conf(vh.Dir, root, vh.Policy{Grace: 30 * time.Millisecond}))
	wit := map[string]any{"trial": i, "store": "dir", "grace": "30ms", "write_holds_session_lock_for": "80ms"}
	rs := vh.Do(srv, vh.Req{Method: "POST", URL: "/v2/w/blobs/uploads/"})
	loc := rs.H.Get("Location")
	if rs.Status != 202 || loc == "" {
		return
	}
	path := loc[:strings.Index(loc, "?")]
	patched := make(chan vh.Resp, 1)
	go func() {
		patched <- vh.Do(srv, vh.Req{Method: "PATCH", URL: loc, Body: []byte(fmt.Sprintf("slow chunk %d", i))})
	}()
	// while the write holds the lock: let the timer fire (33 ms after the session was created), then ask for the status
	time.Sleep(time.Duration(40+5*(i%5)) * time.Millisecond)
	statusDone := make(chan struct{})
	go func() { vh.Do(srv, vh.Req{Method: "GET", URL: path}); close(statusDone) }()
	res := vh.Watch(func() {
		p := <-patched
		<-statusDone
		// the session is still there or has expired - either way requests on it return
		vh.Do(srv, vh.Req{Method: "GET", URL: path})
		if l := p.H.Get("Location"); p.Status == 202 && l != "" {
			vh.Do(srv, vh.Req{Method: "PATCH", URL: l, Body: []byte("next")})
		}
		vh.Do(srv, vh.Req{Method: "DELETE", URL: path})
	}, 3*time.Second, 40*time.Second)
	r.Count("slow_write_trials", 1)
	if res.Stalled {
		wit["blocked_goroutines"] = res.Desc
		r.Violation("session-blocked-after-slow-write", "a chunk write took longer than the grace period while a status query refreshed the session; afterwards requests on that session never return", wit)
		return
	}
	if !res.Done {
		r.Inconclusive("slow-write trial still running after 40 s without a stable stall")
		return
	}
	res = vh.Watch(func() { _ = srv.Close() }, 3*time.Second, 40*time.Second)
	if res.Stalled {
		wit["blocked_goroutines"] = res.Desc
		r.Violation("close-hangs", "after the slow-write trial Close does not return", wit)
	}
}

// closeTickTrial: Close while the collection ticker is as busy as a legal configuration makes it (periods from a
// microsecond up): push one blob, close, a few hundred times over.  Close returns every time.
func closeTickTrial(r *vh.Run, i int) {
	kind := []vh.StoreKind{vh.Mem, vh.Dir, vh.MemDir}[i%3]
	freq := []time.Duration{time.Microsecond, 20 * time.Microsecond, 200 * time.Microsecond, 2 * time.Millisecond}[(i/3)%4]
	wit := map[string]any{"trial": i, "store": kind.String(), "gc_frequency": freq.String()}
	for n := 0; n < 150; n++ {
		root := ""
		if kind != vh.Mem {
			root = r.TempDir("c12t")
		}
		c := vh.Conf(kind, root, vh.Policy{Untagged: true, Grace: -1})
		c.Storage.GC.Frequency = freq
		srv := vh.New(c)
		b := []byte(fmt.Sprintf("t%d.%d", i, n))
		vh.Do(srv, vh.Req{Method: "POST", URL: "/v2/t/blobs/uploads/?digest=" + vh.DigestOf("sha256", b), Body: b})
		res := vh.Watch(func() { _ = srv.Close() }, 3*time.Second, 40*time.Second)
		if root != "" {
			vh.RemoveAll(root)
		}
		r.Count("closes_under_a_busy_ticker", 1)
		if res.Stalled {
			wit["blocked_goroutines"], wit["attempt"] = res.Desc, n
			r.Violation("close-hangs", fmt.Sprintf("Close of a %s store whose collection ticker runs every %s does not return (attempt %d): every goroutine inside olareg is blocked", kind, freq, n), wit)
			return
		}
		if !res.Done {
			r.Inconclusive("Close under a busy ticker still running after 40 s without a stable stall")
			return
		}
	}
	r.Count("close_tick_trials", 1)
}

// legacyOpenTrial: the first requests to a directory whose referrers were kept with the fallback tag scheme (the
// conversion runs inside the first request that touches the repository) return, on the directory store and on the
// memory store over it; so does Close.  (C17 judges what the conversion produces; that it ends is a C12 matter too.)
func legacyOpenTrial(r *vh.Run, i int) {
	rng := r.Rand(6_000_000 + i/2)
	kind := []vh.StoreKind{vh.Dir, vh.MemDir}[i%2]
	base := r.TempDir("c12l")
	defer vh.RemoveAll(base)
	L := vh.BuildLegacy(rng, base, fmt.Sprint("l", i/2))
	srv := vh.New(vh.Conf(kind, base, vh.Neutral))
	wit := map[string]any{"trial": i, "store": kind.String(), "fallback_index_classes": L.Kinds}
	res := vh.Watch(func() {
		vh.Do(srv, vh.Req{Method: "GET", URL: "/v2/leg/tags/list"})
		for _, sj := range L.Subjects {
			vh.Do(srv, vh.Req{Method: "GET", URL: "/v2/leg/referrers/" + sj})
		}
		vh.Do(srv, vh.Req{Method: "POST", URL: "/v2/leg/blobs/uploads/"})
		vh.Do(srv, vh.Req{Method: "GET", URL: "/v2/other/tags/list"})
	}, 3*time.Second, 40*time.Second)
	r.Count("legacy_open_trials", 1)
	if res.Stalled {
		wit["blocked_goroutines"] = res.Desc
		r.Violation("first-request-hangs:legacy-layout", fmt.Sprintf("the first requests to a directory with fallback-tag referrers never return on the %s store: every goroutine inside olareg is blocked (fallback index classes %v)", kind, L.Kinds), wit)
		return
	}
	if !res.Done {
		r.Inconclusive("first requests to a legacy layout still running after 40 s without a stable stall")
		return
	}
	res = vh.Watch(func() { _ = srv.Close() }, 3*time.Second, 40*time.Second)
	if res.Stalled {
		wit["blocked_goroutines"] = res.Desc
		r.Violation("close-hangs", "Close after opening a legacy layout does not return", wit)
	}
}

func freePort() int {
	l, err := net.Listen("tcp", "127.0.0.1:0")
	if err != nil {
		return 0
	}
	defer l.Close()
	return l.Addr().(*net.TCPAddr).Port
}

// shutdownTrial: Run on a loopback listener, then Shutdown (no deadline, as `serve` calls it on a signal) while
// requests are around, with and without a rate limit.  Variant "late header": a connection whose request line was
// sent before Shutdown and whose header is completed after the listener has been closed - net/http leaves such a
// connection alone, the handler then runs next to Shutdown.  Variant "burst": clients keep sending GET /v2/ while
// Shutdown is called.  Every request that reaches the handler is answered (or its connection closed), Shutdown and
// Run return.  Decided by the stable-stall rule, never by a deadline.
func shutdownTrial(r *vh.Run, i int) {
	kind := []vh.StoreKind{vh.Mem, vh.Dir}[i%2]
	rate := []int{1000000, 0, 50}[(i/2)%3]
	burst := (i/6)%2 == 1
	root := ""
	if kind != vh.Mem {
		root = r.TempDir("c12s")
		defer vh.RemoveAll(root)
	}
	port := freePort()
	c := vh.Conf(kind, root, vh.Neutral)
	c.HTTP.Addr = fmt.Sprintf("127.0.0.1:%d", port)
	c.API.RateLimit = rate
	srv := vh.New(c)
	wit := map[string]any{"trial": i, "store": kind.String(), "rate_limit": rate, "variant": map[bool]string{false: "late header", true: "burst"}[burst]}
	runDone := make(chan error, 1)
	go func() { runDone <- srv.Run(context.Background()) }()
	addr := fmt.Sprintf("127.0.0.1:%d", port)
	up := false
	for k := 0; k < 400 && !up; k++ {
		if cn, err := net.DialTimeout("tcp", addr, 200*time.Millisecond); err == nil {
			_, _ = cn.Write([]byte("GET /v2/ HTTP/1.1\r\nHost: x\r\nConnection: close\r\n\r\n"))
			_, _ = io.ReadAll(cn)
			_ = cn.Close()
			up = true
		} else {
			time.Sleep(10 * time.Millisecond)
		}
	}
	if !up {
		r.Inconclusive("listener did not come up (port taken?)")
		_ = srv.Close()
		return
	}
	var answered, broken atomic.Int64
	res := vh.Watch(func() {
		var cw sync.WaitGroup
		var late net.Conn
		stop := make(chan struct{})
		if burst {
			for cl := 0; cl < 6; cl++ {
				cw.Add(1)
				go func() {
					defer cw.Done()
					for {
						select {
						case <-stop:
							return
						default:
						}
						cn, err := net.DialTimeout("tcp", addr, 200*time.Millisecond)
						if err != nil {
							return // listener closed
						}
						_, _ = cn.Write([]byte("GET /v2/ HTTP/1.1\r\nHost: x\r\nConnection: close\r\n\r\n"))
						b, _ := io.ReadAll(cn)
						_ = cn.Close()
						if len(b) > 0 {
							answered.Add(1)
						} else {
							broken.Add(1)
						}
					}
				}()
			}
			time.Sleep(time.Duration(2+i%7) * time.Millisecond)
		} else {
			var err error
			late, err = net.DialTimeout("tcp", addr, time.Second)
			if err == nil {
				_, _ = late.Write([]byte("GET /v2/ HTTP/1.1\r\nHost: x\r\nConnection: close\r\n"))
			}
		}
		sd := make(chan error, 1)
		go func() { sd <- srv.Shutdown(context.Background()) }()
		if late != nil {
			// the listener being closed is the sign that http.Server.Shutdown has begun
			for k := 0; k < 2000; k++ {
				cn, err := net.DialTimeout("tcp", addr, 100*time.Millisecond)
				if err != nil {
					break
				}
				_ = cn.Close()
				time.Sleep(time.Millisecond)
			}
			_, _ = late.Write([]byte("\r\n"))
			b, _ := io.ReadAll(late)
			_ = late.Close()
			if len(b) > 0 {
				answered.Add(1)
			} else {
				broken.Add(1)
			}
		}
		<-sd
		close(stop)
		cw.Wait()
		<-runDone
	}, 3*time.Second, 60*time.Second)
	r.Count("shutdown_trials", 1)
	r.Count("shutdown_requests_answered", int(answered.Load()))
	r.Distinct("configs", fmt.Sprint("shutdown ", kind, rate, burst))
	if res.Stalled {
		wit["blocked_goroutines"], wit["waiters"] = res.Desc, vsync.Waiters()
		r.Violation("shutdown-hangs", fmt.Sprintf("Shutdown of a running %s server with rate limit %d never returns while a request is around (%s): every goroutine inside olareg is blocked", kind, rate, wit["variant"]), wit)
		return
	}
	if !res.Done {
		r.Inconclusive("Shutdown still running after 60 s without a stable stall")
	}
}

func main() {
	r := vh.Start()
	vsync.SetTracking(true)
	vsync.SetJitter(true, uint64(r.Seed)*0x9e3779b97f4a7c15+1)
	nb := r.N(24, 400)
	nc := r.N(12, 120)
	// stress batches, a few at a time (each has 6-12 clients); a verdict ends the run: the blocked goroutines cannot be recovered
	sem := make(chan struct{}, 3)
	var wg sync.WaitGroup
	var mu sync.Mutex
	stopAll := false
	for i := 0; i < nb; i++ {
		mu.Lock()
		if stopAll {
			mu.Unlock()
			break
		}
		mu.Unlock()
		sem <- struct{}{}
		wg.Add(1)
		go func(i int) {
			defer wg.Done()
			defer func() { <-sem }()
			res := stress(r, i)
			r.Count("batches", 1)
			r.Count("requests", int(res.requests))
			switch res.verdict {
			case "deadlock", "stall":
				r.Violation(res.verdict+":"+sigOf(res), res.detail, res.witness)
				mu.Lock()
				stopAll = true
				mu.Unlock()
			case "inconclusive":
				r.Inconclusive(res.detail)
			}
		}(i)
	}
	wg.Wait()
	mu.Lock()
	st := stopAll
	mu.Unlock()
	np := r.N(12, 150)
	nt := r.N(12, 120)
	nl := r.N(24, 400)
	if !st {
		vh.Parallel(nc+np+nt+nl, 4, func(i int) {
			switch {
			case i < nc:
				cancelTrial(r, i)
			case i < nc+np:
				precancelTrial(r, i-nc)
			case i < nc+np+nt:
				closeTickTrial(r, i-nc-np)
			default:
				legacyOpenTrial(r, i-nc-np-nt)
			}
		})
	}
	if !st {
		nfc := r.N(4, 40)
		before := r.Violations()
		for i := 0; i < nfc && r.Violations() == before; i++ {
			failedCompletionTrial(r, i)
		}
		st = r.Violations() > before
	}
	if !st {
		nz := r.N(4, 24)
		before := r.Violations()
		for i := 0; i < nz && r.Violations() == before; i++ { // one at a time: the stall rule looks at the whole process
			shutdownStalledTrial(r, i)
		}
		st = r.Violations() > before
	}
	if !st {
		nsp := r.N(4, 40)
		before := r.Violations()
		for i := 0; i < nsp && r.Violations() == before; i++ { // one at a time: the stall rule looks at the whole process
			sessionPairTrial(r, i)
		}
		st = r.Violations() > before
	}
	if !st {
		ng := r.N(8, 60)
		before := r.Violations()
		for i := 0; i < ng && r.Violations() == before; i++ { // one at a time: the gate and the stall rule are process-wide
			completionBehindCollectionTrial(r, i)
		}
		st = r.Violations() > before
	}
	if !st {
		nh := r.N(2, 30)
		vh.Parallel(nh, 1, func(i int) { releaseHolderTrial(r, i) }) // one at a time: the stall rule looks at the whole process
	}
	if !st {
		ns := r.N(12, 120)
		stalled := false
		for i := 0; i < ns && !stalled; i++ { // one at a time: a hung trial leaves its goroutines parked
			before := r.Violations()
			shutdownTrial(r, i)
			stalled = r.Violations() > before
		}
		st = stalled
	}
	if !st {
		// last, on their own: the hold applies to every Write in the process
		vsync.SetHold("(*dirRepoUpload).Write", 80*time.Millisecond)
		nw := r.N(6, 60)
		vh.Parallel(nw, 3, func(i int) { slowWriteTrial(r, i) })
		vsync.SetHold("", 0)
	}
	r.Count("lock_acquisitions", int(vsync.Acquisitions.Load()))
	r.Count("contended_acquisitions", int(vsync.Contended.Load()))
	r.Count("jitter_injections", int(vsync.Jitters.Load()))
	ed := vsync.Edges()
	var es []string
	for e := range ed {
		es = append(es, e)
		r.Distinct("lock_order_edges", e)
	}
	sort.Strings(es)
	if len(es) > 12 {
		es = es[:12]
	}
	r.Sample(map[string]any{"lock_order_edges_seen": es})
	if !st {
		r.Require("batches", int64(nb))
		r.Require("requests", int64(nb*200))
		r.Require("contended_acquisitions", 100)
		r.Require("requests_blocked_behind_collection", 3)
	}
	r.Finish("stress batches of 6-12 concurrent clients x 25 sequences (chunked uploads with pauses, status queries, cancel / abandon / complete, image + artifact pushes, referrers reads, deletes, listings, idle periods) against 1-3 repositories with grace period 20-60 ms, RepoUploadMax 2-4, collection every 5-10 ms, Close during traffic in a third of the batches, both stores, seeded jitter before every mutex acquisition and WaitGroup wait; plus trials in which a request is held open, a collection waits for it, and a third request is cancelled, and trials of 40 requests whose context is cancelled before or while they run followed by an ordinary request and Close, trials that close a store whose collection ticker runs every 1 us - 2 ms (150 closes each), first requests to generated legacy layouts on the directory and memory-over-directory stores, and trials in which one chunk write holds the session lock for longer than the grace period while a status query refreshes the session; a case is one batch or trial, distinct = configurations (store, grace, frequency, limit, clients, repositories)", "batches", "configs")
	if st {
		os.Exit(0) // goroutines of the deadlocked batch are still parked
	}
}

func sigOf(res batchRes) string {
	// canonical: the sites of the cycle, or the innermost olareg functions of the blocked goroutines
	if strings.HasPrefix(res.detail, "cycle") {
		return strings.TrimPrefix(res.detail, "cycle in the mutex wait-for graph: ")
	}
	return "all-blocked"
}

var _ = olareg.New
