// C14: read-only stores and disabled APIs never change anything.
//
// (a) A directory store opened read-only and a memory store layered over a directory (with an active collection
// ticker and no grace period, so collections really run) are driven with every kind of request - uploads,
// mounts, manifest pushes, deletes, listings, referrers reads that force index loading and fallback conversion,
// hostile requests - over fixtures: populated converted layouts, legacy layouts (accurate and stale fallback
// indexes), nested repositories, stray _uploads files, a copy of olareg's own testdata.  Monitors: the os shim
// (build variant "vfs") must see no mutating call under the root; a recursive snapshot of the root (names, types,
// sizes, modes, mtimes, sha256) must be identical after the batch and after Close; the content of the fixture
// must still be served; on the read-only directory store every mutating request must be refused with a 4xx.
// (b) Switch table: for all 32 combinations of read-only / push / delete / blob delete / referrers on a
// directory store, requests that the combination does not permit are refused with a 4xx and leave the complete
// observable snapshot unchanged.
package main

import (
	"crypto/sha256"
	"fmt"
	"math/rand"
	"os"
	"path/filepath"
	"sort"
	"strings"
	"sync"
	"time"

	"github.com/olareg/olareg/internal/verif/vfs"
	"github.com/olareg/olareg/internal/verif/vh"
)

func snapshot(root string) []string {
	var l []string
	_ = filepath.Walk(root, func(p string, fi os.FileInfo, err error) error {
		if err != nil {
			return nil
		}
		s := fmt.Sprintf("%s %v %d %d", strings.TrimPrefix(p, root), fi.Mode(), fi.Size(), fi.ModTime().UnixNano())
		if fi.IsDir() {
			s = fmt.Sprintf("%s %v dir %d", strings.TrimPrefix(p, root), fi.Mode(), fi.ModTime().UnixNano())
		} else {
			b, _ := os.ReadFile(p)
			s += fmt.Sprintf(" %x", sha256.Sum256(b))
		}
		l = append(l, s)
		return nil
	})
	sort.Strings(l)
	return l
}

func diffLists(a, b []string) string {
	am, bm := map[string]bool{}, map[string]bool{}
	for _, x := range a {
		am[x] = true
	}
	for _, x := range b {
		bm[x] = true
	}
	var out []string
	for _, x := range a {
		if !bm[x] {
			out = append(out, "- "+x)
		}
	}
	for _, x := range b {
		if !am[x] {
			out = append(out, "+ "+x)
		}
	}
	if len(out) > 12 {
		out = out[:12]
	}
	return strings.Join(out, "\n")
}

func copyDir(src, dst string) {
	_ = filepath.Walk(src, func(p string, fi os.FileInfo, err error) error {
		if err != nil {
			return nil
		}
		rel, _ := filepath.Rel(src, p)
		t := filepath.Join(dst, rel)
		if fi.IsDir() {
			return os.MkdirAll(t, 0o755)
		}
		b, err := os.ReadFile(p)
		if err == nil {
			_ = os.WriteFile(t, b, 0o644)
		}
		return nil
	})
}

type fixture struct {
	loose map[string][]byte // URL -> content that a corrupt layout still holds and serves (its blobs)
	kind   string
	repos  []string
	w      *vh.World  // model of what the fixture holds (populated fixtures)
	legacy *vh.Legacy // legacy fixtures
}

func buildFixture(r *vh.Run, rng *rand.Rand, root string, i int) fixture {
	kinds := []string{"populated", "populated-nested", "legacy", "legacy", "testdata", "stray-uploads", "empty-root", "truncated-index", "bad-layout-file"}
	f := fixture{kind: kinds[i%len(kinds)]}
	switch f.kind {
	case "populated", "populated-nested", "stray-uploads":
		f.repos = []string{"r"}
		if f.kind == "populated-nested" {
			f.repos = []string{"r", "r/n", "r/n/m"}
		}
		u := vh.GenUniverse(rng, vh.UOpts{Tag: fmt.Sprint(i), Algs: i%3 == 0})
		srv := vh.New(vh.Conf(vh.Dir, root, vh.Neutral))
		f.w = vh.NewWorld(r, srv, u, vh.Dir, f.repos...)
		for _, rp := range f.repos {
			for _, b := range u.Blobs {
				f.w.PushBlob(rp, b)
			}
			for pass := 0; pass < 2; pass++ {
				for _, mm := range u.Mans {
					if f.w.Repos[rp].ValidRefs(mm) && rng.Intn(4) > 0 {
						tag := ""
						if rng.Intn(2) == 0 {
							tag = u.Tags[rng.Intn(len(u.Tags))]
						}
						f.w.PutManifest(rp, mm, tag)
					}
				}
			}
		}
		_ = srv.Close()
		if f.kind == "stray-uploads" {
			_ = os.MkdirAll(filepath.Join(root, "r", "_uploads"), 0o755)
			_ = os.WriteFile(filepath.Join(root, "r", "_uploads", "upload.12345"), []byte("left over by a crashed writer"), 0o644)
			_ = os.WriteFile(filepath.Join(root, "r", "index.json.999"), []byte("{}"), 0o644)
		}
	case "legacy":
		L := vh.BuildLegacy(rng, root, fmt.Sprint(i))
		f.legacy = &L
		f.repos = []string{"leg"}
	case "testdata":
		copyDir(filepath.Join(os.Getenv("VERIF_REPO"), "testdata"), root)
		f.repos = []string{"testrepo", "corrupt", "exdir"}
	case "empty-root":
		f.repos = []string{"r"}
	case "bad-layout-file":
		// index.json and blobs are fine, the oci-layout file is missing, of another version, or not JSON: whatever the
		// store makes of such a repository, it does not repair it
		p := filepath.Join(root, "b")
		_ = os.MkdirAll(filepath.Join(p, "blobs", "sha256"), 0o755)
		b := []byte(fmt.Sprintf("content of a repository with a bad layout file %d", i))
		_ = os.WriteFile(filepath.Join(p, "blobs", "sha256", vh.DigestOf("sha256", b)[7:]), b, 0o644)
		_ = os.WriteFile(filepath.Join(p, "index.json"), []byte(`{"schemaVersion":2,"mediaType":"application/vnd.oci.image.index.v1+json","manifests":[]}`), 0o644)
		switch (i / 27) % 3 {
		case 1:
			_ = os.WriteFile(filepath.Join(p, "oci-layout"), []byte(`{"imageLayoutVersion":"9.9.9"}`), 0o644)
		case 2:
			_ = os.WriteFile(filepath.Join(p, "oci-layout"), []byte(`not json`), 0o644)
		}
		f.repos = []string{"b"}
	case "truncated-index":
		// a layout whose index.json was cut off (a writer that died): nothing of it can be listed, and nothing may be
		// changed either
		p := filepath.Join(root, "t")
		_ = os.MkdirAll(filepath.Join(p, "blobs", "sha256"), 0o755)
		_ = os.WriteFile(filepath.Join(p, "oci-layout"), []byte(`{"imageLayoutVersion":"1.0.0"}`), 0o644)
		_ = os.WriteFile(filepath.Join(p, "index.json"), []byte(`{"schemaVersion":2,"manifests":[{`), 0o644)
		b := []byte(fmt.Sprintf("content next to a truncated index %d", i))
		_ = os.WriteFile(filepath.Join(p, "blobs", "sha256", vh.DigestOf("sha256", b)[7:]), b, 0o644)
		f.repos = []string{"t"}
		f.loose = map[string][]byte{"/v2/t/blobs/" + vh.DigestOf("sha256", b): b}
	}
	return f
}

func readonlyBatch(r *vh.Run, i int) {
	rng := r.Rand(i)
	base := r.TempDir("c14")
	defer vh.RemoveAll(base)
	root := filepath.Join(base, "root")
	_ = os.MkdirAll(root, 0o755)
	f := buildFixture(r, rng, root, i)
	kind := []vh.StoreKind{vh.Dir, vh.MemDir, vh.MemDir}[(i/9)%3]
	ro := kind == vh.Dir || (i/9)%3 == 2 // the directory store is always opened read-only, the memory store over the directory in one of two batches
	before := snapshot(root)
	var mu sync.Mutex
	var muts []string
	nev := 0
	unreg := vfs.Register(root, func(ev vfs.Event) {
		if ev.Phase != "before" {
			return
		}
		mu.Lock()
		nev++
		if ev.Mutating && len(muts) < 20 {
			muts = append(muts, fmt.Sprintf("%s %s", ev.Op, strings.TrimPrefix(ev.Path, root)))
		}
		mu.Unlock()
	})
	defer unreg()
	c := vh.Conf(kind, root, vh.Policy{Untagged: true, Dangling: true, WithSubj: true, EmptyRepo: true, Grace: -1})
	if ro {
		c.Storage.ReadOnly = vh.BP(true)
	}
	c.Storage.GC.Frequency = 3 * time.Millisecond
	// a quarter of the batches serve the fixture with the referrers API switched off - also the fixtures a registry
	// with the API on has written (their index.json says "converted"): a store that cannot write still serves them
	refOff := (i/27)%4 == 3
	if refOff {
		c.API.Referrer.Enabled = vh.BP(false)
		r.Count("readonly_batches_referrers_off", 1)
	}
	srv := vh.New(c)
	wit := map[string]any{"batch": i, "store": kind.String(), "read_only": ro, "fixture": f.kind, "referrers_api": !refOff}
	var trace []string
	viol := func(sig, detail string) {
		tr := trace
		if len(tr) > 30 {
			tr = tr[len(tr)-30:]
		}
		wit["last_requests"] = tr
		r.Violation(sig, detail, wit)
	}
	do := func(rq vh.Req) vh.Resp {
		rs := vh.Do(srv, rq)
		r.Count("requests", 1)
		trace = append(trace, fmt.Sprintf("%s = %d", vh.ShortReq(rq), rs.Status))
		return rs
	}
	// ---- the content of the fixture is served
	serveCheck := func(when string) bool {
		for u, want := range f.loose {
			// "every pre-existing directory content including ... corrupt layouts", "while still serving its content":
			// what cannot be listed any more is still there to be read by digest
			rs := do(vh.Req{Method: "GET", URL: u})
			if rs.Status != 200 || string(rs.Body) != string(want) {
				viol("content-not-served:blob-of-a-corrupt-layout", fmt.Sprintf("%s: %s of the fixture (a layout whose index.json is cut off) answers %d on the %s store (read-only %v)", when, u, rs.Status, kind, ro))
				return false
			}
			r.Count("corrupt_layout_blob_reads", 1)
		}
		if f.w != nil {
			for _, rp := range f.repos {
				s := f.w.RealSnapVia(srv, rp)
				want := f.w.ModelSnap(rp)
				for t, d := range want.TagD {
					if d != "" && s.TagD[t] != d {
						viol("content-not-served:tag", fmt.Sprintf("%s: tag %s/%s of the fixture resolves to %q, is %s", when, rp, t, s.TagD[t], vh.Short(d)))
						return false
					}
				}
				// the memory store's collection (in memory only) may drop what its policy calls garbage: there only the
				// tagged images and what they reference are demanded; the read-only directory store never collects
				need := map[string]bool{}
				if kind == vh.MemDir {
					var walk func(d string)
					walk = func(d string) {
						if need[d] {
							return
						}
						need[d] = true
						if mm := f.w.U.ByD[d]; mm != nil {
							for _, rf := range mm.Refs {
								walk(rf)
							}
						}
					}
					for _, d := range want.TagD {
						if d != "" {
							walk(d)
						}
					}
				}
				for d, v := range want.Blob {
					if kind == vh.MemDir && !need[d] {
						continue
					}
					if v && !s.Blob[d] {
						viol("content-not-served:blob", fmt.Sprintf("%s: content %s of the fixture is not served from %s", when, f.w.NameOf(d), rp))
						return false
					}
				}
				for _, p := range s.Prob {
					if kind == vh.MemDir && !strings.HasPrefix(p, "tag ") {
						continue // untagged content may be collected (in memory) between two reads
					}
					if refOff && strings.HasPrefix(p, "referrers ") {
						continue // switched off: 404 is the documented answer
					}
					viol("content-not-served:damaged", when+": "+p)
					return false
				}
				r.Count("fixture_reads", 1)
			}
		}
		if f.legacy != nil {
			for tg, d := range f.legacy.OtherTags {
				rs := do(vh.Req{Method: "HEAD", URL: "/v2/leg/manifests/" + tg, H: map[string]string{"Accept": vh.AcceptAll}})
				if rs.Status != 200 || rs.H.Get("Docker-Content-Digest") != d {
					viol("content-not-served:tag", fmt.Sprintf("%s: tag %s of the legacy fixture answers %d", when, tg, rs.Status))
					return false
				}
			}
			// what a fallback tag records is content too: either the tag is still served as it lies in the directory,
			// or the referrers it lists for its subject are served by the referrers API (converted in memory)
			for tg, fb := range f.legacy.Fallback {
				if !ro {
					break // the writable memory store collects in memory (dangling referrers are garbage under this policy)
				}
				hd := do(vh.Req{Method: "HEAD", URL: "/v2/leg/manifests/" + tg, H: map[string]string{"Accept": vh.AcceptAll}})
				if hd.Status == 200 {
					continue
				}
				rs := do(vh.Req{Method: "GET", URL: "/v2/leg/referrers/" + fb.Subject})
				for _, d := range fb.Lists {
					if rs.Status != 200 || !strings.Contains(string(rs.Body), d) {
						viol("content-not-served:fallback-referrers", fmt.Sprintf("%s: fallback tag %s of the legacy fixture answers %d and the referrers API (status %d) does not list %s, which the tag's index lists for its subject (classes %v)", when, tg, hd.Status, rs.Status, vh.Short(d), f.legacy.Kinds))
						return false
					}
				}
				r.Count("fallback_tags_checked", 1)
			}
			tagged := map[string]bool{}
			for _, d := range f.legacy.OtherTags {
				tagged[d] = true
			}
			for _, m := range f.legacy.All {
				if kind == vh.MemDir && !tagged[m.D] {
					continue
				}
				rs := do(vh.Req{Method: "GET", URL: "/v2/leg/blobs/" + m.D})
				if rs.Status != 200 || string(rs.Body) != string(m.Raw) {
					viol("content-not-served:blob", fmt.Sprintf("%s: content %s of the legacy fixture answers %d", when, vh.Short(m.D), rs.Status))
					return false
				}
			}
			r.Count("fixture_reads", 1)
		}
		if f.kind == "testdata" {
			rs := do(vh.Req{Method: "GET", URL: "/v2/testrepo/tags/list"})
			if rs.Status != 200 || !strings.Contains(string(rs.Body), "v1") {
				viol("content-not-served:tag", fmt.Sprintf("%s: testdata/testrepo tag list answers %d %.80s", when, rs.Status, rs.Body))
				return false
			}
			r.Count("fixture_reads", 1)
		}
		return true
	}
	ok := serveCheck("before the hostile requests")
	// ---- every kind of request
	nb := []byte(fmt.Sprintf("new content %d", i))
	nd := vh.DigestOf("sha256", nb)
	cfg := &vh.Blob{Name: "cfg", B: nb, D: nd}
	img := vh.MkImage("n", "sha256", vh.MTImage, cfg, vh.MTConfig, nil, "", "", map[string]string{"n": fmt.Sprint(i)})
	for n := 0; n < 60 && ok; n++ {
		rp := f.repos[rng.Intn(len(f.repos))]
		if rng.Intn(6) == 0 {
			rp = []string{"newrepo", "new/nested", rp + "/sub"}[rng.Intn(3)]
		}
		var anyD, anyTag string
		if f.w != nil && f.w.Repos[rp] != nil {
			for d := range f.w.Repos[rp].Stored {
				if anyD == "" || d < anyD {
					anyD = d
				}
			}
			for t := range f.w.Repos[rp].Tags {
				if anyTag == "" || t < anyTag {
					anyTag = t
				}
			}
		}
		if f.legacy != nil && len(f.legacy.All) > 0 {
			anyD = f.legacy.All[rng.Intn(len(f.legacy.All))].D
			anyTag = "latest"
		}
		if anyD == "" {
			anyD = nd
		}
		if anyTag == "" {
			anyTag = "latest"
		}
		type pr struct {
			rq      vh.Req
			mutates bool
		}
		reqs := []pr{
			{vh.Req{Method: "POST", URL: "/v2/" + rp + "/blobs/uploads/?digest=" + nd, Body: nb}, true},
			{vh.Req{Method: "POST", URL: "/v2/" + rp + "/blobs/uploads/"}, true},
			{vh.Req{Method: "POST", URL: "/v2/" + rp + "/blobs/uploads/?mount=" + anyD + "&from=" + f.repos[0]}, true},
			{vh.Req{Method: "PUT", URL: "/v2/" + rp + "/manifests/newtag", H: map[string]string{"Content-Type": vh.MTImage}, Body: img.Raw}, true},
			{vh.Req{Method: "PUT", URL: "/v2/" + rp + "/manifests/" + anyTag, H: map[string]string{"Content-Type": vh.MTImage}, Body: img.Raw}, true},
			{vh.Req{Method: "DELETE", URL: "/v2/" + rp + "/manifests/" + anyTag}, true},
			{vh.Req{Method: "DELETE", URL: "/v2/" + rp + "/manifests/" + anyD}, true},
			{vh.Req{Method: "DELETE", URL: "/v2/" + rp + "/blobs/" + anyD}, true},
			{vh.Req{Method: "PATCH", URL: "/v2/" + rp + "/blobs/uploads/upload.12345", Body: []byte("x")}, true},
			{vh.Req{Method: "DELETE", URL: "/v2/" + rp + "/blobs/uploads/upload.12345"}, true},
			{vh.Req{Method: "GET", URL: "/v2/" + rp + "/tags/list"}, false},
			{vh.Req{Method: "GET", URL: "/v2/" + rp + "/referrers/" + anyD}, false},
			{vh.Req{Method: "GET", URL: "/v2/" + rp + "/referrers/" + anyD + "?artifactType=application/x.t0"}, false},
			{vh.Req{Method: "GET", URL: "/v2/" + rp + "/manifests/" + anyTag, H: map[string]string{"Accept": vh.AcceptAll}}, false},
			{vh.Req{Method: "GET", URL: "/v2/" + rp + "/blobs/" + anyD}, false},
			{vh.Req{Method: "GET", URL: "/v2/" + rp + "/blobs/" + anyD, H: map[string]string{"Range": "bytes=0-1"}}, false},
		}
		p := reqs[rng.Intn(len(reqs))]
		rs := do(p.rq)
		r.Distinct("request_kinds", p.rq.Method+" "+strings.SplitN(strings.TrimPrefix(p.rq.URL, "/v2/"+rp+"/"), "/", 2)[0])
		if rs.Status >= 500 {
			viol("5xx", fmt.Sprintf("%s answered %d on a %s store (read-only %v)", vh.ShortReq(p.rq), rs.Status, kind, ro))
			ok = false
		}
		if ro && p.mutates && (rs.Status < 400 || rs.Status >= 500) {
			viol("mutating-request-not-refused", fmt.Sprintf("%s answered %d on a read-only %s store", vh.ShortReq(p.rq), rs.Status, kind))
			ok = false
		}
		if rs.Status == 202 && kind == vh.MemDir {
			if loc := rs.H.Get("Location"); loc != "" && rng.Intn(2) == 0 {
				do(vh.Req{Method: "PUT", URL: loc + "&digest=" + nd, Body: nb})
			}
		}
		mu.Lock()
		m := append([]string{}, muts...)
		mu.Unlock()
		if len(m) > 0 {
			viol("mutating-filesystem-call", fmt.Sprintf("after %s the %s store issued mutating filesystem calls under its root: %v", vh.ShortReq(p.rq), kind, m))
			ok = false
		}
	}
	if ok && ro {
		ok = serveCheck("after the hostile requests")
	}
	time.Sleep(8 * time.Millisecond) // a few ticks of the collection ticker
	mid := snapshot(root)
	if d := diffLists(before, mid); d != "" && ok {
		viol("root-changed", fmt.Sprintf("the %s store changed its root directory (fixture %s):\n%s", kind, f.kind, d))
		ok = false
	}
	_ = srv.Close()
	after := snapshot(root)
	if d := diffLists(before, after); d != "" && ok {
		viol("root-changed-by-close", fmt.Sprintf("Close of the %s store changed its root directory (fixture %s):\n%s", kind, f.kind, d))
	}
	mu.Lock()
	m := append([]string{}, muts...)
	n := nev
	mu.Unlock()
	if len(m) > 0 && ok {
		viol("mutating-filesystem-call", fmt.Sprintf("the %s store issued mutating filesystem calls under its root (fixture %s): %v", kind, f.kind, m))
	}
	r.Count("fs_calls_observed", n)
	r.Count("snapshot_entries_compared", len(before))
	r.Count("readonly_batches", 1)
	r.Distinct("fixtures_x_stores", fmt.Sprintf("%s/%s/ro=%v", f.kind, kind, ro))
	if i < 2 {
		tr := trace
		if len(tr) > 15 {
			tr = tr[:15]
		}
		r.Sample(map[string]any{"batch": i, "store": kind.String(), "fixture": f.kind, "first_requests": tr})
	}
}

// switchBatch: (b) every request the switch combination does not permit is refused and changes nothing.
func switchBatch(r *vh.Run, i int) {
	rng := r.Rand(4_000_000 + i)
	all := vh.AllSwitches()
	s := all[i%len(all)]
	root := r.TempDir("c14s")
	defer vh.RemoveAll(root)
	// populate with everything enabled (referrers as in the combination, so that the layout matches)
	pc := vh.Conf(vh.Dir, root, vh.Neutral)
	vh.Switches{Push: true, Delete: true, BlobDelete: true, Referrers: s.Referrers}.Apply(&pc)
	psrv := vh.New(pc)
	u := vh.GenUniverse(rng, vh.UOpts{Tag: fmt.Sprint("sw", i)})
	w := vh.NewWorld(r, psrv, u, vh.Dir, "r")
	for _, b := range u.Blobs {
		w.PushBlob("r", b)
	}
	extra := &vh.Blob{Name: "plain", B: []byte(fmt.Sprint("plain blob ", i))}
	extra.D = vh.DigestOf("sha256", extra.B)
	w.PushBlob("r", extra)
	for _, mm := range u.Mans {
		if (s.Referrers || mm.Subject == "") && w.Repos["r"].ValidRefs(mm) {
			w.PutManifest("r", mm, u.Tags[rng.Intn(len(u.Tags))])
		}
	}
	if !s.Referrers {
		for sj := range map[string]bool{} {
			_ = sj
		}
		u.Subjects = nil // the referrers API is off: not part of the observable state
	}
	_ = psrv.Close()
	c := vh.Conf(vh.Dir, root, vh.Neutral)
	s.Apply(&c)
	srv := vh.New(c)
	defer srv.Close()
	w.H = srv
	wit := map[string]any{"trial": i, "switches": s.String()}
	for _, p := range vh.SwitchTable(w, "r", s, rng, fmt.Sprint(i)) {
		rs := w.Do(p.Req)
		r.Count("switch_probes", 1)
		r.Distinct("switch_cells", fmt.Sprintf("%s/%s", p.Name, map[bool]string{true: "permitted", false: "not-permitted"}[p.Allowed]))
		refused := vh.RefusedByConfig(rs) || (p.Name == "referrers-get" && rs.Status == 404)
		wit["probe"] = p.Name
		wit["status"] = rs.Status
		switch {
		case rs.Status >= 500:
			r.Violation("switch:5xx", fmt.Sprintf("%s with %s answered %d", p.Name, s, rs.Status), wit)
			return
		case !p.Allowed && (rs.Status < 400 || rs.Status >= 500):
			r.Violation("switch:not-refused:"+p.Name, fmt.Sprintf("%s is not permitted with %s but was answered %d", p.Name, s, rs.Status), wit)
			return
		case p.Allowed && refused:
			r.Violation("switch:refused:"+p.Name, fmt.Sprintf("%s is permitted with %s but was refused with %d", p.Name, s, rs.Status), wit)
			return
		}
		if !p.Allowed || !p.Mutates {
			// nothing readable changed
			if s.ReadOnly || true {
				ds := vh.Unknown(w.Compare("r", w.RealSnap("r")))
				if len(ds) > 0 && !(s.ReadOnly && false) {
					r.Violation("switch:state-changed:"+p.Name, fmt.Sprintf("after the refused / read-only request %s (%s) the readable state differs: %s", p.Name, s, ds[0]), wit)
					return
				}
			}
			r.Count("unchanged_state_checks", 1)
			continue
		}
		// a permitted mutation: the model follows it
		m := w.Repos["r"]
		switch p.Name {
		case "blob-upload-monolithic":
			if rs.Status == 201 {
				m.Stored[vh.DigestOf("sha256", p.Req.Body)] = p.Req.Body
			}
		case "manifest-put":
			if rs.Status == 201 {
				d := vh.DigestOf("sha256", p.Req.Body)
				mm := &vh.Man{Name: "sw", Raw: p.Req.Body, D: d, MT: vh.MTImage}
				u.ByD[d] = mm
				u.Mans = append(u.Mans, mm)
				u.Tags = append(u.Tags, "swtag")
				m.Mans[d] = mm
				m.Stored[d] = p.Req.Body
				m.Tags["swtag"] = d
			}
		case "manifest-delete-tag":
			if rs.Status == 202 {
				t := p.Req.URL[strings.LastIndex(p.Req.URL, "/")+1:]
				delete(m.Tags, t)
			}
		case "blob-delete":
			if rs.Status == 202 {
				delete(m.Stored, p.Req.URL[strings.LastIndex(p.Req.URL, "/")+1:])
			}
		}
	}
	r.Count("switch_trials", 1)
}

func main() {
	r := vh.Start()
	na := r.N(108, 2700)
	nb := r.N(64, 640)
	vh.Parallel(na+nb, 12, func(i int) {
		if i < na {
			readonlyBatch(r, i)
		} else {
			switchBatch(r, i-na)
		}
	})
	r.Count("cases", na+nb)
	r.Require("readonly_batches", int64(na))
	r.Require("fs_calls_observed", int64(na*20))
	r.Require("switch_trials", int64(nb/2))
	r.Require("unchanged_state_checks", int64(nb*3))
	r.RequireDistinct("fixtures_x_stores", 10)
	r.Finish("(a) read-only directory stores and memory-over-directory stores (collection ticker at 3 ms, no grace period) over 9 fixture kinds (a missing / foreign / unparsable oci-layout file, populated, nested, legacy accurate/stale incl. what the fallback tags record, olareg's testdata incl. the corrupt layout, stray _uploads and temp files, empty root, truncated index.json), the memory store over the directory writable and read-only, x 60 requests of 16 kinds incl. uploads, mounts, pushes, deletes, listings, referrers with and without filter, ranges; os-shim monitor for mutating calls, recursive snapshot compare after the batch and after Close, fixture content re-read; (b) all 32 combinations of read-only / push / delete / blob delete / referrers on a directory store with a 12-probe behaviour table and snapshot compare after every refused probe; a case is one batch or combination trial, distinct = fixture x store pairs", "cases", "fixtures_x_stores")
}
