// C15: any request gets a well-formed answer: no panic, no 5xx for client errors.
//
// Grammar-based request generator (method x path template x repository name (valid, invalid, nested,
// reserved, over-long) x reference x query parameters at and beyond their bounds x headers x bodies) against
// servers in several states (empty, populated, open sessions, paged referrers, mid-upload), both stores.
// Monitors on every exchange:
//
//	G2  no recovered panic, no status >= 500 (storage is healthy throughout)
//	G3  a non-empty body of a >=400 answer parses as an OCI error document with registered codes
//	R   a repository name outside the OCI grammar reaches no handler: 400/404/405 only
//
// plus directed conditions the harness creates on purpose, each with the set of codes allowed for it.
package main

import (
	"bytes"
	"context"
	"encoding/base64"
	"fmt"
	"io"
	"math/rand"
	"os"
	"path/filepath"
	"regexp"
	"sort"
	"strings"
	"sync"
	"sync/atomic"
	"time"

	"github.com/olareg/olareg"
	"github.com/olareg/olareg/internal/verif/vh"
)

var (
	longRE   = regexp.MustCompile(`[0-9a-f]{16,}|a{100,}|(a/){20,}`)
	sidRE    = regexp.MustCompile(`uploads/[A-Za-z0-9_-]{22}`)
	repoPart = `[a-z0-9]+(?:(?:\.|_|__|-+)[a-z0-9]+)*`
	repoRE   = regexp.MustCompile(`^` + repoPart + `(?:/` + repoPart + `)*$`)
)

func norm(x string) string {
	x = sidRE.ReplaceAllString(x, "uploads/SID")
	x = longRE.ReplaceAllString(x, "LONG")
	if len(x) > 110 {
		x = x[:110]
	}
	return x
}

type env struct {
	r        *vh.Run
	idx      int
	srv      *olareg.Server
	kind     vh.StoreKind
	state    string
	sessions []string
	w        *vh.World
	reopen   func() // directory store: a new server on the same directory (cold caches)
}

func (e *env) viol(sig, detail string, rq vh.Req, rs vh.Resp) {
	hd := map[string]string{}
	for k, v := range rq.H {
		hd[k] = v
	}
	body := string(rq.Body)
	if len(body) > 300 {
		body = body[:300] + "..."
	}
	pan := rs.Panic
	if len(pan) > 1500 {
		pan = pan[:1500]
	}
	e.r.Violation(sig, detail, map[string]any{"batch": e.idx, "store": e.kind.String(), "state": e.state, "method": rq.Method, "url": rq.URL, "headers": hd,
		"body": body, "unknown_length": rq.UnknownLen, "status": rs.Status, "response_body": string(rs.Body[:min(len(rs.Body), 300)]), "panic": pan})
}

// observe applies G2, G3 and R to one exchange.
func (e *env) observe(rq vh.Req, rs vh.Resp, repo string, route string) {
	e.r.Count("requests", 1)
	e.r.Distinct("route_status", fmt.Sprintf("%s %s %d", rq.Method, route, rs.Status))
	path := rq.URL
	if i := strings.IndexByte(path, '?'); i >= 0 {
		path = path[:i]
	}
	if rs.Panic != "" {
		first := rs.Panic
		if i := strings.IndexByte(first, '\n'); i >= 0 {
			first = first[:i]
		}
		e.viol("panic:"+rq.Method+" "+route, "handler panicked: "+first, rq, rs)
		return
	}
	if rs.Status >= 500 {
		e.viol(fmt.Sprintf("5xx:%s %s", rq.Method, route), fmt.Sprintf("%s %s answered %d although the request is a client matter and storage is healthy", rq.Method, norm(rq.URL), rs.Status), rq, rs)
		return
	}
	if rs.Status >= 400 && len(rs.Body) > 0 && rq.Method != "HEAD" {
		codes, ok := vh.ErrCodes(rs.Body)
		e.r.Count("error_documents_checked", 1)
		if !ok {
			e.viol(fmt.Sprintf("error-body-not-oci:%d", rs.Status), fmt.Sprintf("%s %s answered %d with a body that is not an OCI error document: %.80q", rq.Method, norm(rq.URL), rs.Status, rs.Body), rq, rs)
			return
		}
		for _, c := range codes {
			e.r.Distinct("codes", c)
			if !vh.RegisteredCode(c) {
				e.viol("error-code-unregistered", fmt.Sprintf("%s %s answered %d with the unregistered error code %q", rq.Method, norm(rq.URL), rs.Status, c), rq, rs)
				return
			}
		}
	}
	if repo != "" && !repoRE.MatchString(repo) && route != "other" {
		e.r.Count("invalid_name_requests", 1)
		if rs.Status != 400 && rs.Status != 404 && rs.Status != 405 {
			e.viol("invalid-name-routed", fmt.Sprintf("%s %s: repository name %q is outside the OCI grammar but the request was answered %d", rq.Method, norm(rq.URL), norm(repo), rs.Status), rq, rs)
		}
	}
}

func b64(s string) string { return base64.RawURLEncoding.EncodeToString([]byte(s)) }

func (e *env) newSess(rng *rand.Rand) {
	rs := vh.Do(e.srv, vh.Req{Method: "POST", URL: "/v2/r/blobs/uploads/"})
	if l := rs.H.Get("Location"); l != "" {
		e.sessions = append(e.sessions, l)
		if rng.Intn(2) == 0 {
			vh.Do(e.srv, vh.Req{Method: "PATCH", URL: l, Body: []byte("abc")})
		}
		if len(e.sessions) > 6 {
			e.sessions = e.sessions[1:]
		}
	}
}

func (e *env) fuzz(rng *rand.Rand, n int) {
	u := e.w.U
	repos := []string{"r", "r", "r", "r", "other", "a/b", "r/n", "blobs", "index.json", "x/oci-layout", "manifests/x", "R", "a//b", "-a", "a_", "a..b", "..", "r/../q", "%2e%2e", "r%2fn", "_x",
		"notes.txt", "notes.txt/sub", // (grammar-valid names that are a regular file in the root directory, see batch)
		strings.Repeat("a", 300), strings.Repeat("a/", 200) + "a", strings.Repeat("a", 255), "a/" + strings.Repeat("b", 254), "r\x00", "r ", "r%00"}
	var digs []string
	for _, b := range u.Blobs {
		digs = append(digs, b.D)
	}
	for _, mm := range u.Mans {
		digs = append(digs, mm.D)
	}
	refs := append([]string{"t1", "t2", "t3", "nope", "sha256:abc", "sha256:" + strings.Repeat("0", 64), "sha512:" + strings.Repeat("a", 128), "sha384:" + strings.Repeat("b", 96),
		"md5:d41d8cd98f00b204e9800998ecf8427e", "SHA256:" + strings.Repeat("0", 64), ":", "a:b:c", "sha256-" + strings.Repeat("0", 64), strings.Repeat("t", 129), "_x", ".x",
		"latest@sha256:abc", "", "sha256:" + strings.Repeat("0", 63) + "/", "%2e%2e", "uploads"}, digs...)
	ints := []string{"0", "-1", "1", "2", "9223372036854775807", "9223372036854775808", "-9223372036854775809", "x", "", "1e3", "0x10", " 1", "-0", "+1", "2147483648", "-2147483649"}
	states := []string{"", "!!!", b64(`{"offset":3}`), b64(`{"offset":0}`), b64(`{"offset":-1}`), b64(`{"offset":9223372036854775807}`), b64(`{"offset":"a"}`), b64(`[]`), b64(`null`), b64(`{"offset":1e400}`), b64(`{"offset":3.5}`)}
	ranges := []string{"", "0-2", "3-5", "3-", "-3", "a-b", "3-2", "-", "9223372036854775807-9223372036854775808", "99999999999999999999-1", "3", "bytes=0-1", " 3-4", "0-0", "-1-2"}
	hdrRange := []string{"", "bytes=0-1", "bytes=5-", "bytes=-2", "bytes=9999999-", "bytes=2-1", "bytes=0-0,2-3", "chars=0-1", "bytes=-", "bytes=0-18446744073709551616", "bytes=-0", "bytes=0-0,-1"}
	accepts := []string{"", vh.MTImage, vh.MTIndex, vh.MTImage + ", " + vh.MTIndex, "*/*", "application/json", ",", vh.MTImage + ";q=0.1", vh.MTDockerImage}
	cts := []string{"", vh.MTImage, vh.MTIndex, vh.MTDockerImage, vh.MTDockerList, "text/plain", vh.MTImage + "; charset=utf-8", strings.ToUpper(vh.MTImage), ";", "a/b;;;"}
	pick := func(l []string) string { return l[rng.Intn(len(l))] }
	bodies := func() []byte {
		switch rng.Intn(11) {
		case 0:
			return nil
		case 1:
			return []byte("abc")
		case 2:
			return u.Mans[rng.Intn(len(u.Mans))].Raw
		case 3:
			b := u.Mans[rng.Intn(len(u.Mans))].Raw
			return b[:rng.Intn(len(b))]
		case 4:
			return []byte(`{"schemaVersion":2,"mediaType":"` + vh.MTIndex + `","manifests":null}`)
		case 5:
			return []byte(`{"schemaVersion":2,"mediaType":"` + vh.MTImage + `","config":null,"layers":null,"subject":{"digest":"x"}}`)
		case 6:
			return []byte(strings.Repeat("[", 3000))
		case 7:
			return []byte(`{"schemaVersion":2,"mediaType":"` + vh.MTImage + `","config":{"digest":"sha256:zz","size":-1},"layers":[{"digest":""}],"subject":{"digest":"` + digs[0] + `"}}`)
		case 8:
			return []byte(`{"schemaVersion":99999999999999999999,"mediaType":7,"manifests":[{"size":1e999}]}`)
		case 9:
			return []byte(`{"schemaVersion":2,"manifests":[{"mediaType":"` + vh.MTImage + `","digest":"` + digs[rng.Intn(len(digs))] + `","size":1,"annotations":null,"platform":{"os":7}}]}`)
		default:
			return []byte(`null`)
		}
	}
	methods := []string{"GET", "GET", "HEAD", "PUT", "POST", "PATCH", "DELETE", "OPTIONS", "TRACE", "FOO", "CONNECT"}
	for i := 0; i < n; i++ {
		repo := pick(repos)
		var path, route string
		q := []string{}
		switch rng.Intn(9) {
		case 0:
			path, route = "/v2/"+repo+"/tags/list", "tags"
			if rng.Intn(2) == 0 {
				q = append(q, "n="+pick(ints))
			}
			if rng.Intn(2) == 0 {
				q = append(q, "last="+pick(refs))
			}
		case 1:
			path, route = "/v2/"+repo+"/manifests/"+pick(refs), "manifests"
			if rng.Intn(4) == 0 {
				q = append(q, "digest="+pick(refs))
			}
		case 2:
			path, route = "/v2/"+repo+"/blobs/"+pick(refs), "blobs"
		case 3:
			path, route = "/v2/"+repo+"/referrers/"+pick(refs), "referrers"
			if rng.Intn(2) == 0 {
				q = append(q, "artifactType="+pick([]string{"application/x.a", "", "x"}))
			}
			if rng.Intn(2) == 0 {
				q = append(q, "page="+pick(ints))
			}
			if rng.Intn(2) == 0 {
				q = append(q, "cache="+pick(refs))
			}
		case 4:
			path, route = "/v2/"+repo+"/blobs/uploads/", "uploads"
			if rng.Intn(2) == 0 {
				q = append(q, "digest="+pick(refs))
			}
			if rng.Intn(3) == 0 {
				q = append(q, "mount="+pick(refs))
			}
			if rng.Intn(3) == 0 {
				q = append(q, "from="+pick([]string{"r", "other", "r/n", "nosuch", "R", "a//b"}))
			}
			if rng.Intn(4) == 0 {
				q = append(q, "digest-algorithm="+pick([]string{"sha256", "sha512", "sha384", "md5", "", "SHA256"}))
			}
		case 5, 6:
			sid := "nosuchsession"
			if len(e.sessions) > 0 && rng.Intn(4) > 0 {
				l := pick(e.sessions)
				sid = l[strings.LastIndex(l, "/")+1 : strings.Index(l, "?")]
			}
			path, route = "/v2/"+repo+"/blobs/uploads/"+sid, "session"
			if rng.Intn(3) > 0 {
				q = append(q, "state="+pick(states))
			}
			if rng.Intn(3) == 0 {
				q = append(q, "digest="+pick(refs))
			}
		case 7:
			path, route = pick([]string{"/", "/v2", "/v2/", "/v2//", "/v1/", "/v2/" + repo, "/v2/" + repo + "/", "/v2/" + repo + "/manifests", "/v2/" + repo + "/blobs/uploads", "/v2/_catalog",
				"//v2/r/tags/list", "/v2/r/./tags/list", "/v2/r/tags/list/", "/v2/r/blobs/uploads//x", "/v2/r/blobs/uploads/../../tags/list", "/V2/r/tags/list"}), "other"
		default:
			path, route = "/v2/"+repo+"/"+pick([]string{"manifests", "blobs", "referrers", "tags"})+"/"+pick(refs)+"/"+pick(refs), "other"
		}
		url := path
		if len(q) > 0 {
			url += "?" + strings.Join(q, "&")
		}
		url = strings.NewReplacer(" ", "%20", "\x00", "%00").Replace(url)
		rq := vh.Req{Method: pick(methods), URL: url, H: map[string]string{}}
		if rq.Method == "PUT" || rq.Method == "POST" || rq.Method == "PATCH" || rng.Intn(10) == 0 {
			rq.Body = bodies()
		}
		if v := pick(accepts); v != "" {
			rq.H["Accept"] = v
		}
		if v := pick(cts); v != "" && rq.Body != nil {
			rq.H["Content-Type"] = v
		}
		if v := pick(ranges); v != "" && rng.Intn(2) == 0 {
			rq.H["Content-Range"] = v
		}
		if v := pick(hdrRange); v != "" && rng.Intn(2) == 0 {
			rq.H["Range"] = v
		}
		if rng.Intn(20) == 0 && rq.Body != nil {
			rq.UnknownLen = true
		}
		rs := vh.Do(e.srv, rq)
		if rs.Status == 598 {
			continue // the request could not even be formed
		}
		// the repository name the router sees is the decoded, cleaned one; only judge names that survive unchanged
		rp := repo
		if strings.ContainsAny(rp, "%\x00 ") || strings.Contains(rp, "..") || strings.Contains(rp, "//") {
			rp = ""
		}
		if strings.HasPrefix(repo, "manifests/") {
			rp = ""
		}
		e.observe(rq, rs, rp, route)
		if i%400 == 0 {
			e.newSess(rng)
		}
	}
}

// directed: conditions created on purpose, with the codes allowed for each.
// startedReader tells when the first Read of a request body begins.
type startedReader struct {
	r       io.Reader
	started chan struct{}
	once    sync.Once
	need    int32 // the Read call whose beginning is reported (1 = the first)
	n       atomic.Int32
}

func (s *startedReader) Read(b []byte) (int, error) {
	if s.n.Add(1) >= s.need {
		s.once.Do(func() { close(s.started) })
	}
	return s.r.Read(b)
}

func (e *env) directed(rng *rand.Rand) {
	u := e.w.U
	m := e.w.Repos["r"]
	absentD := vh.DigestOf("sha256", []byte(fmt.Sprint("absent", e.idx)))
	var presentBlob string
	for d := range m.Stored {
		if m.Mans[d] == nil && (presentBlob == "" || d < presentBlob) {
			presentBlob = d
		}
	}
	var unpushable *vh.Man
	for _, mm := range u.Mans {
		if !m.ValidRefs(mm) {
			unpushable = mm
		}
	}
	type dc struct {
		name  string
		rq    vh.Req
		codes []string
		only  vh.StoreKind // -1 = all
		sess  string       // the condition presupposes that this upload session of "r" is open
	}
	// the registry may evict a session at any moment once the per-repository bound is exceeded (eviction runs in
	// goroutines of its own); whether the presupposed session is open is therefore read from the real state
	sessOpen := func(id string) bool {
		ids, _ := e.srv.VerifUploads(context.Background(), "r")
		for _, x := range ids {
			if x == id {
				return true
			}
		}
		return false
	}
	sessID := func(loc string) string {
		p := strings.SplitN(loc, "?", 2)[0]
		return p[strings.LastIndex(p, "/")+1:]
	}
	any := vh.StoreKind(-1)
	cases := []dc{
		{"unparsable-digest-blob", vh.Req{Method: "GET", URL: "/v2/r/blobs/sha256:zz"}, []string{"DIGEST_INVALID"}, any, ""},
		{"unknown-blob", vh.Req{Method: "GET", URL: "/v2/r/blobs/" + absentD}, []string{"BLOB_UNKNOWN"}, any, ""},
		{"unknown-tag", vh.Req{Method: "GET", URL: "/v2/r/manifests/nosuchtag", H: map[string]string{"Accept": vh.AcceptAll}}, []string{"MANIFEST_UNKNOWN", "NAME_UNKNOWN"}, any, ""},
		{"unknown-manifest-digest", vh.Req{Method: "GET", URL: "/v2/r/manifests/" + absentD, H: map[string]string{"Accept": vh.AcceptAll}}, []string{"MANIFEST_UNKNOWN", "NAME_UNKNOWN"}, any, ""},
		{"unknown-repository-manifest", vh.Req{Method: "GET", URL: "/v2/never/pushed/manifests/latest", H: map[string]string{"Accept": vh.AcceptAll}}, []string{"MANIFEST_UNKNOWN", "NAME_UNKNOWN"}, any, ""},
		{"reserved-name", vh.Req{Method: "GET", URL: "/v2/x/blobs/y/tags/list"}, []string{"NAME_INVALID"}, vh.Dir, ""},
		{"reserved-name-push", vh.Req{Method: "POST", URL: "/v2/index.json/blobs/uploads/"}, []string{"NAME_INVALID"}, vh.Dir, ""},
		{"unknown-session", vh.Req{Method: "PATCH", URL: "/v2/r/blobs/uploads/nosuchsession?state=" + b64(`{"offset":0}`), Body: []byte("x")}, []string{"BLOB_UPLOAD_UNKNOWN"}, any, ""},
		{"unknown-session-status", vh.Req{Method: "GET", URL: "/v2/r/blobs/uploads/nosuchsession"}, []string{"BLOB_UPLOAD_UNKNOWN"}, any, ""},
		{"monolithic-digest-mismatch", vh.Req{Method: "POST", URL: "/v2/r/blobs/uploads/?digest=" + absentD, Body: []byte("other bytes")}, []string{"DIGEST_INVALID"}, any, ""},
		{"manifest-not-json", vh.Req{Method: "PUT", URL: "/v2/r/manifests/bad", H: map[string]string{"Content-Type": vh.MTImage}, Body: []byte("{{{")}, []string{"MANIFEST_INVALID"}, any, ""},
		{"manifest-unsupported-type", vh.Req{Method: "PUT", URL: "/v2/r/manifests/bad", H: map[string]string{"Content-Type": "text/plain"}, Body: []byte("{}")}, []string{"MANIFEST_INVALID"}, any, ""},
		{"manifest-digest-mismatch", vh.Req{Method: "PUT", URL: "/v2/r/manifests/" + absentD, H: map[string]string{"Content-Type": vh.MTImage}, Body: u.Mans[0].Raw}, []string{"DIGEST_INVALID"}, any, ""},
		{"manifest-too-large", vh.Req{Method: "PUT", URL: "/v2/r/manifests/big", H: map[string]string{"Content-Type": vh.MTImage}, Body: []byte(`{"schemaVersion":2,"x":"` + strings.Repeat("y", 70000) + `"}`)}, []string{"MANIFEST_INVALID", "SIZE_INVALID"}, any, ""},
		{"unsupported-algorithm", vh.Req{Method: "POST", URL: "/v2/r/blobs/uploads/?digest-algorithm=md5"}, []string{"DIGEST_INVALID", "UNSUPPORTED"}, any, ""},
	}
	if unpushable != nil {
		cases = append(cases, dc{"manifest-missing-references", vh.Req{Method: "PUT", URL: vh.ManifestURL("r", unpushable, "miss"), H: map[string]string{"Content-Type": unpushable.MT}, Body: unpushable.Raw}, []string{"MANIFEST_BLOB_UNKNOWN"}, any, ""})
	}
	if ns := vh.Do(e.srv, vh.Req{Method: "POST", URL: "/v2/r/blobs/uploads/"}); ns.Status == 202 && ns.H.Get("Location") != "" {
		// a fresh session, so that the condition really is "bad state / bad range on an existing session"
		l := ns.H.Get("Location")
		p := l[:strings.Index(l, "?")]
		sid := sessID(l)
		cases = append(cases,
			dc{"bad-state", vh.Req{Method: "PATCH", URL: p + "?state=!!!", Body: []byte("x")}, []string{"BLOB_UPLOAD_INVALID"}, any, sid},
			dc{"future-state", vh.Req{Method: "PATCH", URL: p + "?state=" + b64(`{"offset":987654}`), Body: []byte("x")}, []string{"BLOB_UPLOAD_INVALID"}, any, sid},
			dc{"bad-range", vh.Req{Method: "PATCH", URL: l, H: map[string]string{"Content-Range": "987654-987660"}, Body: []byte("x")}, []string{"SIZE_INVALID", "BLOB_UPLOAD_INVALID"}, any, sid},
			dc{"malformed-range", vh.Req{Method: "PATCH", URL: l, H: map[string]string{"Content-Range": "abc"}, Body: []byte("x")}, []string{"SIZE_INVALID", "BLOB_UPLOAD_INVALID"}, any, sid},
			dc{"put-missing-digest", vh.Req{Method: "PUT", URL: l}, []string{"DIGEST_INVALID"}, any, sid},
		)
	}
	if ns := vh.Do(e.srv, vh.Req{Method: "POST", URL: "/v2/r/blobs/uploads/"}); ns.Status == 202 && ns.H.Get("Location") != "" {
		// a session of its own: the refusal ends it
		l := ns.H.Get("Location")
		cases = append(cases, dc{"put-digest-mismatch", vh.Req{Method: "PUT", URL: l + "&digest=" + absentD, Body: []byte("bytes that do not hash to it")}, []string{"DIGEST_INVALID"}, any, sessID(l)})
	}
	// a request whose body ends before the announced length (or inside a chunk): the handler's read fails with an
	// unexpected EOF. The client broke the request; it can still be listening (half-closed connection), so the
	// answer counts
	{
		bb := []byte(fmt.Sprintf("body that ends early %d", e.idx))
		bodyCodes := []string{"BLOB_UPLOAD_INVALID", "SIZE_INVALID", "DIGEST_INVALID"}
		for _, ul := range []bool{false, true} {
			sfx := ""
			if ul {
				sfx = "-chunked"
			}
			cases = append(cases,
				dc{"body-ends-early:monolithic" + sfx, vh.Req{Method: "POST", URL: "/v2/r/blobs/uploads/?digest=" + vh.DigestOf("sha256", bb), Body: bb[:7], Short: len(bb) - 7, UnknownLen: ul}, bodyCodes, any, ""},
				dc{"body-ends-early:manifest" + sfx, vh.Req{Method: "PUT", URL: "/v2/r/manifests/cut", H: map[string]string{"Content-Type": u.Mans[0].MT}, Body: u.Mans[0].Raw[:len(u.Mans[0].Raw)/2], Short: 9, UnknownLen: ul}, []string{"MANIFEST_INVALID", "SIZE_INVALID", "DIGEST_INVALID"}, any, ""})
			for k := 0; k < 2; k++ {
				ns := vh.Do(e.srv, vh.Req{Method: "POST", URL: "/v2/r/blobs/uploads/"})
				if ns.Status != 202 || ns.H.Get("Location") == "" {
					continue
				}
				l := ns.H.Get("Location")
				if k == 0 {
					cases = append(cases, dc{"body-ends-early:patch" + sfx, vh.Req{Method: "PATCH", URL: l, Body: bb[:5], Short: 4, UnknownLen: ul}, bodyCodes, any, sessID(l)})
				} else {
					cases = append(cases, dc{"body-ends-early:put" + sfx, vh.Req{Method: "PUT", URL: l + "&digest=" + vh.DigestOf("sha256", bb), Body: bb[:5], Short: len(bb) - 5, UnknownLen: ul}, bodyCodes, any, sessID(l)})
				}
			}
		}
	}
	// manifests whose references are no digests at all (no colon, empty): refused like any other incomplete manifest -
	// on every store kind the reference is looked up somewhere, and that lookup must not trip over the string
	for k, dg := range []string{"sha256-" + strings.Repeat("ab", 32), "", "latest", strings.Repeat("c", 64)} {
		body := fmt.Sprintf(`{"schemaVersion":2,"mediaType":%q,"config":{"mediaType":%q,"digest":%q,"size":2},"layers":[]}`, vh.MTImage, vh.MTConfig, dg)
		mt := vh.MTImage
		if k%2 == 1 {
			body = fmt.Sprintf(`{"schemaVersion":2,"mediaType":%q,"manifests":[{"mediaType":%q,"digest":%q,"size":2}]}`, vh.MTIndex, vh.MTImage, dg)
			mt = vh.MTIndex
		}
		cases = append(cases, dc{"reference-is-no-digest", vh.Req{Method: "PUT", URL: fmt.Sprintf("/v2/r/manifests/nodigest%d", k), H: map[string]string{"Content-Type": mt}, Body: []byte(body)},
			[]string{"MANIFEST_INVALID", "MANIFEST_BLOB_UNKNOWN", "DIGEST_INVALID", "BLOB_UNKNOWN"}, any, ""})
	}
	if presentBlob != "" {
		// an unsatisfiable byte range on existing content is a client mistake too
		cases = append(cases, dc{"unsatisfiable-range", vh.Req{Method: "GET", URL: "/v2/r/blobs/" + presentBlob, H: map[string]string{"Range": "bytes=99999999-"}}, []string{"SIZE_INVALID", "BLOB_UNKNOWN", "UNSUPPORTED"}, any, ""})
	}
	{
		// ... and on a manifest, by digest and by tag, with an Accept list that matches
		var presentMan string
		for d := range m.Mans {
			if m.Visible(d) && (presentMan == "" || d < presentMan) {
				presentMan = d
			}
		}
		if presentMan != "" {
			for _, rg := range []string{"bytes=99999999-", "bytes=2-1"} {
				cases = append(cases, dc{"unsatisfiable-range:manifest", vh.Req{Method: "GET", URL: "/v2/r/manifests/" + presentMan, H: map[string]string{"Range": rg, "Accept": vh.AcceptAll}}, []string{"SIZE_INVALID", "MANIFEST_UNKNOWN", "MANIFEST_BLOB_UNKNOWN", "UNSUPPORTED"}, any, ""})
			}
		}
		var tgs []string
		for t, d := range m.Tags {
			if m.Visible(d) {
				tgs = append(tgs, t)
			}
		}
		sort.Strings(tgs)
		if len(tgs) > 0 {
			cases = append(cases, dc{"unsatisfiable-range:manifest", vh.Req{Method: "GET", URL: "/v2/r/manifests/" + tgs[0], H: map[string]string{"Range": "bytes=99999999-", "Accept": vh.AcceptAll}}, []string{"SIZE_INVALID", "MANIFEST_UNKNOWN", "MANIFEST_BLOB_UNKNOWN", "UNSUPPORTED"}, any, ""})
		}
	}
	// a mount whose source name is outside the grammar must not reach storage: it cannot be answered "mounted" (201)
	{
		mb := []byte(fmt.Sprintf("mount source content %d", e.idx))
		md := vh.DigestOf("sha256", mb)
		if rs := vh.Do(e.srv, vh.Req{Method: "POST", URL: "/v2/other/blobs/uploads/?digest=" + md, Body: mb}); rs.Status == 201 {
			for _, from := range []string{"other/../other", "./other", "other/", "other//", "other/.", "OTHER/../other", "%6fther/"} {
				rq := vh.Req{Method: "POST", URL: "/v2/r/blobs/uploads/?mount=" + md + "&from=" + from}
				rs := vh.Do(e.srv, rq)
				e.observe(rq, rs, "", "directed:mount-from-outside-grammar")
				e.r.Count("directed_conditions", 1)
				if rs.Status == 201 {
					e.viol("invalid-name-routed:mount-from", fmt.Sprintf("mount with from=%q (outside the repository name grammar) was answered 201: the name reached storage", from), rq, rs)
				} else if loc := rs.H.Get("Location"); rs.Status == 202 && loc != "" {
					vh.Do(e.srv, vh.Req{Method: "DELETE", URL: strings.SplitN(loc, "?", 2)[0]})
				}
			}
		}
	}
	// a session that remembers a digest (mount fall-back) completed under another, correct digest: a client matter
	if ms := vh.Do(e.srv, vh.Req{Method: "POST", URL: "/v2/r/blobs/uploads/?mount=" + absentD + "&from=other"}); ms.Status == 202 && ms.H.Get("Location") != "" {
		body := []byte(fmt.Sprintf("other content %d", e.idx))
		cases = append(cases, dc{"mount-fallback-other-digest", vh.Req{Method: "PUT", URL: ms.H.Get("Location") + "&digest=" + vh.DigestOf("sha256", body), Body: body}, []string{"BLOB_UPLOAD_INVALID", "DIGEST_INVALID"}, any, sessID(ms.H.Get("Location"))})
	}
	// a tag that points to an index whose content was removed through the blob API, read with an Accept list that
	// needs negotiation: still a client-visible "not found", never a server error
	for _, mm := range u.Mans {
		if mm.Index && mm.Subject == "" && m.ValidRefs(mm) {
			if rs, _ := e.w.PutManifest("r", mm, "negot"); rs.Status == 201 {
				e.w.DeleteBlob("r", mm.D, mm.Name)
				cases = append(cases, dc{"tag-to-removed-index-negotiation", vh.Req{Method: "GET", URL: "/v2/r/manifests/negot", H: map[string]string{"Accept": vh.MTImage}}, []string{"MANIFEST_UNKNOWN", "MANIFEST_BLOB_UNKNOWN", "BLOB_UNKNOWN"}, any, ""})
				defer e.w.DeleteTag("r", "negot")
			}
			break
		}
	}
	// several clients delete the same blob at the same moment: one is acknowledged, the others are late - not found
	for round := 0; round < 4; round++ {
		cb := []byte(fmt.Sprintf("blob deleted by many %d %d", e.idx, round))
		cd := vh.DigestOf("sha256", cb)
		if vh.Do(e.srv, vh.Req{Method: "POST", URL: "/v2/r/blobs/uploads/?digest=" + cd, Body: cb}).Status != 201 {
			continue
		}
		var dw sync.WaitGroup
		res := make([]vh.Resp, 8)
		rq := vh.Req{Method: "DELETE", URL: "/v2/r/blobs/" + cd}
		for k := range res {
			dw.Add(1)
			go func(k int) {
				defer dw.Done()
				res[k] = vh.Do(e.srv, rq)
			}(k)
		}
		dw.Wait()
		for _, rs := range res {
			e.observe(rq, rs, "", "directed:concurrent-blob-delete")
		}
		e.r.Count("directed_conditions", 1)
		e.r.Distinct("directed_classes", "concurrent-blob-delete")
	}
	// a session that the client itself ends (DELETE) while the body of its own PATCH / completing PUT is still on its
	// way: the rest of the body belongs to no session - a client matter, answered with a 4xx
	for _, meth := range []string{"PATCH", "PUT"} {
		ns := vh.Do(e.srv, vh.Req{Method: "POST", URL: "/v2/r/blobs/uploads/"})
		l := ns.H.Get("Location")
		if ns.Status != 202 || l == "" {
			continue
		}
		pth := strings.SplitN(l, "?", 2)[0]
		part1, part2 := bytes.Repeat([]byte("p"), 3000), bytes.Repeat([]byte("q"), 70000)
		u2 := l
		if meth == "PUT" {
			u2 = l + "&digest=" + vh.DigestOf("sha256", append(append([]byte{}, part1...), part2...))
		}
		pr, pw := io.Pipe()
		done := make(chan vh.Resp, 1)
		go func() { done <- vh.DoStream(e.srv, meth, u2, nil, pr) }()
		if _, err := pw.Write(part1); err != nil {
			_ = pw.Close()
			<-done
			continue
		}
		for k := 0; k < 300; k++ { // until the handler has stored the first part
			if g := vh.Do(e.srv, vh.Req{Method: "GET", URL: pth}); g.H.Get("Range") == "0-2999" {
				break
			}
			time.Sleep(2 * time.Millisecond)
		}
		vh.Do(e.srv, vh.Req{Method: "DELETE", URL: pth})
		_, _ = pw.Write(part2)
		_ = pw.Close()
		rs := <-done
		rq := vh.Req{Method: meth, URL: u2, UnknownLen: true}
		e.observe(rq, rs, "", "directed:session-ended-mid-request")
		e.r.Count("directed_conditions", 1)
		e.r.Distinct("directed_classes", "session-ended-mid-request:"+meth)
	}
	// a monolithic POST whose (hidden) session is evicted while its body is still arriving - other clients opened sessions
	// and the bound is small: the registry's own housekeeping, no mistake of this client's and no storage fault, so no 5xx
	// (a server of its own: the bound of the batch's server is not that small)
	{
		mroot := ""
		if e.kind != vh.Mem {
			mroot = e.r.TempDir("c15m")
		}
		mc := vh.Conf(e.kind, mroot, vh.Neutral)
		mc.Storage.GC.RepoUploadMax = 1
		ms := vh.New(mc)
		body := bytes.Repeat([]byte("m"), 4000+e.idx%9)
		u := "/v2/r/blobs/uploads/?digest=" + vh.DigestOf("sha256", body)
		pr, pw := io.Pipe()
		done := make(chan vh.Resp, 1)
		go func() { done <- vh.DoStream(ms, "POST", u, nil, pr) }()
		_, _ = pw.Write(body[:2000])
		for k := 0; k < 3; k++ {
			vh.Do(ms, vh.Req{Method: "POST", URL: "/v2/r/blobs/uploads/"})
			time.Sleep(2 * time.Millisecond)
		}
		_, _ = pw.Write(body[2000:])
		_ = pw.Close()
		rs := <-done
		e.observe(vh.Req{Method: "POST", URL: u, UnknownLen: true}, rs, "", "directed:monolithic-session-evicted")
		e.r.Count("directed_conditions", 1)
		e.r.Distinct("directed_classes", fmt.Sprintf("monolithic-session-evicted:%d", rs.Status/100))
		_ = ms.Close()
		if mroot != "" {
			vh.RemoveAll(mroot)
		}
	}
	// the server is closed (Close, or a Shutdown whose context has ended) while a completing PUT / monolithic POST still
	// waits for the end of its body: the handler is still running and has to answer - an error, whatever - it must not
	// panic ("returns a response without panicking")
	for _, form := range []string{"put", "monolithic-post"} {
		croot := ""
		if e.kind != vh.Mem {
			croot = e.r.TempDir("c15c")
		}
		cs := vh.New(vh.Conf(e.kind, croot, vh.Neutral))
		content := []byte(fmt.Sprintf("closed under a completion %d %s", e.idx, form))
		cd := vh.DigestOf("sha256", content)
		var meth, u string
		switch form {
		case "put":
			ns := vh.Do(cs, vh.Req{Method: "POST", URL: "/v2/r/blobs/uploads/"})
			ps := vh.Do(cs, vh.Req{Method: "PATCH", URL: ns.H.Get("Location"), Body: content})
			if ns.Status != 202 || ps.Status != 202 || ps.H.Get("Location") == "" {
				_ = cs.Close()
				continue
			}
			meth, u = "PUT", ps.H.Get("Location")+"&digest="+cd
		default:
			meth, u = "POST", "/v2/r/blobs/uploads/?digest="+cd
		}
		pr, pw := io.Pipe()
		// (put: the handler's first read of the body; monolithic POST: its second - the first one takes the content, which
		// it writes to the store before it comes back for more)
		sr := &startedReader{r: pr, started: make(chan struct{}), need: map[string]int32{"put": 1, "monolithic-post": 2}[form]}
		done := make(chan vh.Resp, 1)
		go func() { done <- vh.DoStream(cs, meth, u, nil, sr) }()
		if form != "put" {
			_, _ = pw.Write(content) // returns when the handler has taken the content: it now waits for the end of the body
		}
		established := true
		select {
		case <-sr.started: // the handler is inside its read of the body: it entered the server before Close
		case <-time.After(5 * time.Second):
			established = false
		}
		_ = cs.Close()
		_ = pw.Close()
		rs := <-done
		if !established {
			e.r.Count("directed_server_closed_not_established", 1)
		} else if rs.Panic != "" {
			e.observe(vh.Req{Method: meth, URL: u, UnknownLen: true}, rs, "", "directed:server-closed-under-completion")
		}
		e.r.Count("directed_conditions", 1)
		e.r.Distinct("directed_classes", "server-closed-under-completion:"+form)
		if croot != "" {
			vh.RemoveAll(croot)
		}
	}
	// ... and the same with nothing left to send: the completing PUT has read all there is when the session is ended
	// under it (by the client's own DELETE, or by a second, identical PUT that completes first) - no more data arrives,
	// the handler goes straight on to store a blob for a session that is gone
	for _, how := range []string{"delete", "twin-put"} {
		ns := vh.Do(e.srv, vh.Req{Method: "POST", URL: "/v2/r/blobs/uploads/"})
		l := ns.H.Get("Location")
		if ns.Status != 202 || l == "" {
			continue
		}
		pth := strings.SplitN(l, "?", 2)[0]
		part1 := bytes.Repeat([]byte(how[:1]), 2500+e.idx%7)
		ps := vh.Do(e.srv, vh.Req{Method: "PATCH", URL: l, Body: part1})
		l2 := ps.H.Get("Location")
		if ps.Status != 202 || l2 == "" {
			continue
		}
		u2 := l2 + "&digest=" + vh.DigestOf("sha256", part1)
		pr, pw := io.Pipe()
		done := make(chan vh.Resp, 1)
		go func() { done <- vh.DoStream(e.srv, "PUT", u2, nil, pr) }()
		time.Sleep(3 * time.Millisecond) // the handler is waiting for the body (or will be: both orders are legal histories)
		var other vh.Resp
		if how == "delete" {
			other = vh.Do(e.srv, vh.Req{Method: "DELETE", URL: pth})
		} else {
			other = vh.Do(e.srv, vh.Req{Method: "PUT", URL: u2})
			e.observe(vh.Req{Method: "PUT", URL: u2}, other, "", "directed:session-ended-before-completion")
		}
		_ = pw.Close()
		rs := <-done
		e.observe(vh.Req{Method: "PUT", URL: u2, UnknownLen: true}, rs, "", "directed:session-ended-before-completion")
		e.r.Count("directed_conditions", 1)
		e.r.Distinct("directed_classes", "session-ended-before-completion:"+how)
	}
	for _, c := range cases {
		if c.only != any && c.only != e.kind {
			continue
		}
		codesWanted := c.codes
		openBefore := c.sess == "" || sessOpen(c.sess)
		if !openBefore {
			// the session was evicted before the probe: the condition now is "unknown session"
			codesWanted = []string{"BLOB_UPLOAD_UNKNOWN"}
			e.r.Count("directed_session_evicted_before_probe", 1)
		}
		rs := vh.Do(e.srv, c.rq)
		e.observe(c.rq, rs, "", "directed:"+c.name)
		e.r.Count("directed_conditions", 1)
		e.r.Distinct("directed_classes", c.name)
		if openBefore && c.sess != "" && !sessOpen(c.sess) {
			// evicted (or ended by the refusal itself) around the probe: either code family is right
			codesWanted = append(append([]string{}, c.codes...), "BLOB_UPLOAD_UNKNOWN")
			e.r.Count("directed_session_gone_after_probe", 1)
		}
		if rs.Status < 400 || rs.Status >= 500 {
			if rs.Status < 400 && c.name != "unsatisfiable-range" { // (an empty blob has no unsatisfiable range)
				e.viol("condition-not-refused:"+c.name, fmt.Sprintf("condition %s answered %d", c.name, rs.Status), c.rq, rs)
			}
			continue
		}
		if len(rs.Body) == 0 {
			continue // a body is not required
		}
		codes, ok := vh.ErrCodes(rs.Body)
		if !ok {
			continue // reported by observe
		}
		for _, got := range codes {
			okc := false
			for _, a := range codesWanted {
				if a == got {
					okc = true
				}
			}
			if !okc && vh.RegisteredCode(got) {
				e.viol("wrong-code:"+c.name, fmt.Sprintf("condition %s is answered with code %s, registered code for it: %s", c.name, got, strings.Join(codesWanted, " or ")), c.rq, rs)
			}
		}
	}
	// paged referrers: walk the Link chain to learn the answer's digest and the number of pages, then ask for pages
	// around the end with a cold cache key (another artifactType filter) and with the right and a wrong cache digest
	for _, sj := range u.Subjects {
		descs, pages, _, _, _ := e.w.WalkReferrers("r", sj, "")
		if pages < 2 || len(descs) == 0 {
			continue
		}
		rs := vh.Do(e.srv, vh.Req{Method: "GET", URL: "/v2/r/referrers/" + sj})
		link := rs.H.Get("Link")
		ci := strings.Index(link, "cache=")
		if ci < 0 {
			continue
		}
		cache := link[ci+6:]
		if j := strings.IndexAny(cache, "&>"); j >= 0 {
			cache = cache[:j]
		}
		if e.kind == vh.Dir {
			// every page number around the end against a server whose page cache is cold
			for pg := 0; pg <= pages+2; pg++ {
				e.reopen()
				rq := vh.Req{Method: "GET", URL: fmt.Sprintf("/v2/r/referrers/%s?cache=%s&page=%d", sj, cache, pg)}
				e.observe(rq, vh.Do(e.srv, rq), "", "directed:referrers-page-bounds-cold")
				e.r.Count("referrer_page_bound_probes_cold", 1)
			}
		}
		for _, pg := range []int{pages - 1, pages, pages + 1, pages + 2, 1 << 30} {
			for _, flt := range []string{"", "application/x.a", "application/x.b", fmt.Sprintf("application/x.cold%d", e.idx)} {
				for _, cd := range []string{cache, "sha256%3A" + strings.Repeat("0", 64)} {
					q := fmt.Sprintf("/v2/r/referrers/%s?cache=%s&page=%d", sj, cd, pg)
					if flt != "" {
						q += "&artifactType=" + flt
					}
					rq := vh.Req{Method: "GET", URL: q}
					e.observe(rq, vh.Do(e.srv, rq), "", "directed:referrers-page-bounds")
					e.r.Count("referrer_page_bound_probes", 1)
				}
			}
		}
		break
	}
}

func batch(r *vh.Run, i int, nreq int) {
	rng := r.Rand(i)
	kind := []vh.StoreKind{vh.Mem, vh.Dir, vh.Mem, vh.Dir, vh.MemDir}[i%5] // (the memory store over a directory is what `serve --store-type mem` runs)
	root := ""
	if kind != vh.Mem {
		root = r.TempDir("c15")
		defer vh.RemoveAll(root)
	}
	if root != "" {
		// a file somebody keeps next to the repositories (`serve --dir .` is the default): its name is a repository name
		_ = os.WriteFile(filepath.Join(root, "notes.txt"), []byte("not a repository\n"), 0o644)
	}
	if kind == vh.MemDir {
		// the memory store reads a backing directory only where it is an OCI layout: a directory store creates the
		// repositories first, so that the hostile requests also reach the store's look-ups in the directory
		ps := vh.New(vh.Conf(vh.Dir, root, vh.Neutral))
		for _, rp := range []string{"r", "r/n", "other"} {
			b := []byte(fmt.Sprintf("backing content %d %s", i, rp))
			vh.Do(ps, vh.Req{Method: "POST", URL: "/v2/" + rp + "/blobs/uploads/?digest=" + vh.DigestOf("sha256", b), Body: b})
		}
		_ = ps.Close()
	}
	c := vh.Conf(kind, root, vh.Neutral)
	c.Storage.GC.RepoUploadMax = 5
	c.API.Manifest.Limit = 60000
	c.API.Referrer.Limit = 700
	srv := vh.New(c)
	u := vh.GenUniverse(rng, vh.UOpts{Algs: true, Docker: true, NArtifact: 7, Tag: fmt.Sprint(i)})
	w := vh.NewWorld(r, srv, u, kind, "r", "r/n", "other")
	e := &env{r: r, idx: i, srv: srv, kind: kind, w: w}
	defer func() { _ = e.srv.Close() }()
	e.reopen = func() {
		if kind != vh.Dir {
			return
		}
		_ = e.srv.Close()
		e.srv = vh.New(c)
		e.w.H = e.srv
		e.sessions = nil
	}
	e.state = []string{"empty", "populated", "open-sessions", "paged-referrers"}[i%4]
	if e.state != "empty" {
		for _, b := range u.Blobs {
			if rng.Intn(5) > 0 {
				w.PushBlob("r", b)
			}
			if rng.Intn(2) == 0 {
				w.PushBlob("other", b)
			}
		}
		for pass := 0; pass < 2; pass++ {
			for _, mm := range u.Mans {
				if w.Repos["r"].ValidRefs(mm) && rng.Intn(4) > 0 {
					tag := ""
					if rng.Intn(2) == 0 {
						tag = u.Tags[rng.Intn(len(u.Tags))]
					}
					w.PutManifest("r", mm, tag)
				}
			}
		}
	}
	if e.state == "open-sessions" || e.state == "paged-referrers" {
		for k := 0; k < 3; k++ {
			e.newSess(rng)
		}
	}
	r.Distinct("states", e.state+"/"+kind.String())
	e.directed(rng)
	e.fuzz(rng, nreq)
	e.directed(rng)
	r.Count("batches", 1)
	if i < 1 {
		r.Sample(map[string]any{"batch": i, "store": kind.String(), "state": e.state, "example_request": "grammar-generated: see rule"})
	}
}

func main() {
	r := vh.Start()
	nb := r.N(32, 400)
	per := 1500
	if r.Tier == "thorough" {
		per = 6000
	}
	vh.Parallel(nb, 16, func(i int) { batch(r, i, per) })
	r.Require("requests", int64(nb*per/2))
	r.Require("error_documents_checked", 1000)
	r.Require("directed_conditions", int64(nb*10))
	r.RequireDistinct("route_status", 60)
	r.Finish("grammar-based requests: 11 methods x 9 path templates x 28 repository names (valid, nested, reserved, invalid, encoded, 255/300 characters) x ~35 references x numeric/state/range/Accept/Content-Type vocabularies at and beyond bounds x 11 body shapes, known and unknown length, against empty / populated / open-session / paged-referrer servers on both stores, plus ~22 directed conditions with their allowed codes before and after the fuzz; a case is one request, distinct = distinct (method, route, status) triples observed", "requests", "route_status")
}
