#!/usr/bin/env python3
"""Regenerates MANIFEST.json from the table below (kept as code so that it is always schema-valid)."""
import json, os, subprocess
V = os.path.dirname(os.path.abspath(__file__))
BASE_OFF = "cd /repo && GOFLAGS=-mod=mod GOPROXY=off GOSUMDB=off GOTOOLCHAIN=local go test -json -vet=off -count=1 -timeout 25m ./..."
def hook_commits():
    try:
        out = subprocess.run(["git", "-C", "/repo", "log", "--format=%H %s"], capture_output=True, text=True).stdout
        return [l.split()[0] for l in out.splitlines() if " verif-hooks:" in l]
    except Exception:
        return []
CLAIMS = {}
def claim(cid, cat, text, note, tech, ref):
    CLAIMS[cid] = dict(property_id=cid, quick_cmd="./check %s --tier quick" % cid, thorough_cmd="./check %s --tier thorough" % cid,
        evidence_file="/verif/evidence/%s.json" % cid, replay_cmd_template="./check %s --replay {path}" % cid, engine="runtime-monitor",
        level_claimed=dict(category=cat, text=text, design_ref=ref), level_note=note, technique=tech)
exec(open(os.path.join(V, "claims.py")).read())
props = [json.loads(l)["id"] for l in open(os.path.join(V, "properties.jsonl"))]
na = [dict(property_id=p, reason=NOT_YET.get(p, "check not built yet in this session; not claimed")) for p in props if p not in CLAIMS]
m = dict(version=1,
    setup_cmd="./check --setup",
    hooks=dict(guard="verif (Go build tag)", enable="go build -tags verif -overlay <generated> -modfile <generated> ./internal/verif/<pkg>, run from /repo by ./check",
               baseline_off_cmd=BASE_OFF, source_commits=hook_commits(), add_only=True),
    engines=[dict(name="runtime-monitor", path="/verif/check", serves_properties=sorted(CLAIMS), kind_free_text="python driver + Go harness packages compiled inside the olareg module through a build overlay; reference-model monitors, invariant monitors, porcupine history checker, Go race detector, filesystem/sync shims for crash images, path monitoring and schedule jitter")],
    checks=[CLAIMS[k] for k in sorted(CLAIMS)],
    notes="All verdicts are 'held on the executions observed'; see DESIGN.md. known_findings.json lists recorded and repaired defects.",
    not_applicable=na)
json.dump(m, open(os.path.join(V, "MANIFEST.json"), "w"), indent=1)
print("claimed:", sorted(CLAIMS), "unclaimed:", [x["property_id"] for x in na])
